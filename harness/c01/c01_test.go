package c01

import (
	"bytes"
	stdjson "encoding/json"
	"fmt"
	"io"
	"os"
	"os/exec"
	"path/filepath"
	"strings"
	"sync"
	"testing"
	"time"
	"unicode/utf8"
	"unsafe"

	"github.com/tdewolff/parse/v2"
	"github.com/tdewolff/parse/v2/css"
	"github.com/tdewolff/parse/v2/html"
	"github.com/tdewolff/parse/v2/js"
	"github.com/tdewolff/parse/v2/json"
	"github.com/tdewolff/parse/v2/xml"
	"pgregory.net/rapid"

	"verif/internal/ev"
	"verif/internal/gen"
	"verif/internal/jsgen"
)

func TestMain(m *testing.M) { ev.Main(m, "C01") }

type fataler interface {
	Fatalf(format string, args ...any)
}

// driver abstracts one entry point: step returns whether the call returned the error unit and the slices handed out
type driver struct {
	name   string
	step   func() (isErr bool, slices [][]byte)
	offset func() int
	err    func() error
	sticky bool // an error unit without progress is final (xml NUL, json parse errors, html foreign-content error)
}

func within(sub, whole []byte) bool {
	if len(sub) == 0 || len(whole) == 0 {
		return len(sub) == 0
	}
	s := uintptr(unsafe.Pointer(unsafe.SliceData(sub)))
	b := uintptr(unsafe.Pointer(unsafe.SliceData(whole)))
	return s >= b && s+uintptr(len(sub)) <= b+uintptr(len(whole))
}

func errText(e error) string {
	if e == nil {
		return "<nil>"
	}
	return e.Error()
}

// drive: every call returns (a recovered panic is a violation), the cursor stays inside the input, every slice lies
// inside the input or is a synthesized token without the terminator, the end (error unit without progress) is reached
// within 4*len+16 calls whatever happened before, and the next 3 calls report it again.
func drive(t fataler, d driver, src []byte, in *parse.Input) (calls, errs int, cls string) {
	budget := 4*len(src) + 16
	hasNUL := bytes.IndexByte(src, 0) >= 0
	call := func() (isErr bool, progressed bool) {
		before := d.offset()
		var slices [][]byte
		func() {
			defer func() {
				if r := recover(); r != nil {
					t.Fatalf("%s panics on %q after %d calls: %v", d.name, src, calls, r)
				}
			}()
			isErr, slices = d.step()
		}()
		calls++
		after := d.offset()
		if after < 0 || after > len(src) {
			t.Fatalf("%s: cursor offset %d outside the input of %d bytes %q after %d calls", d.name, after, len(src), src, calls)
		}
		for _, s := range slices {
			if within(s, in.Bytes()) {
				continue
			}
			// a synthesized or copied token: never longer than the input plus the IE-hack/brace byte, never holding the terminator
			if len(s) > len(src)+1 || (!hasNUL && bytes.IndexByte(s, 0) >= 0) {
				t.Fatalf("%s hands out %q, which lies outside the input %q", d.name, s, src)
			}
		}
		return isErr, after != before
	}
	for {
		if calls > budget {
			t.Fatalf("%s does not reach the end of %q (%d bytes) within %d calls", d.name, src, len(src), budget)
		}
		isErr, progressed := call()
		if isErr {
			errs++
			// the end-of-input report: the error unit with io.EOF, or (sticky parsers) an error without progress
			if d.err() == io.EOF || (d.sticky && !progressed) {
				break
			}
		}
	}
	endErr, endOff := d.err(), d.offset()
	for i := 0; i < 3; i++ {
		// "reports it again": the error unit, a non-nil Err() and an unchanged cursor (the error text may differ: the
		// JSON parser reports io.EOF for a truncated string first and a parse error on the next call)
		isErr, _ := call()
		if !isErr || d.err() == nil || d.offset() != endOff {
			t.Fatalf("%s on %q: after the end was reported (%s at %d) call %d returns error-unit=%v, Err()=%s, offset %d", d.name, src, errText(endErr), endOff, i+1, isErr, errText(d.err()), d.offset())
		}
	}
	cls = "clean-eof"
	if _, ok := d.err().(*parse.Error); ok {
		cls = "sticky-error"
	} else if errs > 1 {
		cls = "errors-before-eof"
	}
	return calls, errs, cls
}

func genInput(t *rapid.T, lang string) []byte {
	frags := gen.Frags[lang]
	if rapid.IntRange(0, 3).Draw(t, "source") == 0 {
		if c := gen.Corpus(lang); len(c) > 0 {
			return []byte(gen.Mutate(t, rapid.SampledFrom(c).Draw(t, "corpus"), c, frags))
		}
	}
	return gen.Fragments(t, "frag", frags, 16)
}

func nontrivial(src []byte, calls, errs int) bool {
	return calls >= 3+3 && (errs > 1 || bytes.IndexByte(src, 0) >= 0 || !utf8.Valid(src) || len(src) >= 8)
}

func TestProp_CSSLexer(t *testing.T) {
	ev.Describe("css.Lexer", "hostile fragment strings (NUL, invalid UTF-8, unterminated constructs) and mutated test literals; oracle: no panic, offset in [0,len], slices inside the input, end reached within 4*len+16 calls, 3 further calls report it again; non-trivial = >= 3 tokens and (an error before the end, NUL, invalid UTF-8 or >= 8 bytes)")
	ev.Check(t, 10000, func(t *rapid.T) {
		src := genInput(t, "css")
		in := parse.NewInputBytes(append([]byte(nil), src...))
		l := css.NewLexer(in)
		d := driver{"css.Lexer", func() (bool, [][]byte) { tt, data := l.Next(); return tt == css.ErrorToken, [][]byte{data} }, in.Offset, l.Err, false}
		calls, errs, cls := drive(t, d, src, in)
		ev.Case("css.Lexer", string(src), nontrivial(src, calls, errs), cls)
	})
}

func TestProp_CSSParser(t *testing.T) {
	ev.Describe("css.Parser", "same inputs x {stylesheet, inline}; Values() read after every unit; oracle as above with the error unit ErrorGrammar (a parse error that made progress is not the end; the caller keeps calling); non-trivial as above")
	ev.Check(t, 15000, func(t *rapid.T) {
		src := genInput(t, "css")
		inline := rapid.Bool().Draw(t, "inline")
		in := parse.NewInputBytes(append([]byte(nil), src...))
		p := css.NewParser(in, inline)
		d := driver{fmt.Sprintf("css.Parser(inline=%v)", inline), func() (bool, [][]byte) {
			gt, _, data := p.Next()
			sl := [][]byte{data}
			for _, v := range p.Values() {
				sl = append(sl, v.Data)
			}
			return gt == css.ErrorGrammar, sl
		}, p.Offset, p.Err, false}
		calls, errs, cls := drive(t, d, src, in)
		ev.Case("css.Parser", fmt.Sprintf("%v|%s", inline, src), nontrivial(src, calls, errs), cls, fmt.Sprintf("inline=%v", inline))
	})
}

var dialects = [][2]string{{}, html.GoTemplate, html.EJSTemplate, html.PHPTemplate, html.HandlebarsTemplate, html.MustacheTemplate, html.ASPTemplate,
	// delimiters of the caller's own, and the pair of empty strings (the zero value of a configuration that is passed on as it is)
	{"[[", "]]"}, {"<<", ">>"}, {"{", "}"}, {"<!--#", "-->"}, {"", ""}, {"", ""}}

func TestProp_HTMLLexer(t *testing.T) {
	ev.Describe("html.Lexer", "hostile HTML fragment strings and mutated test literals x {plain, each of the six template dialect variables, four delimiter pairs of the caller's own, the pair of empty strings}, lexed once under a one-minute watchdog first; Text/AttrKey/AttrVal read after every token; oracle as above; non-trivial as above")
	ev.Check(t, 15000, func(t *rapid.T) {
		src := genInput(t, "html")
		dl := rapid.SampledFrom(dialects).Draw(t, "dialect")
		in := parse.NewInputBytes(append([]byte(nil), src...))
		var l *html.Lexer
		plain := dl[0] == "" && rapid.Bool().Draw(t, "plainctor")
		mk := func(x *parse.Input) *html.Lexer {
			if plain {
				return html.NewLexer(x)
			}
			return html.NewTemplateLexer(x, dl)
		}
		// every call returns: the whole input is lexed once under a watchdog first (a call that does not come back within
		// a minute on an input of some hundred bytes never will)
		done := make(chan struct{})
		go func() {
			defer func() { recover(); close(done) }()
			pl := mk(parse.NewInputBytes(append([]byte(nil), src...)))
			for i := 0; i < 4*len(src)+20; i++ {
				if tt, _ := pl.Next(); tt == html.ErrorToken && pl.Err() == io.EOF {
					break
				}
			}
		}()
		select {
		case <-done:
		case <-time.After(60 * time.Second):
			t.Fatalf("html lexer with the delimiters %q on %q: a call of Next does not return", dl, src)
		}
		l = mk(in)
		d := driver{"html.Lexer" + dl[0], func() (bool, [][]byte) {
			tt, data := l.Next()
			return tt == html.ErrorToken, [][]byte{data, l.Text(), l.AttrKey(), l.AttrVal()}
		}, in.Offset, l.Err, true}
		calls, errs, cls := drive(t, d, src, in)
		ev.Case("html.Lexer", dl[0]+"|"+string(src), nontrivial(src, calls, errs), cls, "dialect="+dl[0])
	})
}

func TestProp_XMLLexer(t *testing.T) {
	ev.Describe("xml.Lexer", "hostile XML fragment strings and mutated test literals; Text/AttrVal read after every token; oracle as above (an embedded NUL is a sticky *parse.Error and counts as the end); non-trivial as above")
	ev.Check(t, 10000, func(t *rapid.T) {
		src := genInput(t, "xml")
		in := parse.NewInputBytes(append([]byte(nil), src...))
		l := xml.NewLexer(in)
		d := driver{"xml.Lexer", func() (bool, [][]byte) {
			tt, data := l.Next()
			return tt == xml.ErrorToken, [][]byte{data, l.Text(), l.AttrVal()}
		}, in.Offset, l.Err, true}
		calls, errs, cls := drive(t, d, src, in)
		ev.Case("xml.Lexer", string(src), nontrivial(src, calls, errs), cls)
	})
}

func TestProp_JSONParser(t *testing.T) {
	ev.Describe("json.Parser", "hostile JSON fragment strings and mutated test literals; State() read after every unit; oracle as above (parse errors are sticky stops); non-trivial as above")
	ev.Check(t, 10000, func(t *rapid.T) {
		src := genInput(t, "json")
		in := parse.NewInputBytes(append([]byte(nil), src...))
		p := json.NewParser(in)
		d := driver{"json.Parser", func() (bool, [][]byte) {
			gt, data := p.Next()
			_ = p.State()
			return gt == json.ErrorGrammar, [][]byte{data}
		}, in.Offset, p.Err, true}
		calls, errs, cls := drive(t, d, src, in)
		ev.Case("json.Parser", string(src), nontrivial(src, calls, errs), cls)
	})
}

func TestProp_JSLexer(t *testing.T) {
	ev.Describe("js.Lexer", "hostile JS fragment strings (incl. invalid UTF-8, NUL, lone #, ~=, ?=, broken escapes/numbers/templates) and mutated test literals; RegExp() called after a drawn share of / and /= tokens; the error unit is ErrorToken (with data: a lexical error that made progress, the caller continues; without: the end); oracle as above; non-trivial as above")
	ev.Check(t, 20000, func(t *rapid.T) {
		src := genInput(t, "js")
		regexpMode := rapid.IntRange(0, 2).Draw(t, "regexp")
		in := parse.NewInputBytes(append([]byte(nil), src...))
		l := js.NewLexer(in)
		n := 0
		d := driver{"js.Lexer", func() (bool, [][]byte) {
			tt, data := l.Next()
			sl := [][]byte{data}
			if (tt == js.DivToken || tt == js.DivEqToken) && regexpMode > 0 {
				n++
				if regexpMode == 2 || n%2 == 0 {
					_, rdata := l.RegExp()
					sl = append(sl, rdata)
				}
			}
			return tt == js.ErrorToken, sl
		}, in.Offset, l.Err, false}
		calls, errs, cls := drive(t, d, src, in)
		ev.Case("js.Lexer", string(src), nontrivial(src, calls, errs), cls, fmt.Sprintf("regexp=%d", regexpMode))
	})
}

type recVisitor struct{ enters, exits int }

func (v *recVisitor) Enter(n js.INode) js.IVisitor { v.enters++; return v }
func (v *recVisitor) Exit(n js.INode)              { v.exits++ }

// useTree prints, walks and converts a tree returned by js.Parse: none of that may panic
func useTree(t fataler, src []byte, o js.Options, ast *js.AST) {
	defer func() {
		if r := recover(); r != nil {
			t.Fatalf("a method of the tree returned by js.Parse(%q, %+v) panics: %v", src, o, r)
		}
	}()
	_ = ast.String()
	_ = ast.JSString()
	var buf bytes.Buffer
	ast.JS(&buf)
	v := &recVisitor{}
	js.Walk(v, ast)
	if v.enters != v.exits {
		t.Fatalf("Walk over the tree of %q: %d Enter, %d Exit", src, v.enters, v.exits)
	}
	buf.Reset()
	_ = ast.JSON(&buf)
	_, _ = ast.JSONString()
}

func TestProp_JSParse(t *testing.T) {
	ev.Describe("js.Parse", "hostile JS fragment strings, mutated literals of the repository's js tests and truncations, (one third) programs of the ECMAScript grammar generator with 1-3 token-level slips (delete, duplicate, swap, replace, insert, splice) and (one sixth) cover-grammar sources (literal-like expressions with spreads, initialisers, methods and nested literals as arrow heads, assignment targets and for-in/of heads), x Options{WhileToFor,Inline} in {0,1}^2; oracle: Parse returns normally, exactly one of (tree, error) is nil, a returned tree survives String(), JS(), JSString(), Walk (balanced Enter/Exit) and JSON()/JSONString() without panic, and prints the same text after a later Parse of another program (1-5 kept comments stand in front of 5 inputs in 12); non-trivial = input of >= 8 bytes; classes accepted/rejected")
	ev.Check(t, 20000, func(t *rapid.T) {
		var src []byte
		source := "fragments/literals"
		if k := rapid.IntRange(0, 5).Draw(t, "nearvalid"); k == 0 {
			src = []byte(coverSource(t))
			source = "cover-grammar"
		} else if k <= 2 {
			// a grammar-generated program with 1-3 token-level slips
			g := jsgen.New(t)
			g.Module = rapid.Bool().Draw(t, "module")
			g.MaxDepth = rapid.IntRange(2, 4).Draw(t, "maxDepth")
			src = []byte(jsgen.NearValid(t, g.Program().Toks))
			source = "near-valid"
		} else {
			src = genInput(t, "js")
		}
		if k := rapid.IntRange(0, 11).Draw(t, "keptcomments"); k >= 1 && k <= 5 {
			// kept comments in front (the parser collects them next to the statement list)
			src = append([]byte(strings.Repeat("/*! c */", k)), src...)
		}
		o := js.Options{WhileToFor: rapid.Bool().Draw(t, "w2f"), Inline: rapid.Bool().Draw(t, "inline")}
		var ast *js.AST
		var err error
		func() {
			defer func() {
				if r := recover(); r != nil {
					t.Fatalf("js.Parse(%q, %+v) panics: %v", src, o, r)
				}
			}()
			ast, err = js.Parse(parse.NewInputBytes(append([]byte(nil), src...)), o)
		}()
		if (ast == nil) == (err == nil) {
			t.Fatalf("js.Parse(%q, %+v) returns tree=%v err=%v", src, o, ast != nil, err)
		}
		cls := "rejected"
		if ast != nil {
			cls = "accepted"
			useTree(t, src, o, ast)
			// the tree holds bytes of its own input only, also after the library has parsed something else
			before := ast.JSString()
			js.Parse(parse.NewInputString("/*! x */ /*! y */ delta(); /*! z */ epsilon();"), o)
			if after := ast.JSString(); after != before {
				t.Fatalf("the tree returned by js.Parse(%q, %+v) printed\n%s\nand prints, after a later Parse of another text,\n%s", src, o, before, after)
			}
		}
		ev.Case("js.Parse", fmt.Sprintf("%+v|%s", o, src), len(src) >= 8, cls, source)
	})
}

// ---------- deep nesting in a child process

type deepRow struct {
	entry, head, prefix, mid, suffix, tail, opts string
}

var deepRows = []deepRow{
	// contextual keywords and rarely used heads in front of an opening bracket (each takes its own path through the parser)
	{"jsparse", "", "async(", "a", ")", "", ""},
	{"jsparse", "", "(async(", "a", "))", "", ""},
	{"jsparse", "", "async(a,", "a", ")", "", ""},
	{"jsparse", "x=", "async(...", "a", ")", "", ""},
	{"jsparse", "", "async(x=", "a", ")", "", ""},
	{"jsparse", "", "[async(", "a", ")]", "", ""},
	{"jsparse", "", "import(", "a", ")", "", ""},
	{"jsparse", "", "a?.(", "a", ")", "", ""},
	{"jsparse", "", "a?.[", "a", "]", "", ""},
	{"jsparse", "", "a?.b(", "a", ")", "", ""},
	{"jsparse", "function*g(){", "yield(", "a", ")", "}", ""},
	{"jsparse", "function*g(){", "yield*", "a", "", "}", ""},
	{"jsparse", "async function g(){", "await(", "a", ")", "}", ""},
	{"jsparse", "class A extends B{m(){", "super.m(", "a", ")", "}}", ""},
	{"jsparse", "", "new.target(", "a", ")", "", ""},
	{"jsparse", "", "a`${", "a", "}`", "", ""},
	{"jsparse", "", "(a,", "a", ")", "", ""},
	{"jsparse", "", "({a,b:", "a", "})", "", ""},
	{"jsparse", "", "([a,", "a", "])", "", ""},
	{"jsparse", "", "(...", "a", ")", "", ""},
	{"jsparse", "", "async x=>", "a", "", "", ""},
	{"jsparse", "", "(a=", "a", ")", "", ""},
	{"jsparse", "", "({[", "a", "]:1})", "", ""},
	{"jsparse", "", "class A{[", "a", "](){}}", "", ""},
	{"jsparse", "", "class A{static{", "a", "}}", "", ""},
	{"jsparse", "", "class A{x=", "a", "}", "", ""},
	{"jsparse", "", "for(;;)", "a", "", "", ""},
	{"jsparse", "", "for(a of b)", "a", "", "", ""},
	{"jsparse", "", "for(a in ", "a", ");", "", ""},
	{"jsparse", "", "while(a)", "a", "", "", ""},
	{"jsparse", "", "do ", "a", ";while(a)", "", ""},
	{"jsparse", "", "with(a)", "a", "", "", ""},
	{"jsparse", "", "switch(a){case ", "a", ":}", "", ""},
	{"jsparse", "", "switch(a){default:", "a", "}", "", ""},
	{"jsparse", "", "try{", "a", "}finally{}", "", ""},
	{"jsparse", "", "try{}catch{", "a", "}", "", ""},
	{"jsparse", "", "export default ", "a", "", "", ""},
	{"jsparse", "", "(", "a", ")", "", ""},
	{"jsparse", "", "[", "a", "]", "", ""},
	{"jsparse", "", "{", "a", "}", "", ""},
	{"jsparse", "x=", "{a:", "1", "}", "", ""},
	{"jsparse", "", "!", "a", "", "", ""},
	{"jsparse", "", "-", "a", "", "", ""},
	{"jsparse", "", "- -", "a", "", "", ""},
	{"jsparse", "", "typeof ", "a", "", "", ""},
	{"jsparse", "", "await ", "a", "", "", ""},
	{"jsparse", "", "x=>", "a", "", "", ""},
	{"jsparse", "", "async()=>", "a", "", "", ""},
	{"jsparse", "", "a?", "a", ":a", "", ""},
	{"jsparse", "", "a?a:", "a", "", "", ""},
	{"jsparse", "", "f(", "a", ")", "", ""},
	{"jsparse", "", "new ", "a", "", "", ""},
	{"jsparse", "", "new a(", "a", ")", "", ""},
	{"jsparse", "", "if(a)", "a", "", "", ""},
	{"jsparse", "", "if(a);else ", "a", "", "", ""},
	{"jsparse", "", "a:", "a", "", "", ""},
	{"jsparse", "", "function f(){", "a", "}", "", ""},
	{"jsparse", "", "(function(){", "a", "})()", "", ""},
	{"jsparse", "", "`${", "a", "}`", "", ""},
	{"jsparse", "x=", "class extends ", "a", "{}", "", ""},
	{"jsparse", "x=", "class{m(){", "a", "}}", "", ""},
	{"jsparse", "let ", "[", "a", "]", "=b", ""},
	{"jsparse", "let ", "{a:", "a", "}", "=b", ""},
	{"jsparse", "function f(", "[", "a", "]", "){}", ""},
	{"jsparse", "function f(", "{a:", "a", "}", "){}", ""},
	{"jsparse", "try{}catch(", "[", "a", "]", "){}", ""},
	{"jsparse", "(", "[", "a", "]", ")=>a", ""},
	{"jsparse", "(", "{a:", "a", "}", ")=>a", ""},
	{"jsparse", "for(var ", "[", "a", "]", " of b);", ""},
	{"jsparse", "", "a=", "a", "", "", ""},
	{"jsparse", "", "a**", "a", "", "", ""},
	{"jsparse", "", "a?.[", "a", "]", "", ""},
	{"jsparse", "", "a[", "a", "]", "", ""},
	{"jsparse", "", "a+", "a", "", "", ""},
	{"jsparse", "", "a&&", "a", "", "", ""},
	{"jsparse", "", "a??", "a", "", "", ""},
	{"jsparse", "", "a,", "a", "", "", ""},
	{"jsparse", "a", "", "", ".b", "", ""},
	{"jsparse", "a", "", "", "()", "", ""},
	{"jsparse", "a", "", "", "`x`", "", ""},
	{"jsparse", "", "[...", "a", "]", "", ""},
	{"jsparse", "x=", "{...", "a", "}", "", ""},
	{"jsparse", "", "do ", "a", ";while(a)", "", ""},
	{"jsparse", "", "for(;;)", "a", "", "", ""},
	{"jsparse", "", "while(a)", "a", "", "", "w"},
	{"jsparse", "", "with(a)", "a", "", "", ""},
	{"jsparse", "", "switch(a){default:", "a", "}", "", ""},
	{"jsparse", "", "try{", "a", "}finally{}", "", ""},
	{"jsparse", "", "yield ", "a", "", "", ""},
	{"jsparse", "", "return ", "a", "", "", "i"},
	{"jsparse", "", "/*", "a", "*/", "", ""},
	{"jslex", "", "`${", "a", "}`", "", ""},
	{"jslex", "", "{(", "a", ")}", "", ""},
	{"csslex", "", "(", "a", ")", "", ""},
	{"cssparse", "", "a{", "b:c", "}", "", ""},
	{"cssparse", "", "@media x{", "a{b:c}", "}", "", ""},
	{"cssparse", "a{b:", "(", "c", ")", "}", ""},
	{"cssparse", "a{b:", "[", "c", "]", "}", ""},
	{"cssparse", "a{b:", "f(", "c", ")", "}", ""},
	{"cssparse", "a{b:", "{", "c", "}", "}", ""},
	{"cssparse", "", "@x{", "c", "}", "", ""},
	{"cssparse", "", "a:not(", "b", ")", "{c:d}", ""},
	{"cssparse", "", "a{", "b:c", "}", "", "i"},
	{"cssparse", "--x:", "{", "c", "}", "", "i"},
	{"json", "", "[", "1", "]", "", ""},
	{"json", "", `{"a":`, "1", "}", "", ""},
	{"json", "", `[{"a":`, "1", "}]", "", ""},
	{"html", "", "<a>", "x", "</a>", "", ""},
	{"html", "", "<svg>", "x", "</svg>", "", ""},
	{"html", "", "<script><!--<script>", "x", "</script>", "", ""},
	{"html", "", "<a b='", "x", "'>", "", ""},
	{"xml", "", "<a>", "x", "</a>", "", ""},
	{"xml", "<!DOCTYPE a ", "[", "x", "]", ">", ""},
	{"xml", "", "<a b='", "x", "'>", "", ""},
}

var (
	childOnce sync.Once
	childPath string
	childErr  error
)

func child() (string, error) {
	childOnce.Do(func() {
		if b := os.Getenv("VERIF_BUILD"); b != "" {
			if _, err := os.Stat(filepath.Join(b, "deepchild")); err == nil {
				childPath = filepath.Join(b, "deepchild")
				return
			}
		}
		dir, err := os.MkdirTemp("", "deepchild")
		if err != nil {
			childErr = err
			return
		}
		childPath = filepath.Join(dir, "deepchild")
		cmd := exec.Command("go", "build", "-o", childPath, "verif/cmd/deepchild")
		if out, err := cmd.CombinedOutput(); err != nil {
			childErr = fmt.Errorf("%v: %s", err, out)
		}
	})
	return childPath, childErr
}

type deepCase struct {
	row        deepRow
	depth      int
	closed     bool
	inner      *deepRow // row nested inside (pairwise mixing)
	innerDepth int
	flat       string // a flat prefix: this text repeated flatN times in front of the nested construct
	flatN      int
}

func (c deepCase) spec() []byte {
	r := c.row
	m := map[string]any{"Entry": r.entry, "Head": r.head, "Prefix": r.prefix, "Mid": r.mid, "Suffix": r.suffix, "Tail": r.tail, "Opts": r.opts, "Depth": c.depth}
	if !c.closed {
		m["Suffix"], m["Tail"] = "", ""
	}
	if c.flatN > 0 {
		m["Flat"], m["FlatN"] = c.flat, c.flatN
	}
	if c.inner != nil {
		m["HasInner"], m["InnerPrefix"], m["InnerMid"], m["InnerSuffix"], m["InnerDepth"] = true, c.inner.prefix, c.inner.mid, c.inner.suffix, c.innerDepth
	}
	b, _ := stdjson.Marshal(m)
	return b
}

func (c deepCase) String() string {
	suffix := c.row.suffix
	if len(suffix) > 40 {
		suffix = fmt.Sprintf("%s...(%d bytes)", suffix[:24], len(suffix))
	}
	s := fmt.Sprintf("%s %q + %q*%d + %q + %q*%d + %q closed=%v opts=%q", c.row.entry, c.row.head, c.row.prefix, c.depth, c.row.mid, suffix, c.depth, c.row.tail, c.closed, c.row.opts)
	if c.flatN > 0 {
		s += fmt.Sprintf(" behind %q*%d", c.flat, c.flatN)
	}
	if c.inner != nil {
		s += fmt.Sprintf(" inner %q*%d %q %q*%d", c.inner.prefix, c.innerDepth, c.inner.mid, c.inner.suffix, c.innerDepth)
	}
	return s
}

// statement shapes for the flat prefixes (one per entry path of the statement and expression parsers)
var flatStatements = []string{"0;", "a;", "(a);", "x=>x;", "(a,b)=>a;", "[a];", "({});", "!a;", "`t`;", "a?b:c;", "{}", "if(a);", "f(a);", "a=1;", "x=(a);", "var[b]=c;", "(class{});", "(function(){})();", "a.b;", "new a;", "l:b;", "for(;;)break;", "a`t`;", "a?.b;", "async()=>{};", "try{}catch{};", "switch(a){};", "1+2;", "a=[1,{b:2}];", "function f(){};"}

func TestProp_Deep(t *testing.T) {
	ev.Describe("deep", "every recursive construct of a table (54 JS rows: parentheses, array/object literals, blocks, unary/await/typeof chains, arrows, conditionals, calls, new, if/else, labels, functions, IIFEs, template substitutions, class heritage and bodies, binding patterns in let/parameters/catch/arrow heads/for-of, assignment, **, optional chains, left-deep binary chains, member/call/template suffix chains, spread, loops, with, switch, try, yield, return; 2 js lexer, 11 css, 3 json, 4 html, 3 xml rows) at depths {1,10,999,1000,1001,10^4,10^5} (10^6 in the thorough tier), closed or truncated, plus drawn pairs (one row nested in another), plus 30 statement shapes repeated 10^5 times as a flat prefix in front of a construct nested 10^5 deep (a nesting counter that drifts per statement), plus 12 spines (a chain of 1100-99000 operators behind every closing bracket of a nest of 12-900 levels: nesting and chain length beyond the limits in sum); each case runs in a child process with a 16 MiB maximum stack; oracle: exit status 0 and a RESULT line (parse error or success incl. String/JS/Walk/JSON on the tree), never 'goroutine stack exceeds', 'fatal error', a panic or non-termination; non-trivial = depth >= 3")
	bin, err := child()
	if err != nil {
		t.Fatalf("VERIF-INFRA cannot build the child: %v", err)
	}
	depths := []int{1, 10, 999, 1000, 1001, 10000, 100000}
	if ev.Thorough() {
		depths = append(depths, 1000000)
	}
	shard, nshards := 0, 1
	fmt.Sscan(os.Getenv("VERIF_SHARD"), &shard)
	fmt.Sscan(os.Getenv("VERIF_NSHARDS"), &nshards)
	if nshards < 1 {
		nshards = 1
	}
	var cases []deepCase
	i := 0
	for _, r := range deepRows {
		for _, d := range depths {
			for _, closed := range []bool{true, false} {
				if i%nshards == shard {
					cases = append(cases, deepCase{row: r, depth: d, closed: closed})
				}
				i++
			}
		}
	}
	// flat prefixes: a nesting counter that drifts by one per statement of some shape lets the nesting behind 10^5 such
	// statements go 10^5 levels deeper than the limit
	var jsRows []deepRow
	for _, r := range deepRows {
		if r.entry == "jsparse" && r.head == "" && r.opts == "" {
			jsRows = append(jsRows, r)
		}
	}
	for fi, flat := range flatStatements {
		for k := 0; k < 2; k++ {
			if i%nshards == shard {
				cases = append(cases, deepCase{row: jsRows[(fi*7+k*13)%len(jsRows)], depth: 100000, closed: k == 0, flat: flat, flatN: 100000})
			}
			i++
		}
	}
	// spines: a chain of operators behind every closing bracket of a nest. The depth of the tree is the product of the two,
	// so the limits have to bound their sum (each of these is beyond the limits: a parse error is the expected answer)
	for _, sp := range []struct {
		open, close, link string
		levels, chain     int
	}{{"(", ")", "+a", 130, 9990}, {"(", ")", "+a", 60, 5000}, {"(", ")", "+a", 300, 1500}, {"(", ")", ".b", 130, 9990}, {"(", ")", "(b)", 100, 6000}, {"(", ")", "?.b", 200, 2000},
		{"(", ")", "[0]", 90, 9000}, {"[", "]", "+a", 130, 9990}, {"f(", ")", "*a", 130, 9990}, {"(", ")", "`t`", 120, 8000}, {"(", ")", "&&a", 12, 99000}, {"(", ")", "||a", 900, 1100}} {
		if i%nshards == shard {
			cases = append(cases, deepCase{row: deepRow{"jsparse", "", sp.open, "a", sp.close + strings.Repeat(sp.link, sp.chain), "", ""}, depth: sp.levels, closed: true})
		}
		i++
	}
	// pairs: drawn with rapid so that they follow the seed
	ev.Check(t, 1, func(rt *rapid.T) {
		n := ev.N(12)
		for k := 0; k < n; k++ {
			a := rapid.IntRange(0, len(deepRows)-1).Draw(rt, "outer")
			var same []int
			for j, r := range deepRows {
				if r.entry == deepRows[a].entry {
					same = append(same, j)
				}
			}
			b := rapid.SampledFrom(same).Draw(rt, "inner")
			inner := deepRows[b]
			cases = append(cases, deepCase{row: deepRows[a], depth: rapid.SampledFrom(depths).Draw(rt, "d1"), closed: rapid.Bool().Draw(rt, "closed"), inner: &inner, innerDepth: rapid.SampledFrom(depths[:6]).Draw(rt, "d2")})
		}
	})
	type result struct {
		c   deepCase
		msg string
	}
	work := make(chan deepCase)
	results := make(chan result, len(cases))
	var wg sync.WaitGroup
	workers := 8
	for w := 0; w < workers; w++ {
		wg.Add(1)
		go func() {
			defer wg.Done()
			for c := range work {
				cmd := exec.Command(bin)
				cmd.Stdin = bytes.NewReader(c.spec())
				var stdout, stderr bytes.Buffer
				cmd.Stdout, cmd.Stderr = &stdout, &stderr
				done := make(chan error, 1)
				if err := cmd.Start(); err != nil {
					results <- result{c, "VERIF-INFRA cannot start the child: " + err.Error()}
					continue
				}
				go func() { done <- cmd.Wait() }()
				var werr error
				select {
				case werr = <-done:
				case <-time.After(120 * time.Second):
					cmd.Process.Kill()
					<-done
					results <- result{c, "VERIF-INFRA child timed out after 120 s"}
					continue
				}
				se := stderr.String()
				switch {
				case strings.Contains(se, "stack exceeds") || strings.Contains(se, "stack overflow"):
					results <- result{c, "fatal stack exhaustion: " + firstLines(se, 2)}
				case strings.Contains(se, "panic:") || strings.Contains(se, "fatal error"):
					results <- result{c, "crash: " + firstLines(se, 3)}
				case werr != nil:
					results <- result{c, fmt.Sprintf("child exits with %v: %s %s", werr, firstLines(stdout.String(), 1), firstLines(se, 2))}
				case !strings.Contains(stdout.String(), "RESULT ok") && !strings.Contains(stdout.String(), "RESULT err"):
					results <- result{c, "child printed no result: " + firstLines(stdout.String(), 1)}
				default:
					results <- result{c, ""}
				}
			}
		}()
	}
	for _, c := range cases {
		work <- c
	}
	close(work)
	wg.Wait()
	close(results)
	for r := range results {
		if r.msg != "" {
			t.Errorf("deep nesting case %s: %s", r.c, r.msg)
			continue
		}
		ev.Case("deep", r.c.String(), r.c.depth >= 3, "entry="+r.c.row.entry, fmt.Sprintf("depth=%d", r.c.depth))
	}
}

func firstLines(s string, n int) string {
	lines := strings.SplitN(s, "\n", n+1)
	if len(lines) > n {
		lines = lines[:n]
	}
	return strings.Join(lines, " | ")
}

// ---------- counters that wrap around

// TestProp_CounterWrap: a name used 2^8 or 2^16 times (Var.Uses is a uint16; other counters may be narrower than an int)
// in front of every construct that looks at such a counter. Enumerated, not drawn: the interesting counts are few.
func TestProp_CounterWrap(t *testing.T) {
	ev.Describe("wrap", "flat programs: an optional declaration (none, var, let, parameter, assignment) + a unit mentioning the name a repeated n times, n in {254..257, 65533..65537} + a tail that treats a specially (a=>1, async a=>1, (a)=>1, var a, function a(){}, class a{}, label a:, ({a})=>a, a, typeof a, for(a of b);, catch(a){}, a++) x Options; oracle: Parse returns normally, exactly one of (tree, error) is nil, a returned tree survives String, JS, Walk and JSON; non-trivial = n >= 65535")
	shard, nshards := 0, 1
	fmt.Sscan(os.Getenv("VERIF_SHARD"), &shard)
	fmt.Sscan(os.Getenv("VERIF_NSHARDS"), &nshards)
	if nshards < 1 {
		nshards = 1
	}
	pres := []string{"", "var a;", "let a;", "a=1;", "function f(a){"}
	units := []string{"a;", "a,", "a+", "(a);", "a=a;", "[a];"}
	tails := []string{"a=>1", "async a=>1", "(a)=>1", "var a", "function a(){}", "class a{}", "a:;", "x=({a})=>a", "a", "typeof a", "for(a of b);", "try{}catch(a){}", "a++", "x={a}", "({a}=b)"}
	i := 0
	for _, n := range []int{254, 255, 256, 257, 65533, 65534, 65535, 65536, 65537} {
		for _, pre := range pres {
			for _, unit := range units {
				for _, tail := range tails {
					i++
					if i%nshards != shard {
						continue
					}
					if n > 1000 && (i/nshards)%3 != 0 && !ev.Thorough() {
						continue // the long ones: a third of them in the quick tier
					}
					src := pre + strings.Repeat(unit, n) + tail
					if unit == "a," || unit == "a+" {
						src = pre + "x=" + strings.Repeat(unit, n) + "0;" + tail
					}
					if strings.HasPrefix(pre, "function") {
						src += "}"
					}
					o := js.Options{WhileToFor: i%2 == 0, Inline: i%4 < 2}
					func() {
						defer func() {
							if r := recover(); r != nil {
								t.Fatalf("js.Parse(%q + %q*%d + %q, %+v) panics: %v", pre, unit, n, tail, o, r)
							}
						}()
						ast, err := js.Parse(parse.NewInputString(src), o)
						if (ast == nil) == (err == nil) {
							t.Fatalf("js.Parse(%q + %q*%d + %q, %+v) returns tree=%v err=%v", pre, unit, n, tail, o, ast != nil, err)
						}
						if ast != nil {
							label := fmt.Sprintf("%q + %q*%d + %q", pre, unit, n, tail)
							useTree(t, []byte(label), o, ast)
						}
					}()
					ev.Case("wrap", fmt.Sprintf("%q+%q*%d+%q", pre, unit, n, tail), n >= 65535, fmt.Sprintf("n=%d", n))
				}
			}
		}
	}
}
