package c01

import (
	"fmt"
	"strings"
	"sync/atomic"
	"testing"

	"github.com/tdewolff/parse/v2"
	"github.com/tdewolff/parse/v2/css"
	"github.com/tdewolff/parse/v2/html"
	"github.com/tdewolff/parse/v2/js"
	"github.com/tdewolff/parse/v2/json"
	"github.com/tdewolff/parse/v2/xml"
	"pgregory.net/rapid"

	"verif/internal/ev"
	"verif/internal/gen"
)

var freshRune int64

// consume drives one entry point over src to the end and returns a short transcript
func consume(lang string, src []byte) string {
	var sb strings.Builder
	n := 0
	budget := 4*len(src) + 16
	switch lang {
	case "css":
		p := css.NewParser(parse.NewInputBytes(append([]byte(nil), src...)), false)
		for i := 0; i < budget; i++ {
			gt, _, data := p.Next()
			n += len(data) + len(p.Values())
			if gt == css.ErrorGrammar && !p.HasParseError() {
				break
			}
		}
	case "html":
		l := html.NewTemplateLexer(parse.NewInputBytes(append([]byte(nil), src...)), html.GoTemplate)
		for i := 0; i < budget; i++ {
			tt, data := l.Next()
			n += len(data) + len(l.Text())
			if tt == html.ErrorToken {
				break
			}
		}
	case "xml":
		l := xml.NewLexer(parse.NewInputBytes(append([]byte(nil), src...)))
		for i := 0; i < budget; i++ {
			tt, data := l.Next()
			n += len(data)
			if tt == xml.ErrorToken {
				break
			}
		}
	case "json":
		p := json.NewParser(parse.NewInputBytes(append([]byte(nil), src...)))
		for i := 0; i < budget; i++ {
			gt, data := p.Next()
			n += len(data)
			if gt == json.ErrorGrammar {
				break
			}
		}
	case "js":
		l := js.NewLexer(parse.NewInputBytes(append([]byte(nil), src...)))
		for i := 0; i < budget; i++ {
			tt, data := l.Next()
			n += len(data)
			fmt.Fprintf(&sb, "%d", tt)
			if tt == js.ErrorToken && data == nil {
				break
			}
		}
		if ast, err := js.Parse(parse.NewInputBytes(append([]byte(nil), src...)), js.Options{}); err == nil {
			sb.WriteString(ast.JSString())
		} else {
			sb.WriteString(err.Error())
		}
	}
	return fmt.Sprintf("%d %s", n, sb.String())
}

// TestProp_Concurrent: every call returns normally also while other goroutines lex and parse other inputs (a fatal error
// of the runtime, such as a concurrent map write, ends the test binary: the driver reports that as a violation too)
func TestProp_Concurrent(t *testing.T) {
	ev.Describe("concurrent", "6-16 hostile inputs (fragment strings and mutated repository literals of css, html, xml, json and js, the js ones with identifier characters outside Latin-1), each consumed to the end 100 times over (every time followed by an identifier with a CJK character that the process has not met before), first one after the other and then by as many goroutines at once (3 rounds behind a barrier); oracle: no panic, no fatal error of the runtime, every goroutine gets the transcript it gets alone; non-trivial = >= 6 goroutines")
	ev.Check(t, 60, func(t *rapid.T) {
		n := rapid.IntRange(6, 16).Draw(t, "goroutines")
		langs := make([]string, n)
		srcs := make([][]byte, n)
		var key []string
		for i := range srcs {
			langs[i] = rapid.SampledFrom([]string{"js", "js", "js", "css", "html", "xml", "json"}).Draw(t, "lang")
			srcs[i] = genInput(t, langs[i])
			if langs[i] == "js" {
				// identifier characters of many scripts (a table of them that is filled in on first use is written by the
				// first lookups)
				srcs[i] = append(srcs[i], fmt.Sprintf(" x%c%c = %c%d;", rune(0x3b1+i), rune(0xac00+i*37), rune(0x4e00+i*101), i)...)
			}
			key = append(key, fmt.Sprintf("%s:%q", langs[i], srcs[i]))
		}
		bad, alone, together := gen.Concurrently(n, 3, func(i int) string {
			s := ""
			for r := 0; r < 100; r++ {
				s = consume(langs[i], srcs[i])
				// and an identifier with a character that no call of this process has met so far (what the library learns
				// about a character on first sight, it learns while other goroutines are at work)
				fr := rune(0x4e00 + atomic.AddInt64(&freshRune, 1)%20000)
				l := js.NewLexer(parse.NewInputString("a" + string(fr) + "b c"))
				if tt, data := l.Next(); tt != js.IdentifierToken || len(data) != 5 {
					s += fmt.Sprintf(" [a%cb lexes as %v %q]", fr, tt, data)
				}
			}
			return s
		})
		if bad >= 0 {
			t.Fatalf("%s (with %d other goroutines at work):\nalone:    %.400s\ntogether: %.400s", key[bad], n-1, alone, together)
		}
		ev.Case("concurrent", strings.Join(key, " || "), n >= 6, fmt.Sprintf("goroutines=%d", n))
	})
}
