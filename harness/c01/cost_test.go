package c01

import (
	"bytes"
	"fmt"
	"runtime"
	"strings"
	"testing"

	"github.com/tdewolff/parse/v2"
	"github.com/tdewolff/parse/v2/js"

	"verif/internal/ev"
)

// mallocs: the number of heap allocations f makes (deterministic for a single-threaded computation: the least of three
// runs, so that an allocation by another goroutine of the test binary does not count)
func mallocs(f func()) uint64 {
	best := ^uint64(0)
	for i := 0; i < 3; i++ {
		var a, b runtime.MemStats
		runtime.ReadMemStats(&a)
		f()
		runtime.ReadMemStats(&b)
		if d := b.Mallocs - a.Mallocs; d < best {
			best = d
		}
	}
	return best
}

// TestProp_Cost: printing, walking and converting a tree costs about as much per node whatever the nesting: a tree nested
// twice as deep must not cost more than eight times the allocations (a function that evaluates a child twice doubles its
// cost with every level: 200 bytes of input then keep the caller busy for hours, which is a hang by any other name)
func TestProp_Cost(t *testing.T) {
	ev.Describe("cost", "every JS row of the deep-nesting table (and the statement shapes of the flat prefixes nested in blocks, functions and arrow functions) at depths 9 and 18, closed; for those js.Parse accepts at both depths the heap allocations of String(), JSString(), Walk and JSONString() are counted (least of three runs); oracle: the count at depth 18 is at most 8 times the count at depth 9 plus 2000 (linear cost doubles it, a subtree that is evaluated twice per level multiplies it by 512); counts, not times; non-trivial = accepted at both depths")
	type shape struct{ head, prefix, mid, suffix, tail string }
	var shapes []shape
	for _, r := range deepRows {
		if r.entry == "jsparse" && r.opts == "" {
			shapes = append(shapes, shape{r.head, r.prefix, r.mid, r.suffix, r.tail})
		}
	}
	for _, w := range [][2]string{{"{", "}"}, {"x=>{", "}"}, {"(function(){", "})()"}, {"function f(){", "}"}, {"x=function(){", "}"}, {"x={a(){", "}}"}, {"if(a){", "}"}, {"class A{static{", "}}"}, {"x=async()=>{", "}"}, {"l:{", "}"}, {"(()=>{", "})()"}, {"new function(){", "}"}, {"y=[function(){", "}]"}, {"z=(a,()=>{", "})"}} {
		for _, st := range []string{"a;", "x=1;", ""} {
			shapes = append(shapes, shape{"", w[0], st, w[1], ""})
		}
	}
	measured := 0
	for _, sh := range shapes {
		var counts [2][4]uint64
		ok := true
		for k, d := range []int{9, 18} {
			src := sh.head + strings.Repeat(sh.prefix, d) + sh.mid + strings.Repeat(sh.suffix, d) + sh.tail
			ast, err := js.Parse(parse.NewInputString(src), js.Options{})
			if err != nil {
				ok = false
				break
			}
			counts[k][0] = mallocs(func() { _ = ast.String() })
			counts[k][1] = mallocs(func() { _ = ast.JSString() })
			counts[k][2] = mallocs(func() { js.Walk(&recVisitor{}, ast) })
			counts[k][3] = mallocs(func() { var buf bytes.Buffer; _ = ast.JSON(&buf) })
		}
		if !ok {
			continue
		}
		measured++
		for i, what := range []string{"String()", "JSString()", "Walk", "JSON()"} {
			if counts[1][i] > 8*counts[0][i]+2000 {
				t.Fatalf("%q + %q*d + %q + %q*d + %q: %s of the tree makes %d allocations at depth 9 and %d at depth 18: its cost grows with the depth faster than any polynomial of small degree would", sh.head, sh.prefix, sh.mid, sh.suffix, sh.tail, what, counts[0][i], counts[1][i])
			}
		}
		ev.Case("cost", fmt.Sprintf("%q*d %q %q*d", sh.prefix, sh.mid, sh.suffix), true, "accepted")
	}
	if measured < 20 {
		t.Fatalf("only %d shapes were accepted at both depths", measured)
	}
}
