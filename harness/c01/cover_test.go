package c01

import (
	"strings"

	"pgregory.net/rapid"
)

// Cover-grammar sources: literal-like expressions (objects, arrays, spreads, initialisers, nested literals, member
// expressions) placed where the parser decides only afterwards whether they are an expression or a binding pattern: a
// parenthesised list in front of =>, the left side of an assignment, a for-in/of head. Most are not valid heads; the
// parser has to say so with an error.
func coverItem(t *rapid.T, depth int) string {
	k := rapid.IntRange(0, 15).Draw(t, "cover")
	if depth > 3 && k > 3 {
		k %= 4
	}
	switch k {
	case 0, 1:
		return rapid.SampledFrom([]string{"a", "b", "yield", "await", "async", "let", "x"}).Draw(t, "id")
	case 2:
		return rapid.SampledFrom([]string{"1", "'s'", "null", "this", "`t`", "/r/", "1n"}).Draw(t, "lit")
	case 3:
		return rapid.SampledFrom([]string{"a", "b"}).Draw(t, "id") + " = " + coverItem(t, depth+1)
	case 4:
		return "..." + coverItem(t, depth+1)
	case 5, 6:
		return "[" + coverList(t, depth+1, true) + "]"
	case 7, 8, 9:
		var props []string
		for n := rapid.IntRange(0, 3).Draw(t, "nprops"); n > 0; n-- {
			switch rapid.IntRange(0, 7).Draw(t, "prop") {
			case 0:
				props = append(props, "a")
			case 1:
				props = append(props, "a = "+coverItem(t, depth+1))
			case 2:
				props = append(props, "k: "+coverItem(t, depth+1))
			case 3:
				props = append(props, "[k]: "+coverItem(t, depth+1))
			case 4:
				props = append(props, "..."+coverItem(t, depth+1))
			case 5:
				props = append(props, rapid.SampledFrom([]string{"m(){}", "get x(){}", "set x(v){}", "async m(){}", "*g(){}", "m(){ return [a] }"}).Draw(t, "method"))
			case 6:
				props = append(props, "'s': "+coverItem(t, depth+1))
			case 7:
				props = append(props, "1: "+coverItem(t, depth+1))
			}
		}
		s := strings.Join(props, ", ")
		if len(props) > 0 && rapid.IntRange(0, 4).Draw(t, "trailing") == 0 {
			s += ","
		}
		return "{" + s + "}"
	case 10:
		return "(" + coverList(t, depth+1, false) + ")"
	case 11:
		return coverItem(t, depth+1) + rapid.SampledFrom([]string{".b", "[0]", "?.b", "()", "(a)", "`t`"}).Draw(t, "suffix")
	case 12:
		return coverItem(t, depth+1) + rapid.SampledFrom([]string{" + ", " , ", " ? a : ", " || ", " ** "}).Draw(t, "binop") + coverItem(t, depth+1)
	case 13:
		return rapid.SampledFrom([]string{"!", "-", "new ", "typeof ", "await ", "yield "}).Draw(t, "unop") + coverItem(t, depth+1)
	case 14:
		return "function(){}"
	}
	return "a => a"
}

func coverList(t *rapid.T, depth int, holes bool) string {
	var items []string
	for n := rapid.IntRange(0, 3).Draw(t, "nitems"); n > 0; n-- {
		if holes && rapid.IntRange(0, 5).Draw(t, "hole") == 0 {
			items = append(items, "")
		} else {
			items = append(items, coverItem(t, depth))
		}
	}
	s := strings.Join(items, ", ")
	if len(items) > 0 && rapid.IntRange(0, 4).Draw(t, "trailing") == 0 {
		s += ","
	}
	return s
}

func coverSource(t *rapid.T) string {
	list := coverList(t, 0, false)
	item := coverItem(t, 0)
	body := rapid.SampledFrom([]string{"a", "{}", "{ return a }", "({})", "[a]"}).Draw(t, "body")
	var s string
	switch rapid.IntRange(0, 9).Draw(t, "form") {
	case 0, 1, 2:
		s = "(" + list + ") => " + body
	case 3:
		s = "async (" + list + ") => " + body
	case 4:
		s = "x = (" + list + ") => " + body
	case 5:
		s = item + " = a"
	case 6:
		s = "(" + item + " = a)"
	case 7:
		s = "for (" + item + rapid.SampledFrom([]string{" of ", " in "}).Draw(t, "forkind") + "a);"
	case 8:
		s = "(" + list + ")"
	case 9:
		s = "f((" + list + ") => " + body + ", " + item + ")"
	}
	switch rapid.IntRange(0, 5).Draw(t, "wrap") {
	case 0:
		s = "function* g(){ " + s + " }"
	case 1:
		s = "async function f(){ " + s + " }"
	case 2:
		s = "class A { m(){ " + s + " } }"
	}
	return s
}
