package c01

import (
	"testing"

	"github.com/tdewolff/parse/v2"
	"github.com/tdewolff/parse/v2/css"
	"github.com/tdewolff/parse/v2/js"

	"verif/internal/gen"
)

func seed(f *testing.F, lang string) {
	for i, s := range gen.Corpus(lang) {
		if i%5 == 0 && len(s) < 300 {
			f.Add([]byte(s), uint8(i))
		}
	}
	for i, s := range gen.Frags[lang] {
		f.Add([]byte(s), uint8(i))
	}
}

func FuzzC01_JSParse(f *testing.F) {
	seed(f, "js")
	f.Fuzz(func(t *testing.T, src []byte, cfg uint8) {
		if len(src) > 1<<13 {
			return
		}
		o := js.Options{WhileToFor: cfg&1 != 0, Inline: cfg&2 != 0}
		ast, err := js.Parse(parse.NewInputBytes(append([]byte(nil), src...)), o)
		if (ast == nil) == (err == nil) {
			t.Fatalf("js.Parse(%q, %+v) returns tree=%v err=%v", src, o, ast != nil, err)
		}
		if ast != nil {
			useTree(t, src, o, ast)
		}
	})
}

func FuzzC01_CSSParser(f *testing.F) {
	seed(f, "css")
	f.Fuzz(func(t *testing.T, src []byte, cfg uint8) {
		if len(src) > 1<<13 {
			return
		}
		in := parse.NewInputBytes(append([]byte(nil), src...))
		p := css.NewParser(in, cfg&1 != 0)
		d := driver{"css.Parser", func() (bool, [][]byte) {
			gt, _, data := p.Next()
			sl := [][]byte{data}
			for _, v := range p.Values() {
				sl = append(sl, v.Data)
			}
			return gt == css.ErrorGrammar, sl
		}, p.Offset, p.Err, false}
		drive(t, d, src, in)
	})
}

func FuzzC01_JSLexer(f *testing.F) {
	seed(f, "js")
	f.Fuzz(func(t *testing.T, src []byte, cfg uint8) {
		if len(src) > 1<<13 {
			return
		}
		in := parse.NewInputBytes(append([]byte(nil), src...))
		l := js.NewLexer(in)
		d := driver{"js.Lexer", func() (bool, [][]byte) {
			tt, data := l.Next()
			sl := [][]byte{data}
			if (tt == js.DivToken || tt == js.DivEqToken) && cfg&1 != 0 {
				_, rdata := l.RegExp()
				sl = append(sl, rdata)
			}
			return tt == js.ErrorToken, sl
		}, in.Offset, l.Err, false}
		drive(t, d, src, in)
	})
}
