package c01

import (
	"bytes"
	"strings"
	"testing"

	"github.com/tdewolff/parse/v2"
	"github.com/tdewolff/parse/v2/css"
	"github.com/tdewolff/parse/v2/js"
)

type tf struct{ t *testing.T }

func (f tf) Fatalf(format string, args ...any) { f.t.Errorf(format, args...) }

// D1 (fixed): '#', 'x#', '~=', '?=' at the end of input
func TestRegress_JSLexerSentinel(t *testing.T) {
	for _, s := range []string{"#", "x#", "~=", "?=", "a ~= b", "#!", "\x00\x00#"} {
		src := []byte(s)
		in := parse.NewInputBytes(append([]byte(nil), src...))
		l := js.NewLexer(in)
		d := driver{"js.Lexer", func() (bool, [][]byte) { tt, data := l.Next(); return tt == js.ErrorToken, [][]byte{data} }, in.Offset, l.Err, false}
		drive(tf{t}, d, src, in)
	}
}

// D2 (fixed): JSON conversion of !a
func TestRegress_UnaryJSON(t *testing.T) {
	for _, s := range []string{"!a", "-a", "!0", "x=!b.c"} {
		ast, err := js.Parse(parse.NewInputString(s), js.Options{})
		if err != nil {
			t.Fatal(err)
		}
		useTree(tf{t}, []byte(s), js.Options{}, ast)
	}
}

// D4 (fixed): end of input reported inside an open ruleset
func TestRegress_CSSStarEOF(t *testing.T) {
	for _, s := range []string{"a{*", "\\0\\0{*", "a{*b", "*"} {
		for _, inline := range []bool{false, true} {
			src := []byte(s)
			in := parse.NewInputBytes(append([]byte(nil), src...))
			p := css.NewParser(in, inline)
			d := driver{"css.Parser", func() (bool, [][]byte) { gt, _, data := p.Next(); return gt == css.ErrorGrammar, [][]byte{data} }, p.Offset, p.Err, false}
			drive(tf{t}, d, src, in)
		}
	}
}

// D3 (fixed): binding patterns are depth limited (in-process at a depth that is safe either way)
func TestRegress_BindingDepth(t *testing.T) {
	src := "let " + string(bytes.Repeat([]byte("["), 5000)) + "a" + string(bytes.Repeat([]byte("]"), 5000)) + "=b"
	if _, err := js.Parse(parse.NewInputString(src), js.Options{}); err == nil {
		t.Fatalf("5000 nested binding patterns are accepted: the nesting limit does not apply to patterns")
	}
}

// 15ec541: the uint16 use counter wrapped around in front of an identifier arrow function
func TestRegress_UsesWrapArrow(t *testing.T) {
	for _, n := range []int{65534, 65535} {
		src := "var a;" + strings.Repeat("a;", n) + "a=>1"
		func() {
			defer func() {
				if r := recover(); r != nil {
					t.Errorf("js.Parse(var a; + a;*%d + a=>1) panics: %v", n, r)
				}
			}()
			if ast, err := js.Parse(parse.NewInputString(src), js.Options{}); err != nil || ast == nil {
				t.Errorf("js.Parse(var a; + a;*%d + a=>1): %v", n, err)
			}
		}()
	}
}
