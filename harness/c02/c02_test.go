package c02

import (
	"bytes"
	"fmt"
	"io"
	"testing"
	"unicode/utf8"
	"unsafe"

	"github.com/tdewolff/parse/v2"
	"github.com/tdewolff/parse/v2/css"
	"github.com/tdewolff/parse/v2/html"
	"github.com/tdewolff/parse/v2/js"
	"github.com/tdewolff/parse/v2/xml"
	"pgregory.net/rapid"

	"verif/internal/ev"
	"verif/internal/gen"
)

func TestMain(m *testing.M) { ev.Main(m, "C02") }

type fataler interface {
	Fatalf(format string, args ...any)
}

// ---------- inputs

func genInput(t *rapid.T, lang string) []byte {
	frags := gen.Frags[lang]
	switch rapid.IntRange(0, 3).Draw(t, "source") {
	case 0:
		if c := gen.Corpus(lang); len(c) > 0 {
			return []byte(gen.Mutate(t, rapid.SampledFrom(c).Draw(t, "corpus"), c, frags))
		}
	}
	return gen.Fragments(t, "frag", frags, 16)
}

type plainReader struct {
	b   []byte
	off int
}

func (r *plainReader) Read(p []byte) (int, error) {
	if r.off >= len(r.b) {
		return 0, io.EOF
	}
	n := copy(p, r.b[r.off:])
	r.off += n
	return n, nil
}

// newInput builds the Input through a drawn constructor; backing is the caller's array when the library borrows it
func newInput(t *rapid.T, src []byte) (in *parse.Input, backing []byte, ctor string) {
	ctor = rapid.SampledFrom([]string{"string", "bytes-exact", "bytes-spare", "buffer", "reader"}).Draw(t, "ctor")
	switch ctor {
	case "string":
		return parse.NewInputString(string(src)), nil, ctor
	case "bytes-exact":
		b := append(make([]byte, 0, len(src)), src...)
		return parse.NewInputBytes(b[:len(src):len(src)]), b, ctor
	case "bytes-spare":
		b := make([]byte, len(src)+3)
		copy(b, src)
		b[len(src)], b[len(src)+1], b[len(src)+2] = 0xAA, 0xAB, 0xAC
		return parse.NewInputBytes(b[:len(src)]), b, ctor
	case "buffer":
		return parse.NewInput(bytes.NewBuffer(append([]byte(nil), src...))), nil, ctor
	}
	return parse.NewInput(&plainReader{b: append([]byte(nil), src...)}), nil, ctor
}

// ---------- generic token record

type token struct {
	typ     string
	isErr   bool
	data    []byte
	subs    [][]byte // Text, AttrKey, AttrVal: must lie inside data
	names   [][]byte // sub-slices whose ASCII case may have been lowered (HTML)
	wsRange []byte   // sub-slice in which tab/newline may have become space (XML quoted value)
	closer  bool     // a token that may be preceded by uncovered tag whitespace
}

func within(sub, tok []byte) bool {
	if len(sub) == 0 {
		return true
	}
	if len(tok) == 0 {
		return false
	}
	s := uintptr(unsafe.Pointer(unsafe.SliceData(sub)))
	b := uintptr(unsafe.Pointer(unsafe.SliceData(tok)))
	return s >= b && s+uintptr(len(sub)) <= b+uintptr(len(tok))
}

func offsetIn(sub, tok []byte) int {
	return int(uintptr(unsafe.Pointer(unsafe.SliceData(sub))) - uintptr(unsafe.Pointer(unsafe.SliceData(tok))))
}

type runner struct {
	t       fataler
	lang    string
	src     []byte // private copy taken before lexing
	in      *parse.Input
	prevEnd int
	allowed []bool // positions of the input a documented rewrite may have touched
	ntok    int
	look    bool
	gaps    int
}

// observe checks one returned token against the private copy
func (r *runner) observe(k token, tiling bool) {
	end := r.in.Offset()
	if end < 0 || end > len(r.src) {
		r.t.Fatalf("%s: Offset() = %d outside the input of %d bytes: %q", r.lang, end, len(r.src), r.src)
	}
	if k.isErr {
		if end < r.prevEnd {
			r.t.Fatalf("%s: cursor moved backwards from %d to %d at an error on %q", r.lang, r.prevEnd, end, r.src)
		}
		if len(k.data) > 0 {
			r.check(k, end)
		}
		r.prevEnd = end
		return
	}
	if len(k.data) == 0 {
		r.t.Fatalf("%s: empty %s token at offset %d of %q", r.lang, k.typ, end, r.src)
	}
	r.ntok++
	start := r.check(k, end)
	if start < r.prevEnd {
		r.t.Fatalf("%s: %s token %q starts at %d before the end %d of the previous token in %q", r.lang, k.typ, k.data, start, r.prevEnd, r.src)
	}
	if start > r.prevEnd {
		gap := r.src[r.prevEnd:start]
		if tiling {
			r.t.Fatalf("%s: bytes %q at %d are covered by no token (next token %s %q) in %q", r.lang, gap, r.prevEnd, k.typ, k.data, r.src)
		}
		r.gaps++
		if !k.closer {
			r.t.Fatalf("%s: bytes %q before %s %q are covered by no token in %q", r.lang, gap, k.typ, k.data, r.src)
		}
		for _, c := range gap {
			if c != ' ' && c != '\t' && c != '\n' && c != '\r' && c != '\f' {
				r.t.Fatalf("%s: non-whitespace bytes %q before %s are covered by no token in %q", r.lang, gap, k.typ, r.src)
			}
		}
	}
	r.prevEnd = end
	// appending to the token must not write into the input
	snap := append([]byte(nil), r.in.Bytes()...)
	_ = append(k.data, 'X')
	if !bytes.Equal(snap, r.in.Bytes()) {
		r.t.Fatalf("%s: appending to the %s token %q overwrote the input %q", r.lang, k.typ, k.data, r.src)
	}
	for i, s := range k.subs {
		if !within(s, k.data) {
			r.t.Fatalf("%s: accessor %d of the %s token %q returns %q, which is not a sub-slice of the token (input %q)", r.lang, i, k.typ, k.data, s, r.src)
		}
	}
}

// check: the token is the piece of the input that ends at the cursor, modulo the documented rewrites
func (r *runner) check(k token, end int) int {
	start := end - len(k.data)
	if start < 0 {
		r.t.Fatalf("%s: %s token %q is longer than the %d bytes consumed of %q", r.lang, k.typ, k.data, end, r.src)
	}
	orig := r.src[start:end]
	for i := range k.data {
		if k.data[i] == orig[i] {
			continue
		}
		ok := false
		for _, n := range k.names {
			if within(n, k.data) && len(n) > 0 {
				o := offsetIn(n, k.data)
				if i >= o && i < o+len(n) && orig[i] >= 'A' && orig[i] <= 'Z' && k.data[i] == orig[i]+32 {
					ok = true
				}
			}
		}
		if len(k.wsRange) > 0 && within(k.wsRange, k.data) {
			o := offsetIn(k.wsRange, k.data)
			if i >= o && i < o+len(k.wsRange) && (orig[i] == '\t' || orig[i] == '\n' || orig[i] == '\r') && k.data[i] == ' ' {
				ok = true
			}
		}
		if !ok {
			r.t.Fatalf("%s: %s token %q differs from the input bytes %q at %d..%d (byte %d) of %q", r.lang, k.typ, k.data, orig, start, end, i, r.src)
		}
		r.allowed[start+i] = true
	}
	return start
}

func (r *runner) finish(tiling bool, tailWSOnly bool) {
	end := r.in.Offset()
	if tiling && r.prevEnd != end {
		r.t.Fatalf("%s: bytes %d..%d of %q were consumed without a token", r.lang, r.prevEnd, end, r.src)
	}
	if tailWSOnly {
		for _, c := range r.src[r.prevEnd:end] {
			if c != ' ' && c != '\t' && c != '\n' && c != '\r' && c != '\f' {
				r.t.Fatalf("%s: trailing bytes %q of %q are covered by no token", r.lang, r.src[r.prevEnd:end], r.src)
			}
		}
	}
	got := r.in.Bytes()
	if len(got) != len(r.src) {
		r.t.Fatalf("%s: Input.Bytes() has length %d, the input %d", r.lang, len(got), len(r.src))
	}
	for i := range got {
		if got[i] != r.src[i] && !r.allowed[i] {
			r.t.Fatalf("%s: input byte %d changed from %q to %q outside the documented rewrites; input %q", r.lang, i, r.src[i], got[i], r.src)
		}
	}
}

// ---------- CSS

func runCSS(t fataler, src []byte, in *parse.Input) (*runner, []token) {
	r := &runner{t: t, lang: "css", src: append([]byte(nil), src...), in: in, allowed: make([]bool, len(src)+1)}
	l := css.NewLexer(in)
	var toks []token
	for i := 0; i <= len(src)+1; i++ {
		tt, data := l.Next()
		if tt == css.ErrorToken {
			r.finish(true, false)
			return r, toks
		}
		k := token{typ: tt.String(), data: data}
		r.observe(k, true)
		toks = append(toks, token{typ: k.typ, data: append([]byte(nil), data...)})
		switch tt {
		case css.URLToken, css.BadURLToken, css.BadStringToken, css.UnicodeRangeToken, css.CommentToken, css.DimensionToken, css.PercentageToken, css.StringToken:
			r.look = true
		}
		if bytes.IndexByte(data, '\\') >= 0 {
			r.look = true
		}
	}
	t.Fatalf("css lexer does not terminate on %q", src)
	return r, nil
}

func TestProp_CSS(t *testing.T) {
	ev.Describe("css", "all byte strings: hostile fragment strings (incl. NUL, lone UTF-8 lead bytes, escapes, unterminated strings/urls/comments) and mutated literals of the repository's css tests, through every Input constructor; oracle: each token equals input[Offset()-len:Offset()] of a private copy, tokens are ordered, non-overlapping, non-empty and tile the consumed bytes exactly, appending to a token leaves Input.Bytes() unchanged, Input.Bytes() equals the copy afterwards, and lexing the text of any single token on its own yields that same (type, text) as its only token; non-trivial = >= 3 tokens and >= 1 look-ahead token")
	ev.Check(t, 20000, func(t *rapid.T) {
		src := genInput(t, "css")
		in, _, ctor := newInput(t, src)
		r, toks := runCSS(t, src, in)
		for _, k := range toks {
			l := css.NewLexer(parse.NewInputBytes(append([]byte(nil), k.data...)))
			tt, data := l.Next()
			tt2, _ := l.Next()
			if tt.String() != k.typ || !bytes.Equal(data, k.data) || tt2 != css.ErrorToken {
				t.Fatalf("css: token %s %q of %q lexes on its own as %v %q followed by %v", k.typ, k.data, src, tt, data, tt2)
			}
		}
		ev.Case("css", string(src), r.ntok >= 3 && r.look, "ctor="+ctor)
	})
}

// ---------- JS

func TestProp_JS(t *testing.T) {
	ev.Describe("js", "all valid-UTF-8 strings: hostile JS fragment strings and mutated literals of the repository's js tests (invalid bytes replaced), through every Input constructor; oracle up to the first lexical error: as for css (faithful slices, tiling, ordering, append safety); every such token lexes on its own to the same (type, text), template continuation tokens being re-lexed behind a template head; after the first error only the safety clauses (offset inside the input, no backwards move); non-trivial = >= 3 tokens and >= 1 look-ahead token (number with . or e, template, comment, string, escape)")
	ev.Check(t, 20000, func(t *rapid.T) {
		src := genInput(t, "js")
		if !utf8.Valid(src) {
			src = bytes.ToValidUTF8(src, []byte("?"))
		}
		in, _, ctor := newInput(t, src)
		r := &runner{t: t, lang: "js", src: append([]byte(nil), src...), in: in, allowed: make([]bool, len(src)+1)}
		l := js.NewLexer(in)
		type rec struct {
			tt   js.TokenType
			data []byte
		}
		var toks []rec
		errored := false
		done := false
		for i := 0; i <= 2*len(src)+2; i++ {
			tt, data := l.Next()
			if tt == js.ErrorToken {
				errored = true
				r.observe(token{typ: "Error", isErr: true, data: data}, false)
				if data == nil {
					done = true
					break
				}
				continue
			}
			r.observe(token{typ: tt.String(), data: data}, !errored)
			if !errored {
				toks = append(toks, rec{tt, append([]byte(nil), data...)})
				switch tt {
				case js.DecimalToken, js.TemplateToken, js.TemplateStartToken, js.TemplateMiddleToken, js.TemplateEndToken, js.CommentToken, js.CommentLineTerminatorToken, js.StringToken, js.HexadecimalToken:
					r.look = true
				}
				if bytes.IndexByte(data, '\\') >= 0 {
					r.look = true
				}
			}
		}
		if !done {
			t.Fatalf("js lexer does not terminate on %q", src)
		}
		if !errored {
			r.finish(true, false)
		}
		for _, k := range toks {
			text := k.data
			prefix := 0
			if k.tt == js.TemplateMiddleToken || k.tt == js.TemplateEndToken {
				text = append([]byte("`${"), k.data...)
				prefix = 1
			}
			l2 := js.NewLexer(parse.NewInputBytes(append([]byte(nil), text...)))
			for ; prefix > 0; prefix-- {
				l2.Next()
			}
			tt, data := l2.Next()
			tt2, data2 := l2.Next()
			if tt != k.tt || !bytes.Equal(data, k.data) {
				t.Fatalf("js: token %v %q of %q lexes on its own as %v %q", k.tt, k.data, src, tt, data)
			}
			// a template head leaves the lexer inside the template: what follows is an error or nothing
			if k.tt != js.TemplateStartToken && k.tt != js.TemplateMiddleToken && !(tt2 == js.ErrorToken && data2 == nil) {
				t.Fatalf("js: token %v %q of %q lexes on its own as %v %q followed by %v %q", k.tt, k.data, src, tt, data, tt2, data2)
			}
		}
		ev.Case("js", string(src), r.ntok >= 3 && r.look, "ctor="+ctor, fmt.Sprintf("error=%v", errored))
	})
}

// ---------- HTML

func TestProp_HTML(t *testing.T) {
	ev.Describe("html", "all byte strings: hostile HTML fragment strings and mutated literals of the repository's html tests, plain and with each template dialect, through every Input constructor; oracle: faithful slices modulo ASCII lower-casing confined to the tag/attribute name ranges (checked byte by byte against a private copy), ordering, non-empty tokens, the only uncovered bytes are whitespace in front of StartTagClose/StartTagVoid or at the end inside an open tag (bytes consumed by a call that returns ErrorToken belong to that error unit), Text/AttrKey/AttrVal are sub-slices of their token (address arithmetic), appending to a token leaves the input unchanged, Input.Bytes() afterwards differs from the copy only at lower-cased name bytes; non-trivial = >= 3 tokens incl. an attribute or an end tag")
	dialects := [][2]string{{}, html.GoTemplate, html.EJSTemplate, html.PHPTemplate, html.HandlebarsTemplate, html.MustacheTemplate, html.ASPTemplate}
	ev.Check(t, 20000, func(t *rapid.T) {
		src := genInput(t, "html")
		d := rapid.SampledFrom(dialects).Draw(t, "dialect")
		in, _, ctor := newInput(t, src)
		r := &runner{t: t, lang: "html", src: append([]byte(nil), src...), in: in, allowed: make([]bool, len(src)+1)}
		var l *html.Lexer
		if d[0] == "" {
			l = html.NewLexer(in)
		} else {
			l = html.NewTemplateLexer(in, d)
		}
		done, errUnit := false, false
		for i := 0; i <= len(src)+2; i++ {
			tt, data := l.Next()
			if tt == html.ErrorToken {
				if _, ok := l.Err().(*parse.Error); ok {
					errUnit = true // the bytes of the failed foreign element belong to the error unit
				}
				done = true
				break
			}
			k := token{typ: tt.String(), data: data}
			switch tt {
			case html.StartTagToken, html.EndTagToken, html.SVGToken, html.MathToken, html.XMLToken:
				k.subs = [][]byte{l.Text()}
				k.names = [][]byte{l.Text()}
				if tt == html.EndTagToken {
					r.look = true
					// only the name of an end tag is case-folded: not what follows it, nor a template region glued to it
					name := tagNameOf(l.Text())
					if d[0] != "" {
						if j := bytes.Index(name, []byte(d[0])); j >= 0 {
							name = name[:j]
						}
					}
					k.names = [][]byte{name}
				}
			case html.AttributeToken:
				k.subs = [][]byte{l.AttrKey(), l.AttrVal()}
				k.names = [][]byte{l.AttrKey()}
				r.look = true
			case html.StartTagCloseToken, html.StartTagVoidToken:
				k.closer = true
			default:
				k.subs = [][]byte{l.Text()}
			}
			r.observe(k, false)
		}
		if !done {
			t.Fatalf("html lexer does not terminate on %q", src)
		}
		if !errUnit {
			r.finish(false, true)
		}
		ev.Case("html", string(src), r.ntok >= 3 && r.look, "ctor="+ctor, fmt.Sprintf("tmpl=%s", d[0]))
	})
}

// tagNameOf: the part of an end tag's text up to the first whitespace or slash
func tagNameOf(text []byte) []byte {
	for i, c := range text {
		if c == ' ' || c == '\t' || c == '\n' || c == '\r' || c == '\f' || c == '/' {
			return text[:i]
		}
	}
	return text
}

// ---------- XML

func TestProp_XML(t *testing.T) {
	ev.Describe("xml", "all byte strings: hostile XML fragment strings and mutated literals of the repository's xml tests, through every Input constructor; oracle: faithful slices modulo tab/newline/CR turned into space confined to the quoted attribute value (byte by byte against a private copy), ordering, non-empty tokens, the only uncovered bytes are whitespace in front of StartTagClose/StartTagCloseVoid/StartTagClosePI or at the end inside an open tag, Text/AttrVal are sub-slices of their token, appending to a token leaves the input unchanged; non-trivial = >= 3 tokens incl. an attribute")
	ev.Check(t, 20000, func(t *rapid.T) {
		src := genInput(t, "xml")
		in, _, ctor := newInput(t, src)
		r := &runner{t: t, lang: "xml", src: append([]byte(nil), src...), in: in, allowed: make([]bool, len(src)+1)}
		l := xml.NewLexer(in)
		done, errUnit := false, false
		for i := 0; i <= len(src)+2; i++ {
			tt, data := l.Next()
			if tt == xml.ErrorToken {
				if _, ok := l.Err().(*parse.Error); ok {
					errUnit = true
				}
				done = true
				break
			}
			k := token{typ: tt.String(), data: data, subs: [][]byte{l.Text()}}
			switch tt {
			case xml.AttributeToken:
				k.subs = append(k.subs, l.AttrVal())
				if v := l.AttrVal(); len(v) >= 1 && (v[0] == '"' || v[0] == '\'') {
					k.wsRange = v
				}
				r.look = true
			case xml.StartTagCloseToken, xml.StartTagCloseVoidToken, xml.StartTagClosePIToken:
				k.closer = true
			}
			r.observe(k, false)
		}
		if !done {
			t.Fatalf("xml lexer does not terminate on %q", src)
		}
		if !errUnit {
			r.finish(false, true)
		} else {
			// an embedded NUL stops the lexer: whatever precedes it must still be covered or be tag whitespace
			_ = errUnit
		}
		ev.Case("xml", string(src), r.ntok >= 3 && r.look, "ctor="+ctor)
	})
}
