package c02

import (
	"bytes"
	"testing"
	"unicode/utf8"

	"github.com/tdewolff/parse/v2"
	"github.com/tdewolff/parse/v2/css"
	"github.com/tdewolff/parse/v2/html"
	"github.com/tdewolff/parse/v2/js"
	"github.com/tdewolff/parse/v2/xml"

	"verif/internal/gen"
)

// Native fuzz targets (thorough tier). The oracle is the same runner as in the rapid properties.

func seed(f *testing.F, lang string) {
	for i, s := range gen.Corpus(lang) {
		if i%7 == 0 && len(s) < 300 {
			f.Add([]byte(s))
		}
	}
	for _, s := range gen.Frags[lang] {
		f.Add([]byte(s))
	}
}

func FuzzC02_CSS(f *testing.F) {
	seed(f, "css")
	f.Fuzz(func(t *testing.T, src []byte) {
		if len(src) > 1<<14 {
			return
		}
		_, toks := runCSS(t, src, parse.NewInputBytes(append([]byte(nil), src...)))
		for _, k := range toks {
			l := css.NewLexer(parse.NewInputBytes(append([]byte(nil), k.data...)))
			tt, data := l.Next()
			tt2, _ := l.Next()
			if tt.String() != k.typ || !bytes.Equal(data, k.data) || tt2 != css.ErrorToken {
				t.Fatalf("token %s %q of %q lexes on its own as %v %q followed by %v", k.typ, k.data, src, tt, data, tt2)
			}
		}
	})
}

func FuzzC02_JS(f *testing.F) {
	seed(f, "js")
	f.Fuzz(func(t *testing.T, src []byte) {
		if len(src) > 1<<14 || !utf8.Valid(src) {
			return
		}
		in := parse.NewInputBytes(append([]byte(nil), src...))
		r := &runner{t: t, lang: "js", src: append([]byte(nil), src...), in: in, allowed: make([]bool, len(src)+1)}
		l := js.NewLexer(in)
		errored := false
		for i := 0; i <= 2*len(src)+2; i++ {
			tt, data := l.Next()
			if tt == js.ErrorToken {
				errored = true
				r.observe(token{typ: "Error", isErr: true, data: data}, false)
				if data == nil {
					if !errored {
						r.finish(true, false)
					}
					return
				}
				continue
			}
			r.observe(token{typ: tt.String(), data: data}, !errored)
		}
		t.Fatalf("js lexer does not terminate on %q", src)
	})
}

func FuzzC02_HTML(f *testing.F) {
	seed(f, "html")
	f.Fuzz(func(t *testing.T, src []byte) {
		if len(src) > 1<<14 {
			return
		}
		in := parse.NewInputBytes(append([]byte(nil), src...))
		r := &runner{t: t, lang: "html", src: append([]byte(nil), src...), in: in, allowed: make([]bool, len(src)+1)}
		l := html.NewTemplateLexer(in, html.GoTemplate)
		for i := 0; i <= len(src)+2; i++ {
			tt, data := l.Next()
			if tt == html.ErrorToken {
				if _, ok := l.Err().(*parse.Error); !ok {
					r.finish(false, true)
				}
				return
			}
			k := token{typ: tt.String(), data: data}
			switch tt {
			case html.StartTagToken, html.EndTagToken, html.SVGToken, html.MathToken, html.XMLToken:
				k.subs, k.names = [][]byte{l.Text()}, [][]byte{l.Text()}
				if tt == html.EndTagToken {
					k.names = [][]byte{tagNameOf(l.Text())}
				}
			case html.AttributeToken:
				k.subs, k.names = [][]byte{l.AttrKey(), l.AttrVal()}, [][]byte{l.AttrKey()}
			case html.StartTagCloseToken, html.StartTagVoidToken:
				k.closer = true
			default:
				k.subs = [][]byte{l.Text()}
			}
			r.observe(k, false)
		}
		t.Fatalf("html lexer does not terminate on %q", src)
	})
}

func FuzzC02_XML(f *testing.F) {
	seed(f, "xml")
	f.Fuzz(func(t *testing.T, src []byte) {
		if len(src) > 1<<14 {
			return
		}
		in := parse.NewInputBytes(append([]byte(nil), src...))
		r := &runner{t: t, lang: "xml", src: append([]byte(nil), src...), in: in, allowed: make([]bool, len(src)+1)}
		l := xml.NewLexer(in)
		for i := 0; i <= len(src)+2; i++ {
			tt, data := l.Next()
			if tt == xml.ErrorToken {
				if _, ok := l.Err().(*parse.Error); !ok {
					r.finish(false, true)
				}
				return
			}
			k := token{typ: tt.String(), data: data, subs: [][]byte{l.Text()}}
			switch tt {
			case xml.AttributeToken:
				k.subs = append(k.subs, l.AttrVal())
				if v := l.AttrVal(); len(v) >= 1 && (v[0] == '"' || v[0] == '\'') {
					k.wsRange = v
				}
			case xml.StartTagCloseToken, xml.StartTagCloseVoidToken, xml.StartTagClosePIToken:
				k.closer = true
			}
			r.observe(k, false)
		}
		t.Fatalf("xml lexer does not terminate on %q", src)
	})
}
