package c02

import (
	"bytes"
	"fmt"
	"testing"

	"github.com/tdewolff/parse/v2"
	"github.com/tdewolff/parse/v2/html"
	"github.com/tdewolff/parse/v2/xml"
	"pgregory.net/rapid"

	"verif/internal/ev"
)

// TestProp_Getters: Text, AttrKey, AttrVal and HasTemplate report on the current token, they do not take part in the
// lexing: a caller that leaves some of them out gets the same tokens and leaves the same bytes behind
func TestProp_Getters(t *testing.T) {
	ev.Describe("getters", "hostile HTML and XML fragment strings, plain and in each template dialect, lexed twice in step: one caller calls every getter behind every token, the other leaves them out for tokens chosen by a drawn mask; oracle: both see the same (type, bytes) sequence, and the two input buffers are equal afterwards (what is lower-cased or normalised in place does not depend on which getters were called when); non-trivial = >= 3 tokens and a getter left out")
	dialects := [][2]string{{}, html.GoTemplate, html.EJSTemplate, html.PHPTemplate}
	ev.Check(t, 8000, func(t *rapid.T) {
		isXML := rapid.IntRange(0, 3).Draw(t, "xml") == 0
		lang := "html"
		if isXML {
			lang = "xml"
		}
		src := genInput(t, lang)
		mask := rapid.Uint32().Draw(t, "mask") | rapid.Uint32().Draw(t, "mask2")<<16
		a, b := append(make([]byte, 0, len(src)+1), src...), append(make([]byte, 0, len(src)+1), src...)
		ntok, skipped := 0, 0
		step := func(i int, ttA, ttB fmt.Stringer, dataA, dataB []byte, getters func(full bool)) bool {
			if ttA.String() != ttB.String() || !bytes.Equal(dataA, dataB) {
				t.Fatalf("%s %q: token %d is %v %q for the caller that calls every getter and %v %q for the one that leaves some out", lang, src, i, ttA, dataA, ttB, dataB)
			}
			getters(true)
			if mask>>(uint(i)%32)&1 == 0 {
				getters(false)
			} else {
				skipped++
			}
			ntok++
			return true
		}
		if isXML {
			la, lb := xml.NewLexer(parse.NewInputBytes(a)), xml.NewLexer(parse.NewInputBytes(b))
			for i := 0; i <= len(src)+2; i++ {
				ttA, dataA := la.Next()
				ttB, dataB := lb.Next()
				step(i, ttA, ttB, dataA, dataB, func(full bool) {
					if full {
						_, _ = la.Text(), la.AttrVal()
					} else {
						_, _ = lb.Text(), lb.AttrVal()
					}
				})
				if ttA == xml.ErrorToken {
					break
				}
			}
		} else {
			d := rapid.SampledFrom(dialects).Draw(t, "dialect")
			mk := func(x []byte) *html.Lexer {
				if d[0] == "" {
					return html.NewLexer(parse.NewInputBytes(x))
				}
				return html.NewTemplateLexer(parse.NewInputBytes(x), d)
			}
			la, lb := mk(a), mk(b)
			for i := 0; i <= len(src)+2; i++ {
				ttA, dataA := la.Next()
				ttB, dataB := lb.Next()
				step(i, ttA, ttB, dataA, dataB, func(full bool) {
					if full {
						_, _, _, _ = la.Text(), la.AttrKey(), la.AttrVal(), la.HasTemplate()
					} else {
						_, _, _, _ = lb.Text(), lb.AttrKey(), lb.AttrVal(), lb.HasTemplate()
					}
				})
				if ttA == html.ErrorToken {
					break
				}
			}
		}
		if !bytes.Equal(a[:len(src)], b[:len(src)]) {
			t.Fatalf("%s %q: the input reads %q behind the caller that calls every getter and %q behind the one that leaves some out", lang, src, a[:len(src)], b[:len(src)])
		}
		ev.Case("getters", string(src), ntok >= 3 && skipped > 0, lang)
	})
}
