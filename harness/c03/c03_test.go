package c03

import (
	"fmt"
	"regexp"
	"sort"
	"strings"
	"testing"

	"github.com/tdewolff/parse/v2"
	"github.com/tdewolff/parse/v2/js"
	"pgregory.net/rapid"

	"verif/internal/ev"
	"verif/internal/jsgen"
)

func TestMain(m *testing.M) { ev.Main(m, "C03") }

func genProgram(t *rapid.T) (*jsgen.G, jsgen.Out, js.Options) {
	o := js.Options{WhileToFor: rapid.Bool().Draw(t, "whileToFor"), Inline: rapid.Bool().Draw(t, "inline")}
	g := jsgen.New(t)
	g.Module = !o.Inline // import/export declarations belong to the module goal, top-level return to Inline
	g.TopReturn = o.Inline
	g.WhileToFor = o.WhileToFor
	g.MaxDepth = rapid.IntRange(2, 5).Draw(t, "maxDepth")
	return g, g.Program(), o
}

func classes(g *jsgen.G) []string {
	var out []string
	for k := range g.Kinds {
		out = append(out, "kind="+k)
	}
	for k := range g.Ops {
		out = append(out, "op="+k)
	}
	sort.Strings(out)
	return out
}

var bangComment = regexp.MustCompile(`Stmt\(/\*![^*]*\*/\) ?`)

func TestProp_Accept(t *testing.T) {
	ev.Describe("accept", "programs derived from an ECMAScript grammar generator (all statement kinds, var/let/const/function/async/generator/class declarations with fields, methods, accessors, static blocks and private names, all binary/unary/update/assignment/conditional/coalesce/exponent operators, destructuring patterns with defaults and rest, templates with nested substitutions, optional chains, new with and without arguments, import()/import.meta/new.target, arrows in all head forms, labels, modules) x a drawn spelling (necessary and redundant parentheses, ; or automatic semicolon insertion by newline / before } / at the end, separators none/space/tab/comment/line terminators incl. U+2028 wherever the lexical grammar allows) x Options; oracle: Parse succeeds and AST.String() equals the fully parenthesised form computed bottom-up from the generator's own tree (while-loops as for-loops under WhileToFor), the dense spelling of the same tree parses to the same String(), and so does a spelling whose comment separators are /*! */ comments once the Comment statements they leave in the tree are removed; non-trivial = >= 3 operators of >= 2 kinds or >= 2 statement kinds")
	ev.Check(t, 5000, func(t *rapid.T) {
		g, prog, o := genProgram(t)
		src, asi := jsgen.Render(t, prog.Toks, false)
		ast, err := js.Parse(parse.NewInputString(src), o)
		if err != nil {
			t.Fatalf("generated program rejected (%+v):\n%s\nerror: %v\nexpected tree: %s", o, src, err, prog.Str)
		}
		if got := ast.String(); got != prog.Str {
			t.Fatalf("program (%+v):\n%s\nparses to\n  %s\nthe grammar dictates\n  %s", o, src, got, prog.Str)
		}
		dense, _ := jsgen.Render(t, prog.Toks, true)
		ast2, err := js.Parse(parse.NewInputString(dense), o)
		if err != nil {
			t.Fatalf("dense spelling rejected (%+v):\n%s\nerror: %v", o, dense, err)
		}
		if got := ast2.String(); got != prog.Str {
			t.Fatalf("dense spelling (%+v):\n%s\nparses to\n  %s\nthe spaced spelling to\n  %s", o, dense, got, prog.Str)
		}
		// the same tokens with /*! */ comments as separators: they are kept as Comment statements, and are comments otherwise
		bangSrc, _ := jsgen.RenderBang(t, prog.Toks)
		if strings.Contains(bangSrc, "/*!") {
			ast3, err := js.Parse(parse.NewInputString(bangSrc), o)
			if err != nil {
				t.Fatalf("spelling with /*! */ comments rejected (%+v):\n%s\nerror: %v\nexpected tree: %s", o, bangSrc, err, prog.Str)
			}
			if got := strings.TrimSpace(bangComment.ReplaceAllString(ast3.String(), "")); got != prog.Str {
				t.Fatalf("spelling with /*! */ comments (%+v):\n%s\nparses (Comment statements removed) to\n  %s\nthe grammar dictates\n  %s", o, bangSrc, got, prog.Str)
			}
			ev.Count("accept", "bang-comment spelling", 1)
			// the tree stays what it is while the caller holds it: a later Parse (of a text with kept comments) leaves it alone
			before := ast3.String()
			if _, err := js.Parse(parse.NewInputString("/*! other */ /*! licence */ held = 1; /*! z */ held2 = 2"), o); err != nil {
				t.Fatalf("second parse: %v", err)
			}
			if got := ast3.String(); got != before {
				t.Fatalf("the tree of\n%s\nwas\n  %s\nand is, after a later Parse of another text,\n  %s", bangSrc, before, got)
			}
		}
		// a few kept comments in front of the program (1-9: a tree whose statement list was built next to the comments)
		if k := rapid.IntRange(0, 9).Draw(t, "leading-comments"); k > 0 {
			src4 := strings.Repeat("/*! c */", k) + dense
			ast4, err := js.Parse(parse.NewInputString(src4), o)
			if err != nil {
				t.Fatalf("%d kept comments in front of the program rejected (%+v):\n%s\nerror: %v", k, o, src4, err)
			}
			before := ast4.String()
			if got := strings.TrimSpace(bangComment.ReplaceAllString(before, "")); got != prog.Str {
				t.Fatalf("%d kept comments in front of the program (%+v):\n%s\nparses (Comment statements removed) to\n  %s\nthe grammar dictates\n  %s", k, o, src4, got, prog.Str)
			}
			if _, err := js.Parse(parse.NewInputString("/*! other */ /*! licence */ held = 1; /*! z */ held2 = 2"), o); err != nil {
				t.Fatalf("second parse: %v", err)
			}
			if got := ast4.String(); got != before {
				t.Fatalf("the tree of\n%s\nwas\n  %s\nand is, after a later Parse of another text,\n  %s", src4, before, got)
			}
		}
		nops, nkinds := 0, 0
		for _, n := range g.Ops {
			nops += n
		}
		for k := range g.Kinds {
			switch k {
			case "chain", "binary", "unary", "call", "comma", "assign":
			default:
				nkinds++
			}
		}
		g.ASI = asi
		for k, n := range g.Excluded {
			for ; n > 0; n-- {
				ev.Excluded("accept", k)
			}
		}
		cls := append(classes(g), fmt.Sprintf("opts=%v/%v", o.WhileToFor, o.Inline))
		if asi > 0 {
			cls = append(cls, "asi")
		}
		if g.Redundant > 0 {
			cls = append(cls, "redundant-parens")
		}
		ev.Case("accept", src, (nops >= 3 && len(g.Ops) >= 2) || nkinds >= 2, cls...)
	})
}

// ---------- reject side

func tokensOf(toks []jsgen.Tok) []string {
	out := make([]string, len(toks))
	for i, k := range toks {
		out[i] = k.S
	}
	return out
}

func TestProp_RejectBracket(t *testing.T) {
	ev.Describe("reject-bracket", "a generated program with one bracket token ( ) [ ] { } deleted, or one inserted at a token boundary (bracket tokens of the program, never bytes inside literals, so the result is token-unbalanced, which no ECMAScript program is; template substitution delimiters count as braces); oracle: Parse returns an error and no tree, under every Options value; non-trivial = program with >= 3 bracket tokens")
	ev.Check(t, 5000, func(t *rapid.T) {
		_, prog, o := genProgram(t)
		toks := append([]jsgen.Tok(nil), prog.Toks...)
		var idx []int
		// inside a template substitution a "}" is lexed as the template continuation, so braces there are not plain
		// bracket tokens: brace mutations are only made outside substitutions
		inSub := make([]bool, len(toks)+1)
		depth := 0
		for i, k := range toks {
			inSub[i] = depth > 0 // position in front of token i
			if strings.HasPrefix(k.S, "}") && len(k.S) > 1 && depth > 0 {
				depth--
			}
			if strings.HasSuffix(k.S, "${") {
				depth++
			}
			if len(k.S) == 1 && strings.Contains("()[]{}", k.S) && !(inSub[i] && strings.Contains("{}", k.S)) {
				idx = append(idx, i)
			}
		}
		inSub[len(toks)] = false
		for _, k := range toks {
			if k.S[0] == '/' {
				// whether a "/" is a division or starts a regular expression literal depends on the token in front of
				// it, which the mutation may change: the brackets behind it could then end up inside a literal and the
				// text would no longer be token-unbalanced
				t.Skip("program with a / token")
			}
		}
		mut := ""
		if len(idx) > 0 && rapid.Bool().Draw(t, "delete") {
			i := rapid.SampledFrom(idx).Draw(t, "at")
			mut = fmt.Sprintf("delete %q at token %d", toks[i].S, i)
			toks = append(toks[:i:i], toks[i+1:]...)
		} else {
			i := rapid.IntRange(0, len(toks)).Draw(t, "at")
			b := rapid.SampledFrom([]string{"(", ")", "[", "]", "{", "}"}).Draw(t, "bracket")
			if inSub[i] && (b == "{" || b == "}") {
				b = ")"
			}
			mut = fmt.Sprintf("insert %q before token %d", b, i)
			toks = append(toks[:i:i], append([]jsgen.Tok{{S: b}}, toks[i:]...)...)
		}
		src, _ := jsgen.Render(t, toks, true)
		ast, err := js.Parse(parse.NewInputString(src), o)
		if err == nil || ast != nil {
			s := ""
			if ast != nil {
				s = ast.String()
			}
			t.Fatalf("unbalanced program (%s, %+v) accepted:\n%s\ntree: %s", mut, o, src, s)
		}
		ev.Case("reject-bracket", src, len(idx) >= 3, mut[:6])
	})
}

func TestProp_RejectForbidden(t *testing.T) {
	ev.Describe("reject-forbidden", "an operator sequence the grammar forbids, built from generated operands and spliced into a generated program as a statement: a unary operator directly before ** (- + ! ~ typeof void delete await), ?? mixed with || or && without parentheses in either order, an assignment (any of the 16 operators) whose left side is a binary/unary/conditional/literal expression; oracle: Parse returns an error and no tree under every Options value; the same statement with the necessary parentheses is accepted (control); non-trivial = every case (distinct by text)")
	ev.Check(t, 5000, func(t *rapid.T) {
		g, prog, o := genProgram(t)
		g.MaxDepth = 2
		a, b, c := g.Expr(jsgen.LUpdate), g.Expr(jsgen.LBitOr), g.Expr(jsgen.LBitOr)
		var bad, good []jsgen.Tok
		kind := rapid.SampledFrom([]string{"unary-exp", "coalesce-or", "or-coalesce", "coalesce-and", "and-coalesce", "assign-binary"}).Draw(t, "forbidden")
		w := func(parts ...any) []jsgen.Tok {
			var out []jsgen.Tok
			for _, p := range parts {
				switch x := p.(type) {
				case string:
					out = append(out, jsgen.Tok{S: x})
				case jsgen.Out:
					out = append(out, x.Toks...)
				}
			}
			return out
		}
		switch kind {
		case "unary-exp":
			op := rapid.SampledFrom([]string{"-", "+", "!", "~", "typeof", "void", "delete", "await"}).Draw(t, "unop")
			bad = w("x", "=", op, a, "**", b)
			good = w("x", "=", "(", op, a, ")", "**", b)
			if op == "await" {
				// await is an operator inside async functions (and at the top level of a module, which the drawn
				// goal may not be): simple operands, every kind of async body, also as the right operand of **
				y, z := rapid.SampledFrom([]string{"y", "y.p", "y()", "y[0]", "1", "y++", "new Y"}).Draw(t, "base"), rapid.SampledFrom([]string{"z", "2", "z.q", "-z", "z ** 2"}).Draw(t, "exponent")
				form := rapid.SampledFrom([]string{"x = await %s ** %s", "x = 2 ** await %s ** %s", "return await %s ** %s", "f(await %s ** %s)", "x = [await %s ** %s]", "x = -await %s ** %s"}).Draw(t, "awaitform")
				ctl := strings.Replace(strings.Replace(form, "-await", "-(await", 1), "await %s", "(await %s)", 1)
				if strings.Contains(form, "-await") {
					ctl = strings.Replace(form, "-await %s ** %s", "(-await %s) ** %s", 1)
				}
				wrapper := rapid.SampledFrom([]string{"async function w(){%s}", "w = async () => {%s}", "w = {async m(){%s}}", "class W{async m(){%s}}", "w = async function*(){%s}"}).Draw(t, "asyncwrap")
				src := func(f string) []jsgen.Tok {
					return []jsgen.Tok{{S: fmt.Sprintf(wrapper, fmt.Sprintf(f, y, z))}}
				}
				bad, good = src(form), src(ctl)
			}
		case "coalesce-or":
			bad, good = w("x", "=", a, "??", b, "||", c), w("x", "=", "(", a, "??", b, ")", "||", c)
		case "or-coalesce":
			bad, good = w("x", "=", a, "||", b, "??", c), w("x", "=", "(", a, "||", b, ")", "??", c)
		case "coalesce-and":
			bad, good = w("x", "=", a, "??", b, "&&", c), w("x", "=", a, "??", "(", b, "&&", c, ")")
		case "and-coalesce":
			bad, good = w("x", "=", a, "&&", b, "??", c), w("x", "=", "(", a, "&&", b, ")", "??", c)
		case "assign-binary":
			op := rapid.SampledFrom([]string{"=", "+=", "-=", "*=", "/=", "%=", "**=", "<<=", ">>=", ">>>=", "&=", "|=", "^=", "&&=", "||=", "??="}).Draw(t, "assignop")
			// every binary operator of the language on the left of the assignment, also the ones written as words
			lhsop := rapid.SampledFrom([]string{"+", "*", "==", "<", "&&", "|", "-", "in", "instanceof", "**", "/", "%", "<<", ">>", ">>>", ">", "<=", ">=", "!=", "===", "!==", "&", "^", "||", "??"}).Draw(t, "lhsop")
			bad = w("y", lhsop, "z", op, c)
			good = w("y", lhsop, "(", "z", op, c, ")")
			if rapid.Bool().Draw(t, "nested") {
				// the same inside an argument list or behind another assignment
				bad, good = w("f", "(", "y", lhsop, "z", op, c, ")"), w("f", "(", "y", lhsop, "(", "z", op, c, ")", ")")
				if rapid.Bool().Draw(t, "assignprefix") {
					bad, good = w("x", "=", "y", lhsop, "z", op, c), w("x", "=", "y", lhsop, "(", "z", op, c, ")")
				}
			}
		}
		at := 0
		_ = at
		for _, variant := range []struct {
			toks []jsgen.Tok
			ok   bool
		}{{bad, false}, {good, true}} {
			all := append(append(append([]jsgen.Tok(nil), variant.toks...), jsgen.Tok{S: ";"}), prog.Toks...)
			src, _ := jsgen.Render(t, all, true)
			ast, err := js.Parse(parse.NewInputString(src), o)
			if variant.ok && err != nil {
				t.Fatalf("control (%s with parentheses, %+v) rejected:\n%s\n%v", kind, o, src, err)
			}
			if !variant.ok && (err == nil || ast != nil) {
				t.Fatalf("forbidden operator sequence (%s, %+v) accepted:\n%s\ntree: %s", kind, o, src, ast.String())
			}
			if !variant.ok {
				ev.Case("reject-forbidden", src, true, kind)
			}
		}
	})
}

func TestProp_RejectRedeclare(t *testing.T) {
	ev.Describe("reject-redeclare", "a generated program extended by a second lexical declaration of a name in the same scope: let a; let a / let a; const a=1 / class a{}; let a / let a; var a / const a=1; function a(){} / let a; class a{} at the top level or inside a block, loop, switch, arrow or function body, also where the name is the own name of the enclosing function/class expression, a method name or a label; oracle: Parse returns an error and no tree under every Options value; the same two declarations with distinct names are accepted (control); non-trivial = every case")
	ev.Check(t, 4000, func(t *rapid.T) {
		_, prog, o := genProgram(t)
		first := rapid.SampledFrom([]string{"let N", "const N=1", "class N{}", "let [N]=[]", "let {N}={}"}).Draw(t, "first")
		second := rapid.SampledFrom([]string{"let N", "const N=2", "class N{}", "var N", "function N(){}", "let {q:N}={}"}).Draw(t, "second")
		wrap := rapid.SampledFrom([]string{"%s;%s;", "{%s;%s;}", "function wrapper(){%s;%s;}", "if(x){%s;%s;}", "x=()=>{%s;%s;};", "for(;;){%s;%s;}", "switch(x){case 1:%s;default:%s;}",
			// the duplicated name is also the function or class expression's own name (which a first declaration may shadow), or a label
			"x=function dup(){%s;%s;};", "x=function*dup(){%s;%s;};", "x=async function dup(){%s;%s;};", "x=function dup(){{%s;%s;}};", "(class dup{m(){%s;%s;}});", "(class dup{static{%s;%s;}});", "dup:{%s;%s;}", "x={dup(){%s;%s;}};"}).Draw(t, "wrap")
		rest, _ := jsgen.Render(t, prog.Toks, true)
		// the scope may be crowded (15-17, 63-65, 255-257 other declarations: sizes at which a scope table could change
		// its representation), and the duplicated name may have been referred to before its first declaration
		crowd := ""
		if k := rapid.SampledFrom([]int{0, 0, 0, 15, 16, 17, 63, 64, 65, 255, 256, 257}).Draw(t, "crowd"); k > 0 {
			kind := rapid.SampledFrom([]string{"let", "var", "const"}).Draw(t, "crowdkind")
			for i := 0; i < k; i++ {
				crowd += fmt.Sprintf("%s crowd%d=%d;", kind, i, i)
			}
		}
		if rapid.Bool().Draw(t, "forwardref") {
			crowd += "function early(){return dup};"
		}
		first = crowd + first
		bad := fmt.Sprintf(wrap, strings.ReplaceAll(first, "N", "dup"), strings.ReplaceAll(second, "N", "dup")) + rest
		good := fmt.Sprintf(wrap, strings.ReplaceAll(first, "N", "dup"), strings.ReplaceAll(second, "N", "dup2")) + rest
		if ast, err := js.Parse(parse.NewInputString(good), o); err != nil || ast == nil {
			t.Fatalf("control with distinct names rejected (%+v):\n%s\n%v", o, good, err)
		}
		ast, err := js.Parse(parse.NewInputString(bad), o)
		if err == nil || ast != nil {
			t.Fatalf("duplicate lexical declaration accepted (%+v):\n%s", o, bad)
		}
		ev.Case("reject-redeclare", bad, true, second[:3], fmt.Sprintf("crowd=%v", crowd != ""))
	})
}

// ---------- long flat programs

func flatProgram(t *rapid.T) (src string, want string, o js.Options, k int) {
	o = js.Options{WhileToFor: rapid.Bool().Draw(t, "whileToFor"), Inline: rapid.Bool().Draw(t, "inline")}
	g := jsgen.New(t)
	g.WhileToFor = o.WhileToFor
	g.MaxDepth = rapid.IntRange(1, 3).Draw(t, "maxDepth")
	prog := g.Program()
	// one block per repetition: lexical declarations of the repeated program stay legal
	toks := append(append([]jsgen.Tok{{S: "{"}}, prog.Toks...), jsgen.Tok{S: "}"})
	one, _ := jsgen.Render(t, toks, rapid.Bool().Draw(t, "dense"))
	k = rapid.SampledFrom([]int{999, 1000, 1001, 1002, 1100, 1500, 2000, 3000}).Draw(t, "repeat")
	for k > 999 && k*len(one) > 3<<20 {
		k = 999 + (k-999)/2
	}
	src = strings.Repeat(one+"\n", k)
	want = strings.TrimSuffix(strings.Repeat("Stmt({ "+prog.Str+" }) ", k), " ")
	return
}

func TestProp_Flat(t *testing.T) {
	ev.Describe("flat", "a small generated program (1-4 statements, depth <= 3, any spelling) wrapped in a block and repeated 999-3000 times on consecutive lines (a long, flat program: nothing nests deeper than the one block); oracle: Parse succeeds and String() is the expected tree of the block repeated as often (a per-statement or per-expression drift of the nesting counters, or any other state that accumulates over a long statement list, rejects or mis-parses the tail); non-trivial = >= 1000 repetitions")
	ev.Check(t, 40, func(t *rapid.T) {
		src, want, o, k := flatProgram(t)
		ast, err := js.Parse(parse.NewInputString(src), o)
		if err != nil {
			t.Fatalf("%d repetitions of\n%s\nare rejected (%+v): %v", k, src[:strings.Index(src, "\n")+1], o, err)
		}
		if got := ast.String(); got != want {
			i := 0
			for i < len(got) && i < len(want) && got[i] == want[i] {
				i++
			}
			t.Fatalf("%d repetitions of\n%s\nparse to a tree that differs from the repeated expectation at byte %d:\n  got  …%.200s\n  want …%.200s", k, src[:strings.Index(src, "\n")+1], i, got[max(0, i-40):], want[max(0, i-40):])
		}
		ev.Case("flat", fmt.Sprintf("%d x %s", k, src[:strings.Index(src, "\n")]), k >= 1000, fmt.Sprintf("repeat=%d", k))
	})
}
