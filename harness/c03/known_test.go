package c03

import (
	"strings"
	"testing"

	"github.com/tdewolff/parse/v2"
	"github.com/tdewolff/parse/v2/js"

	"verif/internal/ev"
)

// fixed defects of the pinned tree, replayed without the library
func TestRegress_Accept(t *testing.T) {
	for src, want := range map[string]string{
		"x=([a]=[a]=z)=>{}":           "Stmt(x=(Params(Binding([ Binding(a) ] = ([a]=z))) => Stmt({ })))",
		"x=({a}={a}=z)=>{}":           "Stmt(x=(Params(Binding({ Binding(a) } = ({a}=z))) => Stmt({ })))",
		"x=({a}={...b,})=>{}":         "Stmt(x=(Params(Binding({ Binding(a) } = {...b})) => Stmt({ })))",
		"a\n;b":                       "Stmt(a) Stmt(b)",
		"do a\n;while(b)":             "Stmt(do Stmt(a) while b)",
		"if(a)b\n;else c":             "Stmt(if a Stmt(b) else Stmt(c))",
		"{}\n;":                       "Stmt({ }) Stmt()",
		"(class{static async\n(){}})": "Stmt(Decl(class Method(static async Params() Stmt({ }))))",
		"(class{async\nm(){}})":       "Stmt(Decl(class Field(async) Method(m Params() Stmt({ }))))",
		"import(0).p\n;":              "Stmt((import(0)).p)",
		// 0bc1376, e3b9df3: the no-in restriction of a for head ends at argument lists, optional indexes and pattern initialisers
		"for(a=new f(b in c);;);":  "Stmt(for (a=(new f((b in c)))) ; ; Stmt({ }))",
		"for(a=x?.(b in c);;);":    "Stmt(for (a=(x?.((b in c)))) ; ; Stmt({ }))",
		"for(a=x?.[b in c];;);":    "Stmt(for (a=(x?.[(b in c)])) ; ; Stmt({ }))",
		"for(var {a=0 in b}=c;;);": "Stmt(for Decl(var Binding({ Binding(a = (0 in b)) } = c)) ; ; Stmt({ }))",
		// ee8479d: yield without operand before a template continuation
		"function*f(){x=`${yield}`}": "Decl(function* f Params() Stmt({ Stmt(x=`${(yield)}`) }))",
		// 0032118: computed keys in arrow heads are expressions
		"x=({[[...(a),]]:v1,v2})=>{}": "Stmt(x=(Params(Binding({ [[...(a)]]: Binding(v1), Binding(v2) })) => Stmt({ })))",
		"x=({[k]:v})=>k":              "Stmt(x=(Params(Binding({ [k]: Binding(v) })) => Stmt({ Stmt(return k) })))",
		// 069ba48: a prefix update expression is an UpdateExpression, the legal base of **
		"++a ** 2":      "Stmt((++a)**2)",
		"--a ** 2 ** 3": "Stmt((--a)**(2**3))",
		// dcc7751: automatic semicolon insertion in front of ( [ and templates behind an expression that cannot be called
		"a++\n(b)":                 "Stmt(a++) Stmt(b)",
		"a--\n[b]":                 "Stmt(a--) Stmt([b])",
		"a++\n`t`":                 "Stmt(a++) Stmt(`t`)",
		"x = y => {}\n(z)":         "Stmt(x=(Params(Binding(y)) => Stmt({ }))) Stmt(z)",
		"x = async y => {}\n(z)":   "Stmt(x=(async Params(Binding(y)) => Stmt({ }))) Stmt(z)",
		"x = async (y) => {}\n[z]": "Stmt(x=(async Params(Binding(y)) => Stmt({ }))) Stmt([z])",
		// 7f519fc: the operators behind an expression that starts with async are parsed once, with the context's in restriction
		"x,async function(){}?a:b++\n(d)": "Stmt(x,(Decl(async function Params() Stmt({ })) ? a : (b++))) Stmt(d)",
		"for(async in b);":                "Stmt(for async in b Stmt({ }))",
		"for(async.x in b);":              "Stmt(for (async.x) in b Stmt({ }))",
		"x = async in b":                  "Stmt(x=(async in b))",
		// 339f89e: automatic semicolon insertion in front of + - and a regular expression behind yield or an arrow function body
		"function*f(){yield\n+1}":           "Decl(function* f Params() Stmt({ Stmt(yield) Stmt(+1) }))",
		"function*f(){yield\n/re/.test(x)}": "Decl(function* f Params() Stmt({ Stmt(yield) Stmt((/re/.test)(x)) }))",
		"a = () => {}\n-c":                  "Stmt(a=(Params() => Stmt({ }))) Stmt(-c)",
		"a = () => {}\n/=re/g":              "Stmt(a=(Params() => Stmt({ }))) Stmt(/=re/g)",
		"a+b\n/=re/g":                       "Stmt(a+b) Stmt(/=re/g)",
		// 83f3da2: get or set in front of a generator method on the next line is a field
		"class A { get\n *a(){} }":        "Decl(class A Field(get) Method(* a Params() Stmt({ })))",
		"class A { static set\n *a(){} }": "Decl(class A Field(static set) Method(* a Params() Stmt({ })))",
	} {
		ast, err := js.Parse(parse.NewInputString(src), js.Options{})
		if err != nil {
			t.Errorf("%q rejected: %v", src, err)
		} else if got := ast.String(); got != want {
			t.Errorf("%q parses to %s, want %s", src, got, want)
		}
	}
}

// known findings (KNOWN_FINDINGS.txt): replayed exactly; KNOWN-FINDING while listed and still present
func TestKnown_BlockFunctionAndImportBindings(t *testing.T) {
	known := ev.KnownFindings("C03")
	parses := func(src string) bool {
		_, err := js.Parse(parse.NewInputString(src), js.Options{})
		return err == nil
	}
	// K-C03-1
	bad1 := !parses("let a; { function a(){} }") || parses("{ function a(){} let a }")
	if _, listed := known["K-C03-1"]; bad1 && listed {
		ev.ReportKnown("C03", "K-C03-1", "\"let a; { function a(){} }\" is rejected and \"{ function a(){} let a }\" is accepted: a function declaration in a block is declared in the function scope only")
	} else if bad1 {
		t.Errorf("\"let a; { function a(){} }\" accepted=%v, \"{ function a(){} let a }\" accepted=%v", parses("let a; { function a(){} }"), parses("{ function a(){} let a }"))
	}
	// K-C03-2
	bad2 := parses("import {a} from 'x'; let a")
	if _, listed := known["K-C03-2"]; bad2 && listed {
		ev.ReportKnown("C03", "K-C03-2", "\"import {a} from 'x'; let a\" is accepted: import bindings are not declared in the module scope")
	} else if bad2 {
		t.Errorf("\"import {a} from 'x'; let a\" is accepted")
	}
}

// braces nested in one template substitution, and templates nested in substitutions, at depths next to 64 (the width of a
// machine word) and beyond: all below the parser's own limit of 1000, all accepted
func TestRegress_DeepSubstitutions(t *testing.T) {
	for _, d := range []int{1, 31, 32, 33, 63, 64, 65, 100, 200} {
		for _, src := range []string{
			"x = `<${" + strings.Repeat("{a:", d) + "1" + strings.Repeat("}", d) + "}>`",
			"x = `<${function(){" + strings.Repeat("function f(){", d) + strings.Repeat("}", d) + "}}>`",
			"x = " + strings.Repeat("`${", d) + "y" + strings.Repeat("}`", d),
			"x = `${" + strings.Repeat("{a:`${", d) + "y" + strings.Repeat("}`}", d) + "}`",
		} {
			if d > 100 && strings.Contains(src, "function") {
				continue // two levels of nesting per function: beyond the parser's limit
			}
			for _, o := range []js.Options{{}, {Inline: true}, {WhileToFor: true}} {
				if _, err := js.Parse(parse.NewInputString(src), o); err != nil {
					t.Errorf("depth %d, %+v: %.60q... rejected: %v", d, o, src, err)
				}
			}
		}
	}
}
