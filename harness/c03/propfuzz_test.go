package c03

import (
	"testing"

	"verif/internal/ev"
)

// FuzzProp: coverage-guided fuzzing of this package's rapid properties (see ev.FuzzProp); thorough tier only.
func FuzzProp(f *testing.F) {
	ev.FuzzProp(f, map[string]func(*testing.T){
		"TestProp_Accept":          TestProp_Accept,
		"TestProp_Flat":            TestProp_Flat,
		"TestProp_RejectBracket":   TestProp_RejectBracket,
		"TestProp_RejectForbidden": TestProp_RejectForbidden,
		"TestProp_RejectRedeclare": TestProp_RejectRedeclare,
	})
}
