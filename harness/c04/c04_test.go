package c04

import (
	"fmt"
	"reflect"
	"regexp"
	"sort"
	"strings"
	"testing"

	"github.com/tdewolff/parse/v2"
	"github.com/tdewolff/parse/v2/js"
	"pgregory.net/rapid"

	"verif/internal/ev"
)

func TestMain(m *testing.M) { ev.Main(m, "C04") }

type fataler interface {
	Fatalf(format string, args ...any)
}

var scopeT = reflect.TypeOf(js.Scope{})

// scopesOf collects every Scope struct embedded in the tree (not following Parent/Func pointers)
func scopesOf(ast *js.AST) []*js.Scope {
	var out []*js.Scope
	seen := map[uintptr]bool{}
	var walk func(v reflect.Value)
	walk = func(v reflect.Value) {
		switch v.Kind() {
		case reflect.Ptr:
			if v.IsNil() || seen[v.Pointer()] {
				return
			}
			seen[v.Pointer()] = true
			walk(v.Elem())
		case reflect.Interface:
			if !v.IsNil() {
				walk(v.Elem())
			}
		case reflect.Struct:
			if v.Type() == scopeT {
				if v.CanAddr() {
					out = append(out, v.Addr().Interface().(*js.Scope))
				}
				return
			}
			for i := 0; i < v.NumField(); i++ {
				if v.Type().Field(i).IsExported() {
					walk(v.Field(i))
				}
			}
		case reflect.Slice:
			if v.Type().Elem().Kind() == reflect.Uint8 {
				return
			}
			for i := 0; i < v.Len(); i++ {
				walk(v.Index(i))
			}
		}
	}
	walk(reflect.ValueOf(ast))
	return out
}

var freshRe = regexp.MustCompile(`^[DG][0-9]+$`)

// observe renames every declared Var to D<i> and every undeclared Var of the outermost scope to G<i>, prints the tree
// and returns the sequence of fresh names in the printed text plus the Uses of each renamed Var
func observe(t fataler, src string, ast *js.AST) ([]string, map[string]int, string) {
	uses := map[string]int{}
	n := 0
	seen := map[*js.Var]bool{}
	for _, s := range scopesOf(ast) {
		for _, v := range s.Declared {
			if seen[v] {
				continue
			}
			seen[v] = true
			name := fmt.Sprintf("D%d", n)
			n++
			v.Data = []byte(name)
			uses[name] = int(v.Uses)
		}
	}
	for _, v := range ast.BlockStmt.Scope.Undeclared {
		if seen[v] || v.Decl != js.NoDecl {
			continue
		}
		seen[v] = true
		name := fmt.Sprintf("G%d", n)
		n++
		v.Data = []byte(name)
		uses[name] = int(v.Uses)
	}
	out := ast.JSString()
	var seq []string
	l := js.NewLexer(parse.NewInputString(out))
	for {
		tt, data := l.Next()
		if tt == js.ErrorToken {
			if data == nil {
				break
			}
			continue
		}
		if tt == js.IdentifierToken && freshRe.Match(data) {
			seq = append(seq, string(data))
		}
	}
	return seq, uses, out
}

var shortDefaultRe = regexp.MustCompile(`\b([a-fz]|event|undefined|eval|window|self|globalThis|name): ([a-fz]|event|undefined|eval|window|self|globalThis|name) = `)
var poolRe = regexp.MustCompile(`^([a-fz]|event|undefined|eval|window|self|globalThis|name)$`) // the name pool and the name that is bound nowhere

// opts: the Options under which the programs of the current case are parsed (scoping is the same under all of them)
var opts js.Options

func checkProgram(t fataler, prog []node) (*resolver, string) {
	src, short := sourceShort(prog)
	ast, err := js.Parse(parse.NewInputString(src), opts)
	if err != nil {
		t.Fatalf("generated program rejected:\n%s\n%v", src, err)
	}
	r := resolveProgram(prog)
	orig := ast.String()
	seq, uses, out := observe(t, src, ast)
	if len(seq) != len(r.occ) {
		t.Fatalf("program:\n%s\nprints after renaming as:\n%s\nwith %d renamed identifiers, the program has %d identifier occurrences (model: %v)", src, out, len(seq), len(r.occ), r.occ)
	}
	byID := map[int]string{}
	byFree := map[string]string{}
	byName := map[string]string{}
	count := map[string]int{}
	for i, o := range r.occ {
		got := seq[i]
		count[got]++
		key := fmt.Sprintf("binding %d (%s)", o.id, o.name)
		if o.id >= 0 {
			if got[0] != 'D' {
				t.Fatalf("program:\n%s\nrenamed:\n%s\noccurrence %d (%s) denotes a declared binding but is an undeclared variable %s of the outermost scope", src, out, i, o.name, got)
			}
			if prev, ok := byID[o.id]; ok && prev != got {
				t.Fatalf("program:\n%s\nrenamed:\n%s\noccurrence %d of %s denotes the same binding as an earlier occurrence but has a different Var (%s vs %s)", src, out, i, o.name, got, prev)
			}
			byID[o.id] = got
		} else {
			if got[0] != 'G' {
				t.Fatalf("program:\n%s\nrenamed:\n%s\noccurrence %d of %s is bound nowhere but resolves to the declared Var %s", src, out, i, o.name, got)
			}
			if prev, ok := byFree[o.name]; ok && prev != got {
				t.Fatalf("program:\n%s\nrenamed:\n%s\nthe free name %s has two different Vars (%s vs %s)", src, out, o.name, got, prev)
			}
			byFree[o.name] = got
			key = "free " + o.name
		}
		if prev, ok := byName[got]; ok && prev != key {
			t.Fatalf("program:\n%s\nrenamed:\n%s\nVar %s is shared by two different bindings: %s and %s", src, out, got, prev, key)
		}
		byName[got] = key
	}
	for name, c := range count {
		if uses[name] != c {
			t.Fatalf("program:\n%s\nrenamed:\n%s\nVar %s has Uses=%d but its name is printed %d times", src, out, name, uses[name], c)
		}
	}
	// the renamed program is itself a valid program
	if _, err := js.Parse(parse.NewInputString(out), opts); err != nil {
		t.Fatalf("program:\n%s\nthe renamed program is rejected:\n%s\n%v", src, out, err)
	}
	// alpha-equivalence in full: with every fresh name replaced by the name the occurrence had, the renamed text is the
	// original program again (same tree: everything that is not a renamed identifier, property keys included, is unchanged)
	var back strings.Builder
	var kept []string // identifiers of the name pool that are still there: the keys of shorthand properties, nothing else
	l := js.NewLexer(parse.NewInputString(out))
	for i := 0; ; {
		tt, data := l.Next()
		if tt == js.ErrorToken {
			if data == nil {
				break
			}
			continue
		}
		if tt == js.IdentifierToken && freshRe.Match(data) {
			back.WriteString(r.occ[i].name)
			i++
		} else {
			if tt == js.IdentifierToken && poolRe.Match(data) {
				kept = append(kept, string(data))
			}
			back.Write(data)
		}
	}
	if strings.Join(kept, ",") != strings.Join(short, ",") {
		t.Fatalf("program:\n%s\nrenamed:\n%s\nthe names that are not renamed are %v; the keys of the shorthand properties, which must stay, are %v", src, out, kept, short)
	}
	// a shorthand property with a default value, {a = 1}, is printed with its key once the variable has another name,
	// {a: D0 = 1}; with the name put back that reads {a: a = 1}, which is the same property written in full (keys of the
	// name pool only come from shorthand properties, the generator's own keys are p and q)
	backText := shortDefaultRe.ReplaceAllStringFunc(back.String(), func(m string) string {
		if i := strings.Index(m, ": "); m[:i] == m[i+2:len(m)-3] {
			return m[i+2:]
		}
		return m
	})
	back.Reset()
	back.WriteString(backText)
	ast2, err := js.Parse(parse.NewInputString(back.String()), opts)
	if err != nil {
		t.Fatalf("program:\n%s\nrenamed:\n%s\nwith the original names put back it is rejected:\n%s\n%v", src, out, back.String(), err)
	}
	if got := ast2.String(); got != orig {
		t.Fatalf("program:\n%s\nrenamed:\n%s\nwith the original names put back:\n%s\nis a different program:\n%s\nthe original tree is\n%s", src, out, back.String(), got, orig)
	}
	return r, src
}

func TestProp_Scoping(t *testing.T) {
	known := ev.KnownFindings("C04")
	ev.Describe("scoping", "closed-form programs over a pool of six names: arbitrary nesting of functions, arrows, methods, static blocks, blocks, if/while/for/for-in/for-of/switch/try-catch, class and function declarations and expressions, var/let/const with destructuring patterns and defaults, parameters with defaults and rest, catch parameters, destructuring assignments, object shorthands and parenthesised arrow look-alikes; redeclaration legality by construction; oracle: an independent two-pass resolver of the ECMAScript scoping rules lists the binding of every identifier occurrence in source order; after renaming every Declared Var to D<i> and every undeclared Var of the outermost scope to G<i> and printing, the sequence of fresh names must induce a bijection binding <-> name (same binding <=> same Var, free <=> G), Uses == number of printed occurrences, and the renamed text re-parses; non-trivial = >= 2 scopes and a shadowing, a reference to a later var/function declaration, a closure over a local binding or an arrow look-alike")
	_, k1 := known["K-C04-1"]
	_, k2 := known["K-C04-2"]
	_, k3 := known["K-C04-3"]
	ev.Check(t, 10000, func(t *rapid.T) {
		g := &generator{t: t, s: newG(nil, true), forbid: map[string]int{}, excluded: map[string]int{}, classes: map[string]int{}, known: map[string]bool{"K-C04-1": k1, "K-C04-2": k2, "K-C04-3": k3}}
		prog := g.stmtList(rapid.IntRange(1, 5).Draw(t, "nstmts"), true)
		if len(prog) == 0 {
			prog = []node{&exprStmt{e: g.ref()}}
		}
		if rapid.IntRange(0, 149).Draw(t, "deeprefs") == 0 {
			// one case in 150 ends in a nest of 20-160 scopes with a reference in each
			prog = append(prog, g.deepRefs())
		}
		opts = js.Options{Inline: rapid.IntRange(0, 3).Draw(t, "inline") == 0}
		defer func() { opts = js.Options{} }()
		if !opts.Inline {
			// a module: declarations at the top level may be exported
			for _, st := range prog {
				if rapid.IntRange(0, 3).Draw(t, "export") != 0 {
					continue
				}
				switch x := st.(type) {
				case *varDecl:
					x.export = true
				case *funcDecl:
					x.export = true
				case *classDec:
					x.export = true
				}
				g.classes["export"]++
			}
		}
		if rapid.IntRange(0, 3).Draw(t, "failedparse") == 0 {
			// an earlier call that failed in the middle of a construct leaves nothing behind: a proper prefix of this
			// program or an open arrow-function look-alike is parsed (and rejected) first
			bad := rapid.SampledFrom([]string{"({a}", "([a, b]", "(a = 1", "(a = )", "x = {a, b", "function f(a = b", "class A { m(a", "for (let a of", "`${a", "async (a, b", "try{}catch(a", "x = a => {"}).Draw(t, "poison")
			if rapid.Bool().Draw(t, "prefix") {
				whole := source(prog)
				bad = whole[:rapid.IntRange(0, len(whole)).Draw(t, "cut")]
			}
			js.Parse(parse.NewInputString(bad), js.Options{})
			g.classes["after-failed-parse"]++
		}
		r, src := checkProgram(t, prog)
		for k, n := range g.excluded {
			for ; n > 0; n-- {
				ev.Excluded("scoping", k)
			}
		}
		var cls []string
		for c := range g.classes {
			cls = append(cls, c)
		}
		sort.Strings(cls)
		if r.shadow > 0 {
			cls = append(cls, "shadowing")
		}
		free := 0
		for _, o := range r.occ {
			if o.id < 0 {
				free++
			}
		}
		if free > 0 {
			cls = append(cls, "free-names")
		}
		nt := r.nextID >= 2 && (r.shadow > 0 || g.classes["arrow-lookalike"] > 0 || g.classes["funcdecl"] > 0 || g.classes["arrow"] > 0) && strings.Count(src, "{") >= 2
		ev.Case("scoping", src, nt, cls...)
	})
}
