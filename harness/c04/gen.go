package c04

import (
	"pgregory.net/rapid"
)

// Generator of closed-form programs: declarations and references use a small name pool, so that shadowing,
// redeclaration, use-before-declaration and hoisting through nested blocks happen often; the legality rules of
// ECMAScript for redeclarations are respected by construction (Scope.Declare must never reject a generated program).

var pool = []string{"a", "b", "c", "d", "e", "f"}

type gscope struct {
	parent      *gscope
	isFunc      bool            // function-level scope: target of var hoisting
	lexical     map[string]bool // let/const/class (and block-level function) names of this block
	varsThrough map[string]bool // var/function names declared in this block or hoisted through it
	params      map[string]bool // parameters (function-level scope) or catch parameters (catch scope)
	headNames   map[string]bool // body block of a for statement: names declared in the head of the loop
	refsSeen    map[string]bool // names referenced so far while this scope was open (here or in nested scopes)
}

func newG(parent *gscope, isFunc bool) *gscope {
	return &gscope{parent: parent, isFunc: isFunc, lexical: map[string]bool{}, varsThrough: map[string]bool{}, params: map[string]bool{}, refsSeen: map[string]bool{}}
}

type generator struct {
	t         *rapid.T
	s         *gscope
	depth     int
	inFunc    int
	forbid    map[string]int // names that must not be mentioned at all (exclusion of the known findings / for-of heads)
	excluded  map[string]int
	classes   map[string]int
	known     map[string]bool // listed known findings: their classes are not generated
	paramUsed map[string]bool // set while the patterns of a parameter list are generated: names bound so far
}

func (g *generator) push(isFunc bool) { g.s = newG(g.s, isFunc) }
func (g *generator) pop()             { g.s = g.s.parent }

func (g *generator) name(label string) string {
	for i := 0; i < 20; i++ {
		n := rapid.SampledFrom(pool).Draw(g.t, label)
		if g.forbid[n] == 0 {
			return n
		}
	}
	return "z" // every pool name is forbidden here: a name that is bound nowhere
}

func (g *generator) canLexical(n string) bool {
	if g.known["K-C04-3"] && g.s.headNames[n] && g.s.refsSeen[n] {
		// K-C04-3: a name declared in the head of a for statement is not declared again at the top level of the body
		// behind a reference to it
		g.excluded["K-C04-3"]++
		return false
	}
	return !g.s.lexical[n] && !g.s.varsThrough[n] && !g.s.params[n] && g.forbid[n] == 0
}

func (g *generator) canVar(n string) bool {
	if g.forbid[n] > 0 {
		return false
	}
	for s := g.s; s != nil; s = s.parent {
		if s.lexical[n] {
			return false
		}
		if !s.isFunc && s.params[n] {
			return false // a catch parameter: var e inside catch(e) denotes two bindings (Annex B.3.5), not generated
		}
		if s.isFunc {
			break
		}
	}
	return true
}

func (g *generator) markVar(n string) {
	for s := g.s; s != nil; s = s.parent {
		s.varsThrough[n] = true
		if s.isFunc {
			break
		}
	}
}

// lexName / varName draw a name that may legally be declared here ("" if none found)
func (g *generator) lexName() string {
	for i := 0; i < 8; i++ {
		if n := g.name("lexname"); n != "z" && g.canLexical(n) {
			g.s.lexical[n] = true
			return n
		}
	}
	return ""
}

func (g *generator) varName() string {
	for i := 0; i < 8; i++ {
		if n := g.name("varname"); n != "z" && g.canVar(n) {
			g.markVar(n)
			return n
		}
	}
	return ""
}

// names that no program of the generator declares: they stay free wherever they are written
var freeNames = []string{"event", "undefined", "eval", "window", "self", "globalThis", "name"}

func (g *generator) ref() *ref {
	if rapid.IntRange(0, 11).Draw(g.t, "freename") == 0 {
		g.classes["free-special-name"]++
		return &ref{name: rapid.SampledFrom(freeNames).Draw(g.t, "free")}
	}
	n := g.name("ref")
	for s := g.s; s != nil; s = s.parent {
		s.refsSeen[n] = true
	}
	return &ref{name: n}
}

// forBody generates the body block of a for statement whose head declares the names of heads
func (g *generator) forBody(n int, heads ...node) []node {
	g.push(false)
	defer g.pop()
	var ns []string
	for _, h := range heads {
		if v, ok := h.(*varDecl); ok {
			for _, d := range v.decls {
				patNames(d.target, &ns)
			}
		} else if h != nil {
			patNames(h, &ns)
		}
	}
	g.s.headNames = map[string]bool{}
	for _, nm := range ns {
		g.s.headNames[nm] = true
	}
	return g.stmtList(n, false)
}

func (g *generator) chance(label string, n int) bool {
	return rapid.IntRange(0, n-1).Draw(g.t, label) == 0
}

// bindingPattern: declaration pattern; names come from mk (which registers them in the right scope)
func (g *generator) bindingPattern(mk func() string, allowPattern bool) node {
	if !allowPattern || g.depth > 3 || !g.chance("pattern", 4) {
		n := mk()
		if n == "" {
			return nil
		}
		return &decl{name: n}
	}
	g.depth++
	defer func() { g.depth-- }()
	p := &pattern{object: g.chance("objpat", 2)}
	for k := rapid.IntRange(1, 3).Draw(g.t, "npat"); k > 0; k-- {
		t := g.bindingPattern(mk, true)
		if t == nil {
			continue
		}
		e := patElem{target: t}
		if p.object {
			e.key = "p"
			if d, ok := t.(*decl); ok && g.chance("shorthand", 2) {
				_ = d
				e.key = ""
			}
			if _, isDecl := t.(*decl); !isDecl {
				e.key = "q"
			}
		}
		if g.chance("default", 3) {
			if g.paramUsed != nil && g.known["K-C04-1"] {
				// K-C04-1: inside a parameter pattern a default value only mentions parameters declared before it
				// (names that a later element of the list may still bind are not known yet: all other pool names are left out)
				var out []string
				for _, n := range pool {
					if !g.paramUsed[n] {
						out = append(out, n)
						g.forbid[n]++
					}
				}
				g.excluded["K-C04-1"]++
				saved := g.paramUsed
				g.paramUsed = nil // nested functions inside the default have parameter lists of their own
				e.def = g.expr()
				g.paramUsed = saved
				for _, n := range out {
					g.forbid[n]--
				}
			} else {
				saved := g.paramUsed
				g.paramUsed = nil
				e.def = g.expr()
				g.paramUsed = saved
			}
		}
		p.elems = append(p.elems, e)
	}
	if g.chance("rest", 4) {
		if n := mk(); n != "" {
			p.rest = &decl{name: n}
		}
	}
	if len(p.elems) == 0 && p.rest == nil {
		n := mk()
		if n == "" {
			return nil
		}
		return &decl{name: n}
	}
	return p
}

func (g *generator) function(kind string) *function {
	g.depth++
	defer func() { g.depth-- }()
	g.push(true)
	defer g.pop()
	g.inFunc++
	defer func() { g.inFunc-- }()
	f := &function{}
	used := map[string]bool{}
	mk := func() string {
		for i := 0; i < 8; i++ {
			if n := g.name("param"); n != "z" && !used[n] {
				used[n] = true
				g.s.params[n] = true
				return n
			}
		}
		return ""
	}
	n := rapid.IntRange(0, 3).Draw(g.t, "nparams")
	targets := []node{}
	savedUsed := g.paramUsed
	g.paramUsed = used
	for i := 0; i < n; i++ {
		if t := g.bindingPattern(mk, true); t != nil {
			targets = append(targets, t)
		}
	}
	g.paramUsed = savedUsed
	if g.chance("restparam", 5) {
		if nm := mk(); nm != "" {
			f.rest = &decl{name: nm}
		}
	}
	// default values: K-C04-1 excludes the names of later parameters
	var laterOf = func(i int) []string {
		var ns []string
		for _, t := range targets[i+1:] {
			patNames(t, &ns)
		}
		if f.rest != nil {
			patNames(f.rest, &ns)
		}
		return ns
	}
	for i, t := range targets {
		e := patElem{target: t}
		if g.chance("paramdefault", 3) {
			var later []string
			if g.known["K-C04-1"] {
				later = laterOf(i)
			}
			for _, nm := range later {
				g.forbid[nm]++
			}
			if len(later) > 0 {
				g.excluded["K-C04-1"]++
			}
			savedPU := g.paramUsed
			g.paramUsed = nil
			e.def = g.expr()
			g.paramUsed = savedPU
			for _, nm := range later {
				g.forbid[nm]--
			}
			g.classes["param-default"]++
		}
		f.params = append(f.params, e)
	}
	if kind == "arrow" && g.chance("concise", 2) {
		f.expr = g.expr()
		return f
	}
	f.body = g.stmtList(rapid.IntRange(0, 4).Draw(g.t, "nbody"), true)
	return f
}

func (g *generator) class() *class {
	g.depth++
	defer func() { g.depth-- }()
	c := &class{}
	if g.chance("extends", 3) {
		c.extends = g.ref()
	}
	for k := rapid.IntRange(0, 3).Draw(g.t, "nmembers"); k > 0; k-- {
		switch rapid.IntRange(0, 3).Draw(g.t, "member") {
		case 0, 1:
			c.members = append(c.members, classMember{kind: "method", key: "m", fn: g.function("method")})
		case 2:
			m := classMember{kind: "field", key: "fld"}
			if g.chance("init", 2) {
				g.push(true)
				m.init = g.expr()
				g.pop()
			}
			c.members = append(c.members, m)
		case 3:
			g.push(true)
			savedIn := g.inFunc
			g.inFunc = 0 // no return in a static block
			c.members = append(c.members, classMember{kind: "static", body: g.stmtList(rapid.IntRange(0, 3).Draw(g.t, "nstatic"), false)})
			g.inFunc = savedIn
			g.pop()
		}
	}
	g.classes["class"]++
	return c
}

func (g *generator) expr() node {
	g.depth++
	defer func() { g.depth-- }()
	k := rapid.IntRange(0, 15).Draw(g.t, "expr")
	if g.depth > 4 && k > 4 {
		k = k % 5
	}
	switch k {
	case 0, 1, 2, 3:
		return g.ref()
	case 4:
		return &lit{text: rapid.SampledFrom([]string{"1", "'s'", "null"}).Draw(g.t, "lit")}
	case 5:
		return &binary{op: rapid.SampledFrom([]string{"+", "||", "<", ","}).Draw(g.t, "op"), a: g.expr(), b: g.expr()}
	case 6:
		if g.chance("patternassign", 3) {
			p := &pattern{object: g.chance("objpat", 2)}
			for n := rapid.IntRange(1, 2).Draw(g.t, "npat"); n > 0; n-- {
				e := patElem{target: g.ref()}
				if p.object && g.chance("keyed", 2) {
					e.key = "p"
				}
				if g.chance("patdefault", 3) {
					// ({a = 1} = o): a shorthand target with a default value keeps its key when the variable is renamed
					e.def = g.expr()
					g.classes["assign-pattern-default"]++
				}
				p.elems = append(p.elems, e)
			}
			g.classes["assign-pattern"]++
			return &assign{target: p, value: g.expr()}
		}
		return &assign{target: g.ref(), value: g.expr()}
	case 7:
		c := &call{f: g.ref()}
		for n := rapid.IntRange(0, 2).Draw(g.t, "nargs"); n > 0; n-- {
			a := g.expr()
			if g.chance("barearg", 2) {
				// an argument needs no parentheses of its own
				switch x := a.(type) {
				case *funcExp:
					x.bare = true
				case *arrow:
					x.bare = true
				case *classEx:
					x.bare = true
				}
			}
			c.args = append(c.args, a)
		}
		return c
	case 8:
		return &member{obj: g.expr(), prop: "p"}
	case 9:
		// a parenthesised expression that looks like an arrow function head
		gr := &group{}
		for n := rapid.IntRange(1, 3).Draw(g.t, "ngroup"); n > 0; n-- {
			switch rapid.IntRange(0, 5).Draw(g.t, "groupitem") {
			case 4, 5:
				// a literal that could be a binding pattern, continued by a member call whose argument is a function, arrow
				// function or class with bare names inside literals in its body: ([a].p(function(){ [b, {c, q: d}] }))
				var lit node = &array{items: []node{g.ref()}}
				if g.chance("grouplitobj", 2) {
					lit = &object{props: []objProp{{shorthand: g.ref()}}}
				} else if g.chance("grouplitempty", 3) {
					lit = &array{}
				}
				var inner node
				bodyLit := func() node {
					return &exprStmt{e: &array{items: []node{g.ref(), &object{props: []objProp{{shorthand: g.ref()}, {key: "q", value: g.ref()}}}}}}
				}
				switch rapid.IntRange(0, 2).Draw(g.t, "groupinner") {
				case 0:
					fe := &funcExp{fn: g.function("function"), bare: true}
					fe.fn.body = append(fe.fn.body, bodyLit())
					inner = fe
				case 1:
					ar := &arrow{fn: g.function("arrow"), bare: true}
					if ar.fn.expr != nil {
						ar.fn.expr = &array{items: []node{g.ref(), ar.fn.expr}}
					} else {
						ar.fn.body = append(ar.fn.body, bodyLit())
					}
					inner = ar
				default:
					o := &object{}
					m := g.methodProp()
					m.method.body = append(m.method.body, bodyLit())
					o.props = append(o.props, m)
					inner = &call{f: g.ref(), args: []node{o}}
				}
				gr.items = append(gr.items, &call{f: &member{obj: lit, prop: "p"}, args: []node{inner}})
				g.classes["arrow-lookalike-nested-function"]++
			case 0:
				gr.items = append(gr.items, g.ref())
			case 1:
				gr.items = append(gr.items, &assign{target: g.ref(), value: g.expr()})
			case 2:
				o := &object{}
				o.props = append(o.props, objProp{shorthand: g.ref()}, objProp{key: "p", value: g.ref()})
				if g.chance("groupmethod", 2) {
					o.props = append(o.props, g.methodProp())
				}
				gr.items = append(gr.items, o)
			case 3:
				gr.items = append(gr.items, &array{items: []node{g.ref(), g.ref()}})
			}
		}
		g.classes["arrow-lookalike"]++
		return gr
	case 10:
		o := &object{}
		for n := rapid.IntRange(0, 3).Draw(g.t, "nprops"); n > 0; n-- {
			switch rapid.IntRange(0, 4).Draw(g.t, "propkind") {
			case 0, 1:
				o.props = append(o.props, objProp{shorthand: g.ref()})
			case 2:
				o.props = append(o.props, g.methodProp())
			default:
				o.props = append(o.props, objProp{key: "q", value: g.expr()})
			}
		}
		return o
	case 11:
		a := &array{}
		for n := rapid.IntRange(0, 3).Draw(g.t, "nitems"); n > 0; n-- {
			a.items = append(a.items, g.expr())
		}
		return a
	case 12:
		fe := &funcExp{}
		if g.chance("named", 2) {
			fe.name = &decl{name: g.name("fname")}
			if fe.name.name == "z" {
				fe.name = nil
			}
			g.classes["named-funcexpr"]++
		}
		fe.fn = g.function("function")
		return fe
	case 13, 14:
		g.classes["arrow"]++
		return &arrow{fn: g.function("arrow")}
	case 15:
		ce := &classEx{}
		if g.chance("named", 2) {
			if g.known["K-C04-2"] {
				// K-C04-2: the name of a class expression is declared in no scope: generated without a name
				g.excluded["K-C04-2"]++
			} else if n := g.name("cname"); n != "z" {
				ce.name = &decl{name: n}
				g.classes["named-classexpr"]++
			}
		}
		ce.cls = g.class()
		return ce
	}
	return g.ref()
}

// methodProp: a method, getter or setter of an object literal; its body mentions outer names inside literals
func (g *generator) methodProp() objProp {
	g.classes["object-method"]++
	kind := rapid.SampledFrom([]string{"", "", "get", "set"}).Draw(g.t, "accessor")
	f := g.function("method")
	switch kind {
	case "get":
		f.params, f.rest = nil, nil
	case "set":
		f.rest = nil
		if len(f.params) == 0 {
			f.params = []patElem{{target: &decl{name: "v"}}}
		}
		f.params = f.params[:1]
		f.params[0].def = nil
	}
	if g.chance("literalbody", 2) {
		// the shapes a speculative arrow-head parse treats specially: bare names inside array and object literals
		f.body = append(f.body, &exprStmt{e: &array{items: []node{g.ref(), &object{props: []objProp{{shorthand: g.ref()}, {key: "q", value: g.ref()}}}}}})
	}
	return objProp{key: "m", method: f, accessor: kind}
}

func (g *generator) block(n int) []node {
	g.push(false)
	defer g.pop()
	return g.stmtList(n, false)
}

// stmtList generates statements in the current scope
func (g *generator) stmtList(n int, funcBody bool) []node {
	out := []node{}
	if g.depth > 5 {
		n = 1
	}
	for i := 0; i < n; i++ {
		if s := g.stmt(); s != nil {
			out = append(out, s)
		}
	}
	return out
}

func (g *generator) declList(kind string, mk func() string) *varDecl {
	v := &varDecl{kind: kind}
	for k := rapid.IntRange(1, 2).Draw(g.t, "ndecls"); k > 0; k-- {
		t := g.bindingPattern(mk, true)
		if t == nil {
			continue
		}
		e := patElem{target: t}
		_, simple := t.(*decl)
		if !simple || kind == "const" || g.chance("init", 2) {
			e.def = g.expr()
		}
		v.decls = append(v.decls, e)
	}
	if len(v.decls) == 0 {
		return nil
	}
	return v
}

// deepRefs: d nested blocks (or functions), each with a reference to the same name in front of the next one: the binding
// is d scopes away from its last reference
func (g *generator) deepRefs() node {
	d := rapid.SampledFrom([]int{20, 100, 127, 128, 129, 130, 160}).Draw(g.t, "deepdepth")
	r := g.ref()
	funcs := rapid.Bool().Draw(g.t, "deepfuncs")
	var inner node = &exprStmt{e: &ref{name: r.name}}
	for i := 0; i < d; i++ {
		body := []node{&exprStmt{e: &ref{name: r.name}}, inner}
		if funcs {
			inner = &exprStmt{e: &call{f: &group{items: []node{&funcExp{fn: &function{body: body}}}}}}
		} else {
			inner = &block{body: body}
		}
	}
	g.classes["deep-references"]++
	return inner
}

func (g *generator) stmt() node {
	g.depth++
	defer func() { g.depth-- }()
	k := rapid.IntRange(0, 17).Draw(g.t, "stmt")
	if g.depth > 5 {
		k = 17
	}
	switch k {
	case 0, 1:
		g.classes["var"]++
		if v := g.declList("var", g.varName); v != nil {
			return v
		}
	case 2, 3:
		g.classes["let"]++
		if v := g.declList(rapid.SampledFrom([]string{"let", "const"}).Draw(g.t, "lexkind"), g.lexName); v != nil {
			return v
		}
	case 4, 5:
		// function declaration: hoists to the enclosing function; inside a nested block it is also a lexical name there
		var n string
		if g.s.isFunc {
			n = g.varName()
		} else {
			for i := 0; i < 8 && n == ""; i++ {
				c := g.name("fname")
				if c != "z" && g.canLexical(c) && g.canVar(c) {
					n = c
					g.s.lexical[c] = true
					g.markVar(c)
					g.classes["function-in-block"]++
				}
			}
		}
		if n != "" {
			g.classes["funcdecl"]++
			return &funcDecl{name: &decl{name: n}, fn: g.function("function")}
		}
	case 6:
		if n := g.lexName(); n != "" {
			g.classes["classdecl"]++
			return &classDec{name: &decl{name: n}, cls: g.class()}
		}
	case 7:
		g.classes["block"]++
		return &block{body: g.block(rapid.IntRange(0, 3).Draw(g.t, "nblock"))}
	case 8:
		s := &ifStmt{cond: g.expr(), then: g.block(rapid.IntRange(0, 2).Draw(g.t, "nthen"))}
		if g.chance("else", 2) {
			s.els = g.block(rapid.IntRange(0, 2).Draw(g.t, "nelse"))
		}
		return s
	case 9:
		// for (init; cond; post) body: let/const live in the head scope
		g.push(false)
		defer g.pop()
		s := &forStmt{}
		switch rapid.IntRange(0, 3).Draw(g.t, "forinit") {
		case 0:
			if v := g.declList("var", g.varName); v != nil {
				s.init = v
			}
		case 1:
			if v := g.declList("let", g.lexName); v != nil {
				s.init = v
				g.classes["for-let"]++
			}
		case 2:
			s.init = g.expr()
		}
		if g.chance("cond", 2) {
			s.cond = g.expr()
		}
		if g.chance("post", 2) {
			s.post = g.expr()
		}
		s.body = g.forBody(rapid.IntRange(0, 3).Draw(g.t, "nforbody"), s.init)
		return s
	case 10:
		g.push(false)
		defer g.pop()
		s := &forIn{of: g.chance("of", 2)}
		rhs := g.expr() // written behind the head but generated first: it must not mention the let names of the head
		switch rapid.IntRange(0, 2).Draw(g.t, "forlhs") {
		case 0:
			s.kind = "var"
			s.lhs = g.bindingPattern(g.varName, true)
		case 1:
			s.kind = rapid.SampledFrom([]string{"let", "const"}).Draw(g.t, "forkind")
			s.lhs = g.bindingPattern(g.lexName, true)
			g.classes["forin-let"]++
		}
		if s.lhs == nil {
			s.kind = ""
			s.lhs = g.ref()
		}
		if s.kind == "let" || s.kind == "const" {
			var ns []string
			patNames(s.lhs, &ns)
			if mentions(rhs, ns) {
				rhs = &lit{text: "1"}
			}
		}
		s.rhs = rhs
		var head node
		if s.kind != "" {
			head = s.lhs
		}
		s.body = g.forBody(rapid.IntRange(0, 3).Draw(g.t, "nforbody"), head)
		return s
	case 11:
		return &while{cond: g.expr(), body: g.block(rapid.IntRange(0, 2).Draw(g.t, "nwhile"))}
	case 12:
		s := &try{body: g.block(rapid.IntRange(0, 2).Draw(g.t, "ntry"))}
		mode := rapid.IntRange(0, 2).Draw(g.t, "trymode")
		if mode != 2 {
			s.hasCatch = true
			g.push(false)
			if g.chance("catchparam", 1) || true {
				if g.chance("hasparam", 4) == false {
					used := map[string]bool{}
					s.param = g.bindingPattern(func() string {
						for i := 0; i < 8; i++ {
							if n := g.name("catchparam"); n != "z" && !used[n] {
								used[n] = true
								g.s.params[n] = true
								return n
							}
						}
						return ""
					}, true)
					g.classes["catch-param"]++
				}
			}
			s.catch = g.stmtList(rapid.IntRange(0, 3).Draw(g.t, "ncatch"), false)
			g.pop()
		}
		if mode != 0 {
			s.finally = g.block(rapid.IntRange(0, 2).Draw(g.t, "nfinally"))
		}
		return s
	case 13:
		g.push(false)
		defer g.pop()
		s := &switchSt{expr: g.expr()}
		for n := rapid.IntRange(0, 3).Draw(g.t, "ncases"); n > 0; n-- {
			c := switchCase{}
			if !g.chance("default", 4) {
				c.test = g.expr()
			}
			c.body = g.stmtList(rapid.IntRange(0, 2).Draw(g.t, "ncasebody"), false)
			s.cases = append(s.cases, c)
		}
		// at most one default clause
		seen := false
		for i := range s.cases {
			if s.cases[i].test == nil {
				if seen {
					s.cases[i].test = &lit{text: "2"}
				}
				seen = true
			}
		}
		g.classes["switch"]++
		return s
	case 14:
		if g.inFunc > 0 {
			return &retStmt{e: g.expr()}
		}
	}
	return &exprStmt{e: g.expr()}
}

// mentions: does the expression mention any of the names (as a reference or a declaration)?
func mentions(n node, names []string) bool {
	found := false
	r := &resolver{}
	defer func() { recover() }()
	// cheap: print it and look at the identifiers
	p := &printer{}
	func() {
		defer func() { recover() }()
		p.expr(n)
	}()
	_ = r
	text := " " + p.sb.String() + " "
	for _, nm := range names {
		for i := 0; i+len(nm) <= len(text); i++ {
			if text[i:i+len(nm)] == nm && !isWord(text[i-1+0:i]) && !isWord(text[i+len(nm):i+len(nm)+1]) {
				found = true
			}
		}
	}
	return found
}

func isWord(s string) bool {
	if s == "" {
		return false
	}
	c := s[0]
	return c >= 'a' && c <= 'z' || c >= 'A' && c <= 'Z' || c >= '0' && c <= '9' || c == '_' || c == '$'
}
