package c04

import (
	"strings"
	"testing"

	"verif/internal/ev"
)

type collect struct{ msgs []string }

func (c *collect) Fatalf(format string, args ...any) {
	c.msgs = append(c.msgs, format)
	panic(c)
}

func fails(prog []node) (failed bool) {
	c := &collect{}
	defer func() {
		if r := recover(); r != nil {
			if r == any(c) {
				failed = true
				return
			}
			panic(r)
		}
	}()
	checkProgram(c, prog)
	return false
}

// K-C04-1: function a(b = c, c) {}  -- c in the default value of an earlier parameter is the parameter c
func progLaterParam() []node {
	f := &function{params: []patElem{{target: &decl{name: "b"}, def: &ref{name: "c"}}, {target: &decl{name: "c"}}}, body: []node{}}
	return []node{&funcDecl{name: &decl{name: "a"}, fn: f}}
}

// K-C04-2: x = class C { m() { C } }  -- C inside the class expression is the class expression's own name
func progClassExprName() []node {
	m := classMember{kind: "method", key: "m", fn: &function{body: []node{&exprStmt{e: &ref{name: "C"}}}}}
	return []node{&exprStmt{e: &assign{target: &ref{name: "x"}, value: &classEx{name: &decl{name: "C"}, cls: &class{members: []classMember{m}}}}}}
}

// K-C04-3: for (var a of b) { a; let a }  -- a in the body is the let of the body (in its temporal dead zone)
func progForBodyShadow() []node {
	body := []node{&exprStmt{e: &ref{name: "a"}}, &varDecl{kind: "let", decls: []patElem{{target: &decl{name: "a"}}}}}
	return []node{&forIn{of: true, kind: "var", lhs: &decl{name: "a"}, rhs: &ref{name: "b"}, body: body}}
}

func TestKnown_Scoping(t *testing.T) {
	known := ev.KnownFindings("C04")
	for key, c := range map[string]struct {
		prog []node
		what string
	}{
		"K-C04-1": {progLaterParam(), "function a(b=c,c){}: c in the default value of the earlier parameter b resolves to an undeclared global, ECMAScript says parameter c"},
		"K-C04-2": {progClassExprName(), "x=class C{m(){C}}: C inside the class expression resolves to an undeclared global, the class expression's name is a Var in no scope"},
		"K-C04-3": {progForBodyShadow(), "for(var a of b){a;let a}: a in the body before the body's own let a resolves to the a declared in the head of the loop (head and body share one Scope)"},
	} {
		bad := fails(c.prog)
		_, listed := known[key]
		switch {
		case bad && listed:
			ev.ReportKnown("C04", key, c.what)
		case bad:
			t.Errorf("%s: %s", key, c.what)
		}
	}
	_ = strings.TrimSpace
}
