package c04

import (
	"fmt"
	"strings"
	"testing"

	"github.com/tdewolff/parse/v2"
	"github.com/tdewolff/parse/v2/js"

	"verif/internal/ev"
)

type collect struct{ msgs []string }

func (c *collect) Fatalf(format string, args ...any) {
	c.msgs = append(c.msgs, format)
	panic(c)
}

func fails(prog []node) (failed bool) {
	c := &collect{}
	defer func() {
		if r := recover(); r != nil {
			if r == any(c) {
				failed = true
				return
			}
			panic(r)
		}
	}()
	checkProgram(c, prog)
	return false
}

// K-C04-1: function a(b = c, c) {}  -- c in the default value of an earlier parameter is the parameter c
func progLaterParam() []node {
	f := &function{params: []patElem{{target: &decl{name: "b"}, def: &ref{name: "c"}}, {target: &decl{name: "c"}}}, body: []node{}}
	return []node{&funcDecl{name: &decl{name: "a"}, fn: f}}
}

// K-C04-2: x = class C { m() { C } }  -- C inside the class expression is the class expression's own name
func progClassExprName() []node {
	m := classMember{kind: "method", key: "m", fn: &function{body: []node{&exprStmt{e: &ref{name: "C"}}}}}
	return []node{&exprStmt{e: &assign{target: &ref{name: "x"}, value: &classEx{name: &decl{name: "C"}, cls: &class{members: []classMember{m}}}}}}
}

// K-C04-3: for (var a of b) { a; let a }  -- a in the body is the let of the body (in its temporal dead zone)
func progForBodyShadow() []node {
	body := []node{&exprStmt{e: &ref{name: "a"}}, &varDecl{kind: "let", decls: []patElem{{target: &decl{name: "a"}}}}}
	return []node{&forIn{of: true, kind: "var", lhs: &decl{name: "a"}, rhs: &ref{name: "b"}, body: body}}
}

// K-C04-4: a name with 65536 occurrences: the uint16 counter wraps
func TestKnown_UsesWrap(t *testing.T) {
	known := ev.KnownFindings("C04")
	src := strings.Repeat("a;", 65536)
	ast, err := js.Parse(parse.NewInputString(src), js.Options{})
	if err != nil {
		t.Fatalf("flat program rejected: %v", err)
	}
	var v *js.Var
	for _, u := range ast.BlockStmt.Scope.Undeclared {
		if string(u.Data) == "a" {
			v = u
		}
	}
	if v == nil {
		t.Fatalf("a is not an undeclared variable of the outermost scope")
	}
	if int(v.Uses) == 65536 {
		return // repaired
	}
	if _, listed := known["K-C04-4"]; listed {
		ev.ReportKnown("C04", "K-C04-4", fmt.Sprintf("\"a;\"*65536: Var.Uses = %d, the name is printed 65536 times (uint16 counter)", v.Uses))
	} else {
		t.Errorf("K-C04-4: \"a;\"*65536: Var.Uses = %d, the name is printed 65536 times", v.Uses)
	}
}

func TestKnown_Scoping(t *testing.T) {
	known := ev.KnownFindings("C04")
	for key, c := range map[string]struct {
		prog []node
		what string
	}{
		"K-C04-1": {progLaterParam(), "function a(b=c,c){}: c in the default value of the earlier parameter b resolves to an undeclared global, ECMAScript says parameter c"},
		"K-C04-2": {progClassExprName(), "x=class C{m(){C}}: C inside the class expression resolves to an undeclared global, the class expression's name is a Var in no scope"},
		"K-C04-3": {progForBodyShadow(), "for(var a of b){a;let a}: a in the body before the body's own let a resolves to the a declared in the head of the loop (head and body share one Scope)"},
	} {
		bad := fails(c.prog)
		_, listed := known[key]
		switch {
		case bad && listed:
			ev.ReportKnown("C04", key, c.what)
		case bad:
			t.Errorf("%s: %s", key, c.what)
		}
	}
	_ = strings.TrimSpace
}

// K-C04-5: 65536 undeclared names used in one parameter list: the uint16 offset NumArgUses wraps
func TestKnown_ArgUsesWrap(t *testing.T) {
	known := ev.KnownFindings("C04")
	const n = 65536
	names := make([]string, n)
	for i := range names {
		names[i] = fmt.Sprintf("x%d", i)
	}
	last := names[n-1]
	src := "function f(a=[" + strings.Join(names, ",") + "]){var " + last + "}"
	ast, err := js.Parse(parse.NewInputString(src), js.Options{})
	if err != nil {
		t.Fatalf("program rejected: %v", err)
	}
	fn := ast.BlockStmt.List[0].(*js.FuncDecl)
	var bodyVar *js.Var
	for _, v := range fn.Body.Scope.Declared {
		if string(v.Data) == last {
			bodyVar = v
		}
	}
	occ := fn.Params.List[0].Default.(*js.ArrayExpr).List[n-1].Value.(*js.Var)
	for occ.Link != nil {
		occ = occ.Link
	}
	if occ != bodyVar {
		return // repaired
	}
	if _, listed := known["K-C04-5"]; listed {
		ev.ReportKnown("C04", "K-C04-5", "function f(a=[x0,…,x65535]){var x65535}: x65535 in the default value shares the Var of the body's var (uint16 offset NumArgUses wraps)")
	} else {
		t.Errorf("K-C04-5: x65535 in the default value shares the Var of the body's var")
	}
}

// K-C04-6: one identifier in two spellings
func TestKnown_EscapedSpelling(t *testing.T) {
	known := ev.KnownFindings("C04")
	ast, err := js.Parse(parse.NewInputString("var \\u0061; a; \\u{61}"), js.Options{})
	if err != nil {
		t.Fatalf("program rejected: %v", err)
	}
	if len(ast.BlockStmt.Scope.Declared) == 1 && len(ast.BlockStmt.Scope.Undeclared) == 0 && ast.BlockStmt.Scope.Declared[0].Uses == 3 {
		return // repaired
	}
	if _, listed := known["K-C04-6"]; listed {
		ev.ReportKnown("C04", "K-C04-6", fmt.Sprintf("var \\u0061; a; \\u{61}: %d declared and %d undeclared variables for one binding", len(ast.BlockStmt.Scope.Declared), len(ast.BlockStmt.Scope.Undeclared)))
	} else {
		t.Errorf("K-C04-6: var \\u0061; a; \\u{61}: %d declared and %d undeclared variables for one binding", len(ast.BlockStmt.Scope.Declared), len(ast.BlockStmt.Scope.Undeclared))
	}
}
