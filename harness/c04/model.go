package c04

import (
	"fmt"
	"strings"
)

// A small program model for scoping: only what binds or references identifiers matters.

type node interface{}

type (
	ref struct {
		name string
		id   *int
	} // identifier reference (id filled by the resolver: binding id or -1 for free)
	lit    struct{ text string }
	binary struct {
		op   string
		a, b node
	}
	assign struct{ target, value node } // target: *ref or pattern (destructuring assignment)
	call   struct {
		f    node
		args []node
	}
	member struct {
		obj  node
		prop string
	}
	group   struct{ items []node } // parenthesised expression (one or several items: arrow look-alike)
	object  struct{ props []objProp }
	array   struct{ items []node }
	funcExp struct {
		name *decl
		fn   *function
		bare bool // written without parentheses around it (argument position)
	} // function expression (name optional)
	arrow struct {
		fn   *function
		bare bool
	}
	classEx struct {
		name *decl
		cls  *class
		bare bool
	}

	objProp struct {
		key       string // property key (disjoint alphabet) or "" for shorthand / spread
		shorthand *ref
		value     node
		method    *function // key(params){body}; accessor "get"/"set" in front of it
		accessor  string
	}

	// patterns
	decl struct {
		name string
		id   int
	} // a binding occurrence (declaration)
	patElem struct {
		key    string
		target node
		def    node
	} // target: *decl (or *ref in assignment patterns) or nested pattern
	pattern struct {
		object bool
		elems  []patElem
		rest   node // *decl / *ref
	}

	function struct {
		params []patElem // target *decl or *pattern, def default value
		rest   node
		body   []node // statements; nil body + expr for concise arrows
		expr   node
	}

	class struct {
		extends node
		members []classMember
	}
	classMember struct {
		kind string // method, field, static
		key  string
		fn   *function
		init node
		body []node
	}

	// statements
	varDecl struct {
		kind   string
		decls  []patElem
		export bool // written behind the keyword export (top level of a module only)
	}
	funcDecl struct {
		name   *decl
		fn     *function
		export bool
	}
	classDec struct {
		name   *decl
		cls    *class
		export bool
	}
	block  struct{ body []node }
	ifStmt struct {
		cond      node
		then, els []node
	}
	forStmt struct {
		init       node
		cond, post node
		body       []node
	}
	forIn struct {
		of   bool
		kind string
		lhs  node
		rhs  node
		body []node
	}
	while struct {
		cond node
		body []node
	}
	try struct {
		body     []node
		param    node
		catch    []node
		hasCatch bool
		finally  []node
	}
	switchSt struct {
		expr  node
		cases []switchCase
	}
	exprStmt struct{ e node }
	retStmt  struct{ e node }

	switchCase struct {
		test node
		body []node
	}
)

// ---------- source text

type printer struct {
	sb    strings.Builder
	short []string // names written as shorthand properties ({a}: key and value in one identifier), in source order
}

func (p *printer) w(s string) { p.sb.WriteString(s) }

func (p *printer) list(items []node, sep string) {
	for i, it := range items {
		if i > 0 {
			p.w(sep)
		}
		p.expr(it)
	}
}

func (p *printer) pat(n node) {
	switch x := n.(type) {
	case *decl:
		p.w(x.name)
	case *ref:
		p.w(x.name)
	case *pattern:
		if x.object {
			p.w("{")
			for i, e := range x.elems {
				if i > 0 {
					p.w(", ")
				}
				if e.key != "" {
					p.w(e.key + ": ")
				} else if d, ok := e.target.(*decl); ok {
					p.short = append(p.short, d.name)
				} else if r, ok := e.target.(*ref); ok {
					p.short = append(p.short, r.name)
				}
				p.pat(e.target)
				if e.def != nil {
					p.w(" = ")
					p.expr(e.def)
				}
			}
			if x.rest != nil {
				if len(x.elems) > 0 {
					p.w(", ")
				}
				p.w("...")
				p.pat(x.rest)
			}
			p.w("}")
		} else {
			p.w("[")
			for i, e := range x.elems {
				if i > 0 {
					p.w(", ")
				}
				p.pat(e.target)
				if e.def != nil {
					p.w(" = ")
					p.expr(e.def)
				}
			}
			if x.rest != nil {
				if len(x.elems) > 0 {
					p.w(", ")
				}
				p.w("...")
				p.pat(x.rest)
			}
			p.w("]")
		}
	default:
		panic(fmt.Sprintf("pat %T", n))
	}
}

func (p *printer) params(f *function) {
	p.w("(")
	for i, e := range f.params {
		if i > 0 {
			p.w(", ")
		}
		p.pat(e.target)
		if e.def != nil {
			p.w(" = ")
			p.expr(e.def)
		}
	}
	if f.rest != nil {
		if len(f.params) > 0 {
			p.w(", ")
		}
		p.w("...")
		p.pat(f.rest)
	}
	p.w(")")
}

func (p *printer) class(c *class) {
	if c.extends != nil {
		p.w(" extends ")
		p.expr(c.extends)
	}
	p.w(" {")
	for _, m := range c.members {
		switch m.kind {
		case "method":
			p.w(" " + m.key)
			p.params(m.fn)
			p.w(" ")
			p.stmts(m.fn.body)
		case "field":
			p.w(" " + m.key)
			if m.init != nil {
				p.w(" = ")
				p.expr(m.init)
			}
			p.w(";")
		case "static":
			p.w(" static ")
			p.stmts(m.body)
		}
	}
	p.w(" }")
}

func (p *printer) expr(n node) {
	switch x := n.(type) {
	case *ref:
		p.w(x.name)
	case *lit:
		p.w(x.text)
	case *binary:
		p.w("(")
		p.expr(x.a)
		p.w(" " + x.op + " ")
		p.expr(x.b)
		p.w(")")
	case *assign:
		p.w("(")
		switch t := x.target.(type) {
		case *pattern:
			p.pat(t)
		default:
			p.expr(t)
		}
		p.w(" = ")
		p.expr(x.value)
		p.w(")")
	case *call:
		p.expr(x.f)
		p.w("(")
		p.list(x.args, ", ")
		p.w(")")
	case *member:
		if _, isLit := x.obj.(*lit); isLit {
			p.w("(")
			p.expr(x.obj)
			p.w(")")
		} else {
			p.expr(x.obj)
		}
		p.w("." + x.prop)
	case *group:
		p.w("(")
		p.list(x.items, ", ")
		p.w(")")
	case *object:
		p.w("({")
		for i, pr := range x.props {
			if i > 0 {
				p.w(", ")
			}
			if pr.shorthand != nil {
				p.w(pr.shorthand.name)
				p.short = append(p.short, pr.shorthand.name)
			} else if pr.method != nil {
				if pr.accessor != "" {
					p.w(pr.accessor + " ")
				}
				p.w(pr.key)
				p.params(pr.method)
				p.w(" ")
				p.stmts(pr.method.body)
			} else {
				p.w(pr.key + ": ")
				p.expr(pr.value)
			}
		}
		p.w("})")
	case *array:
		p.w("[")
		p.list(x.items, ", ")
		p.w("]")
	case *funcExp:
		if !x.bare {
			p.w("(")
		}
		p.w("function")
		if x.name != nil {
			p.w(" " + x.name.name)
		}
		p.params(x.fn)
		p.w(" ")
		p.stmts(x.fn.body)
		if !x.bare {
			p.w(")")
		}
	case *arrow:
		if !x.bare {
			p.w("(")
		}
		p.params(x.fn)
		p.w(" => ")
		if x.fn.expr != nil {
			p.expr(x.fn.expr)
		} else {
			p.stmts(x.fn.body)
		}
		if !x.bare {
			p.w(")")
		}
	case *classEx:
		if !x.bare {
			p.w("(")
		}
		p.w("class")
		if x.name != nil {
			p.w(" " + x.name.name)
		}
		p.class(x.cls)
		if !x.bare {
			p.w(")")
		}
	default:
		panic(fmt.Sprintf("expr %T", n))
	}
}

func (p *printer) stmts(body []node) {
	p.w("{ ")
	for _, s := range body {
		p.stmt(s)
		p.w(" ")
	}
	p.w("}")
}

func (p *printer) varDecl(v *varDecl, forHead bool) {
	p.w(v.kind + " ")
	for i, d := range v.decls {
		if i > 0 {
			p.w(", ")
		}
		p.pat(d.target)
		if d.def != nil {
			p.w(" = ")
			p.expr(d.def)
		}
	}
}

func (p *printer) stmt(n node) {
	switch x := n.(type) {
	case *varDecl:
		if x.export {
			p.w("export ")
		}
		p.varDecl(x, false)
		p.w(";")
	case *funcDecl:
		if x.export {
			p.w("export ")
		}
		p.w("function " + x.name.name)
		p.params(x.fn)
		p.w(" ")
		p.stmts(x.fn.body)
	case *classDec:
		if x.export {
			p.w("export ")
		}
		p.w("class " + x.name.name)
		p.class(x.cls)
	case *block:
		p.stmts(x.body)
	case *ifStmt:
		p.w("if (")
		p.expr(x.cond)
		p.w(") ")
		p.stmts(x.then)
		if x.els != nil {
			p.w(" else ")
			p.stmts(x.els)
		}
	case *forStmt:
		p.w("for (")
		switch i := x.init.(type) {
		case nil:
		case *varDecl:
			p.varDecl(i, true)
		default:
			p.expr(i)
		}
		p.w("; ")
		if x.cond != nil {
			p.expr(x.cond)
		}
		p.w("; ")
		if x.post != nil {
			p.expr(x.post)
		}
		p.w(") ")
		p.stmts(x.body)
	case *forIn:
		p.w("for (")
		if x.kind != "" {
			p.w(x.kind + " ")
		}
		switch l := x.lhs.(type) {
		case *pattern, *decl:
			p.pat(l)
		default:
			p.expr(l)
		}
		if x.of {
			p.w(" of ")
		} else {
			p.w(" in ")
		}
		p.expr(x.rhs)
		p.w(") ")
		p.stmts(x.body)
	case *while:
		p.w("while (")
		p.expr(x.cond)
		p.w(") ")
		p.stmts(x.body)
	case *try:
		p.w("try ")
		p.stmts(x.body)
		if x.hasCatch {
			p.w(" catch ")
			if x.param != nil {
				p.w("(")
				p.pat(x.param)
				p.w(") ")
			}
			p.stmts(x.catch)
		}
		if x.finally != nil {
			p.w(" finally ")
			p.stmts(x.finally)
		}
	case *switchSt:
		p.w("switch (")
		p.expr(x.expr)
		p.w(") {")
		for _, c := range x.cases {
			if c.test != nil {
				p.w(" case ")
				p.expr(c.test)
				p.w(":")
			} else {
				p.w(" default:")
			}
			for _, s := range c.body {
				p.w(" ")
				p.stmt(s)
			}
		}
		p.w(" }")
	case *exprStmt:
		p.expr(x.e)
		p.w(";")
	case *retStmt:
		p.w("return ")
		p.expr(x.e)
		p.w(";")
	default:
		panic(fmt.Sprintf("stmt %T", n))
	}
}

func source(prog []node) string {
	s, _ := sourceShort(prog)
	return s
}

// sourceShort also returns the names written as shorthand properties, in source order
func sourceShort(prog []node) (string, []string) {
	p := &printer{}
	for i, s := range prog {
		if i > 0 {
			p.w("\n")
		}
		p.stmt(s)
	}
	return p.sb.String(), p.short
}
