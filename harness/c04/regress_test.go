package c04

import (
	"strings"
	"testing"

	"github.com/tdewolff/parse/v2"
	"github.com/tdewolff/parse/v2/js"
)

// Shrunk failures of the generated search, replayed from source text without the generator and the model: want
// labels every identifier occurrence of the program in source order with its binding ("g…" = bound nowhere).
func TestRegress_Scoping(t *testing.T) {
	for _, c := range []struct{ src, want string }{
		// dd36878: var of a class static block stays in the block
		{"var a = (class { static { var a; } });", "a1 a2"},
		{"var a; class b { static { var a; a; } }", "a1 b a2 a2"},
		// 3f9d5b0: rest parameter path skipped MarkFuncArgs
		{"var a; function f(b = a, ...d) { var a; }", "a1 f b a1 d a2"},
		// b2cb61e: body reference before the var declaration adopted the use of the default value
		{"function f(b = a) { a; var a; }", "f b ga a2 a2"},
		{"function f(b = a) { { a; } var a; }", "f b ga a2 a2"},
		{"function f(b = a) { (a); var a; }", "f b ga a2 a2"},
		{"var d; x = function a(a = d, b) { try { } catch { var a = a, a = d; } var a = a; var a, d; };", "d1 gx a a d1 b a a a d2 a a a d2"},
		{"for (a;;) { a; let a; }", "ga a2 a2"},
		// 8f94e61: catch parameter default value and a lexical declaration of the block
		{"try { } catch ({q: {a = a} = d}) { let d; }", "a1 a1 gd d2"},
		{"try { } catch ([a = d]) { d; let d; }", "a1 gd d2 d2"},
		// 90b2374 / 0032118 (found by C03): free names in arrow heads are not parameters
		{"x = ([a] = [b]) => b;", "gx a gb gb"},
		{"x = ({[k]: v}) => k;", "gx gk v gk"},
	} {
		ast, err := js.Parse(parse.NewInputString(c.src), js.Options{})
		if err != nil {
			t.Errorf("%s: %v", c.src, err)
			continue
		}
		seq, uses, out := observe(t, c.src, ast)
		want := strings.Fields(c.want)
		if len(seq) != len(want) {
			t.Errorf("%s: renamed %s has %d identifiers, want %d", c.src, out, len(seq), len(want))
			continue
		}
		l2n, n2l := map[string]string{}, map[string]string{}
		count := map[string]int{}
		for i, w := range want {
			got := seq[i]
			count[got]++
			if (w[0] == 'g') != (got[0] == 'G') {
				t.Errorf("%s: occurrence %d (%s) is %s in %s", c.src, i, w, got, out)
			}
			if p, ok := l2n[w]; ok && p != got {
				t.Errorf("%s: binding %s has two Vars in %s", c.src, w, out)
			}
			if p, ok := n2l[got]; ok && p != w {
				t.Errorf("%s: Var %s is shared by bindings %s and %s in %s", c.src, got, p, w, out)
			}
			l2n[w], n2l[got] = got, w
		}
		for n, k := range count {
			if uses[n] != k {
				t.Errorf("%s: Var %s has Uses=%d, printed %d times in %s", c.src, n, uses[n], k, out)
			}
		}
	}
}
