package c04

import "fmt"

// The reference resolver: ECMAScript scoping as listed in the property, written from the specification
// (var and function declarations hoist to the enclosing function; let/const/class/catch parameters are block scoped;
// parameters, their default values and the function expression name live in the function's own scopes; loop heads;
// names bound nowhere are free). It walks the program in source order and lists every identifier occurrence with the
// binding it denotes.

type occurrence struct {
	name string
	id   int // binding id, or -1 for a free name
}

type scope struct {
	parent *scope
	names  map[string]int
}

func newScope(parent *scope) *scope { return &scope{parent: parent, names: map[string]int{}} }

func (s *scope) lookup(name string) int {
	for ; s != nil; s = s.parent {
		if id, ok := s.names[name]; ok {
			return id
		}
	}
	return -1
}

type resolver struct {
	occ         []occurrence
	nextID      int
	shadow      int // number of bindings that shadow an outer binding of the same name
	hoistedUse  int // references resolved to a var/function declared later in source order
	closure     int // references that cross a function boundary to a local binding
	seenDecl    map[int]bool
	alias       map[string]int // function expression name that a same-named parameter/variable of that function shares
	aliasScopes map[*scope]bool
}

func (r *resolver) fresh() int { r.nextID++; return r.nextID - 1 }

func (r *resolver) declare(s *scope, name string) int {
	if id, ok := s.names[name]; ok {
		return id
	}
	if id, ok := r.alias[name]; ok && r.aliasScope(s) {
		s.names[name] = id
		return id
	}
	if s.parent != nil && s.parent.lookup(name) >= 0 {
		r.shadow++
	}
	id := r.fresh()
	s.names[name] = id
	return id
}

// aliasScope: is s one of the two own scopes (parameters, body) of the function expression whose name is aliased?
func (r *resolver) aliasScope(s *scope) bool { return r.aliasScopes[s] }

// patNames lists the binding names of a pattern (declarations only)
func patNames(n node, out *[]string) {
	switch x := n.(type) {
	case *decl:
		*out = append(*out, x.name)
	case *pattern:
		for _, e := range x.elems {
			patNames(e.target, out)
		}
		if x.rest != nil {
			patNames(x.rest, out)
		}
	}
}

// hoistVars: var declarations and function declarations of a statement list, through nested blocks but not functions
func (r *resolver) hoistVars(body []node, fn *scope, params *scope) {
	add := func(name string) {
		if params != nil {
			if _, ok := params.names[name]; ok {
				return // var x / function x in the body of function(x): the same binding as the parameter
			}
		}
		r.declare(fn, name)
	}
	var walk func(stmts []node)
	walk = func(stmts []node) {
		for _, s := range stmts {
			switch x := s.(type) {
			case *varDecl:
				if x.kind == "var" {
					for _, d := range x.decls {
						var ns []string
						patNames(d.target, &ns)
						for _, n := range ns {
							add(n)
						}
					}
				}
			case *funcDecl:
				add(x.name.name)
			case *block:
				walk(x.body)
			case *ifStmt:
				walk(x.then)
				walk(x.els)
			case *forStmt:
				if v, ok := x.init.(*varDecl); ok {
					walk([]node{v})
				}
				walk(x.body)
			case *forIn:
				if x.kind == "var" {
					var ns []string
					patNames(x.lhs, &ns)
					for _, n := range ns {
						add(n)
					}
				}
				walk(x.body)
			case *while:
				walk(x.body)
			case *try:
				walk(x.body)
				walk(x.catch)
				walk(x.finally)
			case *switchSt:
				for _, c := range x.cases {
					walk(c.body)
				}
			}
		}
	}
	walk(body)
}

// hoistLex: let/const/class declared directly in a statement list
func (r *resolver) hoistLex(body []node, s *scope) {
	for _, st := range body {
		switch x := st.(type) {
		case *varDecl:
			if x.kind != "var" {
				for _, d := range x.decls {
					var ns []string
					patNames(d.target, &ns)
					for _, n := range ns {
						r.declare(s, n)
					}
				}
			}
		case *classDec:
			r.declare(s, x.name.name)
		}
	}
}

func (r *resolver) use(s *scope, x *ref) {
	id := s.lookup(x.name)
	r.occ = append(r.occ, occurrence{x.name, id})
}

func (r *resolver) bind(s *scope, d *decl) {
	id := s.lookup(d.name)
	if id < 0 {
		panic(fmt.Sprintf("declaration of %s was not hoisted", d.name))
	}
	d.id = id
	r.occ = append(r.occ, occurrence{d.name, id})
}

// pat walks a pattern in source order: binding names (declarations when decls, else references) and default values
func (r *resolver) pat(n node, declScope, exprScope *scope) {
	switch x := n.(type) {
	case *decl:
		r.bind(declScope, x)
	case *ref:
		r.use(exprScope, x)
	case *pattern:
		for _, e := range x.elems {
			r.pat(e.target, declScope, exprScope)
			if e.def != nil {
				r.expr(e.def, exprScope)
			}
		}
		if x.rest != nil {
			r.pat(x.rest, declScope, exprScope)
		}
	default:
		r.expr(n, exprScope) // member targets of an assignment pattern
	}
}

// function resolves parameters and body; outer is the scope the function is written in (incl. its own name scope)
func (r *resolver) function(f *function, outer *scope, ownVars bool) {
	r.functionNamed(f, outer, "", -1)
}

// functionNamed: selfName/selfID is the name binding of a function expression. A parameter or a variable of the body with
// that name shadows it completely (the name binding can no longer be referenced), so the tree may use one Var for both:
// alpha-renaming cannot tell them apart. The model follows that reading.
func (r *resolver) functionNamed(f *function, outer *scope, selfName string, selfID int) {
	params := newScope(outer)
	savedAlias, savedScopes := r.alias, r.aliasScopes
	r.alias, r.aliasScopes = nil, nil
	defer func() { r.alias, r.aliasScopes = savedAlias, savedScopes }()
	if selfName != "" {
		r.alias = map[string]int{selfName: selfID}
		r.aliasScopes = map[*scope]bool{params: true}
	}
	for _, p := range f.params {
		var ns []string
		patNames(p.target, &ns)
		for _, n := range ns {
			r.declare(params, n)
		}
	}
	if f.rest != nil {
		var ns []string
		patNames(f.rest, &ns)
		for _, n := range ns {
			r.declare(params, n)
		}
	}
	for _, p := range f.params {
		r.pat(p.target, params, params)
		if p.def != nil {
			r.expr(p.def, params) // sees the parameters and the enclosing scopes, not the variables of the body
		}
	}
	if f.rest != nil {
		r.pat(f.rest, params, params)
	}
	if f.expr != nil {
		r.expr(f.expr, params)
		return
	}
	body := newScope(params)
	if r.aliasScopes != nil {
		r.aliasScopes[body] = true
	}
	r.hoistVars(f.body, body, params)
	r.hoistLex(f.body, body)
	// nested functions have aliases of their own
	alias, scopes := r.alias, r.aliasScopes
	r.alias, r.aliasScopes = nil, nil
	r.stmts(f.body, body, body)
	r.alias, r.aliasScopes = alias, scopes
}

func (r *resolver) class(c *class, s *scope) {
	if c.extends != nil {
		r.expr(c.extends, s)
	}
	for _, m := range c.members {
		switch m.kind {
		case "method":
			r.function(m.fn, s, true)
		case "field":
			if m.init != nil {
				r.expr(m.init, s)
			}
		case "static":
			body := newScope(s)
			r.hoistVars(m.body, body, nil)
			r.hoistLex(m.body, body)
			r.stmts(m.body, body, body)
		}
	}
}

func (r *resolver) expr(n node, s *scope) {
	switch x := n.(type) {
	case nil:
	case *ref:
		r.use(s, x)
	case *lit:
	case *binary:
		r.expr(x.a, s)
		r.expr(x.b, s)
	case *assign:
		switch t := x.target.(type) {
		case *pattern:
			r.pat(t, s, s)
		default:
			r.expr(t, s)
		}
		r.expr(x.value, s)
	case *call:
		r.expr(x.f, s)
		for _, a := range x.args {
			r.expr(a, s)
		}
	case *member:
		r.expr(x.obj, s)
	case *group:
		for _, it := range x.items {
			r.expr(it, s)
		}
	case *object:
		for _, p := range x.props {
			if p.shorthand != nil {
				r.use(s, p.shorthand)
			} else if p.method != nil {
				r.function(p.method, s, true)
			} else {
				r.expr(p.value, s)
			}
		}
	case *array:
		for _, it := range x.items {
			r.expr(it, s)
		}
	case *funcExp:
		outer := s
		if x.name != nil {
			outer = newScope(s)
			id := r.declare(outer, x.name.name)
			r.bind(outer, x.name)
			r.functionNamed(x.fn, outer, x.name.name, id)
			return
		}
		r.function(x.fn, outer, true)
	case *arrow:
		r.function(x.fn, s, true)
	case *classEx:
		outer := s
		if x.name != nil {
			outer = newScope(s)
			r.declare(outer, x.name.name)
			r.bind(outer, x.name)
		}
		r.class(x.cls, outer)
	default:
		panic(fmt.Sprintf("resolve expr %T", n))
	}
}

// stmts resolves a statement list whose lexical declarations have been hoisted into s; fn is the function-level scope
func (r *resolver) stmts(body []node, s *scope, fn *scope) {
	for _, st := range body {
		r.stmt(st, s, fn)
	}
}

func (r *resolver) blockScope(body []node, parent *scope, fn *scope) {
	s := newScope(parent)
	r.hoistLex(body, s)
	r.stmts(body, s, fn)
}

func (r *resolver) stmt(n node, s *scope, fn *scope) {
	switch x := n.(type) {
	case *varDecl:
		for _, d := range x.decls {
			r.pat(d.target, s, s)
			if d.def != nil {
				r.expr(d.def, s)
			}
		}
	case *funcDecl:
		r.bind(s, x.name)
		r.function(x.fn, s, true)
	case *classDec:
		r.bind(s, x.name)
		r.class(x.cls, s)
	case *block:
		r.blockScope(x.body, s, fn)
	case *ifStmt:
		r.expr(x.cond, s)
		r.blockScope(x.then, s, fn)
		if x.els != nil {
			r.blockScope(x.els, s, fn)
		}
	case *forStmt:
		head := newScope(s)
		if v, ok := x.init.(*varDecl); ok {
			if v.kind != "var" {
				r.hoistLex([]node{v}, head)
			}
			r.stmt(v, head, fn)
		} else if x.init != nil {
			r.expr(x.init, head)
		}
		r.expr(x.cond, head)
		r.expr(x.post, head)
		r.blockScope(x.body, head, fn)
	case *forIn:
		head := newScope(s)
		if x.kind == "let" || x.kind == "const" {
			var ns []string
			patNames(x.lhs, &ns)
			for _, nm := range ns {
				r.declare(head, nm)
			}
		}
		switch l := x.lhs.(type) {
		case *pattern, *decl:
			r.pat(l, head, head)
		default:
			r.expr(l, head)
		}
		r.expr(x.rhs, s)
		r.blockScope(x.body, head, fn)
	case *while:
		r.expr(x.cond, s)
		r.blockScope(x.body, s, fn)
	case *try:
		r.blockScope(x.body, s, fn)
		if x.hasCatch {
			cs := newScope(s)
			if x.param != nil {
				var ns []string
				patNames(x.param, &ns)
				for _, nm := range ns {
					r.declare(cs, nm)
				}
				r.pat(x.param, cs, cs)
			}
			r.blockScope(x.catch, cs, fn)
		}
		if x.finally != nil {
			r.blockScope(x.finally, s, fn)
		}
	case *switchSt:
		r.expr(x.expr, s)
		sw := newScope(s)
		for _, c := range x.cases {
			r.hoistLex(c.body, sw)
		}
		for _, c := range x.cases {
			r.expr(c.test, sw)
			r.stmts(c.body, sw, fn)
		}
	case *exprStmt:
		r.expr(x.e, s)
	case *retStmt:
		r.expr(x.e, s)
	default:
		panic(fmt.Sprintf("resolve stmt %T", n))
	}
}

// resolveProgram returns every identifier occurrence in source order with its binding
func resolveProgram(prog []node) *resolver {
	r := &resolver{}
	top := newScope(nil)
	r.hoistVars(prog, top, nil)
	r.hoistLex(prog, top)
	r.stmts(prog, top, top)
	return r
}
