package c05

import (
	"fmt"
	"regexp"
	"strings"
	"testing"
	"unicode/utf8"

	"github.com/tdewolff/parse/v2"
	"github.com/tdewolff/parse/v2/js"
	"pgregory.net/rapid"

	"verif/internal/ev"
	"verif/internal/gen"
	"verif/internal/jsgen"
	"verif/internal/jsref"
)

func TestMain(m *testing.M) { ev.Main(m, "C05") }

type fataler interface {
	Fatalf(format string, args ...any)
}

// roundTrip: print -> parse -> print is a fixpoint and keeps the tree (modulo GroupExpr)
// K-C05-1: an empty statement directly in front of else (";; else", "}; else") is swallowed and the else goes to the outer if:
// such inputs are excluded while the finding is listed
var danglingElseRe = regexp.MustCompile(`[;}]\s*;\s*else\b`)

func excludedKnown(src string) bool {
	_, listed := ev.KnownFindings("C05")["K-C05-1"]
	return listed && danglingElseRe.MatchString(src)
}

func TestKnown_DanglingElse(t *testing.T) {
	src := "if (a) if (b) c;; else d"
	ast, err := js.Parse(parse.NewInputString(src), js.Options{})
	if err != nil {
		return // rejected, as ECMAScript says: repaired
	}
	out := ast.JSString()
	ast2, err := js.Parse(parse.NewInputString(out), js.Options{})
	if err == nil && ast2.String() == ast.String() {
		return // repaired
	}
	if _, listed := ev.KnownFindings("C05")["K-C05-1"]; listed {
		ev.ReportKnown("C05", "K-C05-1", "\"if (a) if (b) c;; else d\" is accepted with the else on the outer if, the printed text \"if (a) if (b) c; else d\" binds it to the inner one")
	} else {
		t.Errorf("K-C05-1: %q prints as %q, which parses to another tree", src, out)
	}
}

// a tree returned by an earlier Parse stays what it is while later inputs are parsed: the previous case's tree is printed
// again here and must still give the text it gave then (storage shared between the trees of successive parses: a pooled
// parser whose slices keep their capacity)
var heldTree *js.AST
var heldText, heldSrc string

func roundTrip(t fataler, src string, o js.Options, ast *js.AST) string {
	if heldTree != nil {
		if again := heldTree.JSString(); again != heldText {
			h := heldSrc
			heldTree = nil
			t.Fatalf("the tree of an earlier Parse changed while %q was parsed\nearlier source:\n%s\nit printed as:\n%s\nit now prints as:\n%s", src, h, heldText, again)
		}
	}
	out := ast.JSString()
	// the other ways of looking at the tree (String, Walk, the conversion to JSON) do not change it: it prints the same text
	_ = ast.String()
	js.Walk(nopVisitor{}, ast)
	_, _ = ast.JSONString()
	if again := ast.JSString(); again != out {
		t.Fatalf("the tree prints another text once String(), Walk and JSONString() have been called on it (%+v)\nsource:\n%s\nprinted first:\n%s\nprinted then:\n%s", o, src, out, again)
	}
	defer func() {
		// (after the comparison below has removed the parenthesis nodes from the tree)
		heldTree, heldText, heldSrc = ast, ast.JSString(), src
	}()
	ast2, err := js.Parse(parse.NewInputString(out), o)
	if err != nil {
		t.Fatalf("the text printed for an accepted program is rejected (%+v)\nsource:\n%s\nprinted:\n%s\nerror: %v", o, src, out, err)
	}
	out2 := ast2.JSString()
	if out2 != out {
		t.Fatalf("printing the re-parsed tree does not reproduce the text (%+v)\nsource:\n%s\nprinted:\n%s\nprinted again:\n%s", o, src, out, out2)
	}
	jsref.Ungroup(ast)
	jsref.Ungroup(ast2)
	if a, b := ast.String(), ast2.String(); a != b {
		t.Fatalf("the re-parsed tree differs from the original beyond parentheses (%+v)\nsource:\n%s\nprinted:\n%s\noriginal tree:  %s\nre-parsed tree: %s", o, src, out, a, b)
	}
	return out
}

type nopVisitor struct{}

func (v nopVisitor) Enter(n js.INode) js.IVisitor { return v }
func (v nopVisitor) Exit(n js.INode)              {}

// printer decisions that make a case interesting
func decisions(out string) []string {
	var cls []string
	for _, k := range []struct{ name, sub string }{
		{"group", "("}, {"let-stmt", "let "}, {"in-op", " in "}, {"unary-adjacent", "+ +"}, {"unary-adjacent", "- -"}, {"arrow", "=>"}, {"class", "class "}, {"function", "function"},
		{"template", "`"}, {"regexp", "/"}, {"number-dot", ")."}, {"indent", "\n    "}, {"new", "new "}, {"optional", "?."},
	} {
		if strings.Contains(out, k.sub) {
			cls = append(cls, "decision="+k.name)
		}
	}
	return cls
}

func TestProp_Generated(t *testing.T) {
	ev.Describe("generated", "all programs of the ECMAScript grammar generator (harness/internal/jsgen: every statement/declaration/expression form, drawn spelling) under every Options value; oracle: AST.JSString() is accepted by Parse with the same Options, printing the second tree reproduces the text byte for byte, and both trees have the same String() after removing GroupExpr nodes; non-trivial = the printed text shows >= 2 printer decisions (parentheses, number before ., unary sign adjacency, in, let at statement start, arrow/class/function expression, template/regexp, indentation)")
	ev.Check(t, 5000, func(t *rapid.T) {
		o := js.Options{WhileToFor: rapid.Bool().Draw(t, "whileToFor"), Inline: rapid.Bool().Draw(t, "inline")}
		g := jsgen.New(t)
		g.Module, g.TopReturn, g.WhileToFor = !o.Inline, o.Inline, o.WhileToFor
		g.MaxDepth = rapid.IntRange(2, 5).Draw(t, "maxDepth")
		prog := g.Program()
		src, _ := jsgen.Render(t, prog.Toks, false)
		ast, err := js.Parse(parse.NewInputString(src), o)
		if err != nil {
			t.Skip("rejected (C03 decides acceptance)")
		}
		out := roundTrip(t, src, o, ast)
		cls := decisions(out)
		ev.Case("generated", src, len(cls) >= 2, cls...)
	})
}

func TestProp_Flat(t *testing.T) {
	ev.Describe("flat", "a small generated program wrapped in a block and repeated 999-3000 times on consecutive lines, under every Options value; oracle: the round trip as above (the printed text of a long flat program spells things differently from the source, e.g. parenthesised arrow parameters: state that accumulates per printed construct shows only here); non-trivial = >= 1000 repetitions")
	ev.Check(t, 30, func(t *rapid.T) {
		o := js.Options{WhileToFor: rapid.Bool().Draw(t, "whileToFor"), Inline: rapid.Bool().Draw(t, "inline")}
		g := jsgen.New(t)
		g.WhileToFor = o.WhileToFor
		g.MaxDepth = rapid.IntRange(1, 3).Draw(t, "maxDepth")
		prog := g.Program()
		toks := append(append([]jsgen.Tok{{S: "{"}}, prog.Toks...), jsgen.Tok{S: "}"})
		one, _ := jsgen.Render(t, toks, rapid.Bool().Draw(t, "dense"))
		k := rapid.SampledFrom([]int{999, 1000, 1001, 1100, 1500, 2000}).Draw(t, "repeat")
		for k > 999 && k*len(one) > 2<<20 {
			k = 999 + (k-999)/2
		}
		src := strings.Repeat(one+"\n", k)
		ast, err := js.Parse(parse.NewInputString(src), o)
		if err != nil {
			t.Skip("the flat source itself is rejected: C03 decides that")
		}
		roundTrip(flatFataler{t, k, one}, "", o, ast)
		ev.Case("flat", fmt.Sprintf("%d x %s", k, one), k >= 1000, fmt.Sprintf("repeat=%d", k))
	})
}

// flatFataler shortens the failure text of a long flat program to its first lines
type flatFataler struct {
	t   *rapid.T
	k   int
	one string
}

func (f flatFataler) Fatalf(format string, args ...any) {
	msg := fmt.Sprintf(format, args...)
	if len(msg) > 3000 {
		msg = msg[:1500] + "\n…\n" + msg[len(msg)-1200:]
	}
	f.t.Fatalf("%d repetitions of\n%s\n%s", f.k, f.one, msg)
}

// oddities: programs in which a contextual keyword is an ordinary identifier, or a line break decides the meaning: what
// the printer writes for them must not read as the keyword form. They join the repository literals as mutation seeds.
var oddities = []string{
	"for(async\nof b);", "for((async) of b);", "for(async\nin b);", "for(async in b);", "for(async;;);", "async\n(x)", "async\nfunction f(){}", "(async)(x)", "async\nx=>x", "x = {async\nf(){}}",
	"for((let) in a);", "for((let).x of y);", "for(let\nin a);", "for((let)[0];;);", "(let)[0]", "let\nlet", "if(a)\nlet\nx", "(let)\n[a]=1", "let\nyield", "(let[0])", "x = let", "let in x", "for(let of;;);",
	"yield\n*2", "return_\nx", "a\n++b", "x\n/re/g", "a = b\n/c/d", "a\n(b)", "a\n[b]", "a++\n(b)", "x = y => {}\n(z)", "x = async y => {}\n[z]", "++a ** 2", "(-a) ** 2", "(a, b) => ({}).x", "(a) => ({})",
	"of = of\nof", "for(of of of);", "for(var of of of);", "get\nset", "x = {get\n[a](){}}", "static\nx", "class A{static\nstatic(){}}", "class A{'constructor'(){}}", "await\nx", "(await)", "yield\n", "x = {await, yield, async, let, of}",
	"`${a++\n`b`", "`${a=>{}\n`b`}`", "x = `${a}\n`b``", "a\n`b`", "a++\n`b${c}d`", "a++\n`b${a++\n`b${c}d`", "`b${a++\n`b${c}d`}e`", "`a${b\n`c${d}e`}f`", "x = () => {}\n+c", "import {a as a} from 'm'", "import {a as b, c as c} from 'm'", "export {a as a}", "export {a as a, b} from 'm'", "export {default as default} from 'm'", "import {'s t' as x} from 'm'", "export {x as 's t'}", "x = ['single', \"double\", 'two words', 'it\\'s', '\"q\"']",
	"x = (a, {a: a})", "({a: a, a: a})", "y = ([a, {a: a}])", "async(a, {a: a})", "(a, [a], {a})", "(a = 1, {a})", "(a, {a: a}) => a", "x = (a, {b: a, a: b, c: c})", "f((a, {a: a}))", "function*f(){yield\n-1}", "a = () => {}\n/re/.test(x)", "a+b\n/=re/g", "class A { get\n *a(){} }", "class A { static async\n *a(){} set\n*b(){} }", "if (a) if (b) c;\nelse d", "if (a) { if (b) c; } else d", "if (a) if (b) c; else d; else e",
	"x = {'01': 1}", "x = {\"0123\": 1, '09': 2}", "x = {'1e3': 1, '0x10': 2, '1_0': 3, '.5': 4, '5.': 5, '-1': 6, '0': 7, '00': 8, '1n': 9, '0b1': 10, '1.0': 11, '9007199254740993': 12, '1e21': 13}",
	"class A{'01'(){} static '02' = 1; get '03'(){} }", "var {'01': a, '1.50': b} = x", "({'01': a}) => a", "x = {01: 1}", "x = {1: 1, 1.5: 2, 0x10: 3, 1e3: 4, .5: 5, 1n: 6}", "x = {'a-b': 1, 'a b': 2, '': 3, 'é': 4, 'if': 5, 'let': 6, '__proto__': 7, '#a': 8}",
	"/*! a */\n/*! b */ x; /*! c */ y", "/*! only */", "/*! 1 */ a; /*! 2 */ b; /*! 3 */ c; /*! 4 */ d; /*! 5 */ e; /*! 6 */ f; /*! 7 */ g; /*! 8 */ h; /*! 9 */ i",
	"a = 1 .toString()", "a = 1..toString()", "a = 1_0 .b", "a = 0x1.b", "a = - -b", "a = + +b", "a = - --b", "a = +(+b)", "a = b-- - --c", "a = b++ + ++c", "a = typeof typeof b", "a = !(!b)", "new (a())", "new (a.b())()", "new a().b", "(new a).b", "new (import(a))",
	"a = b ? (c, d) : e", "a = (b, c)", "for((a in b);;);", "for(var a = (b in c);;);", "for(a = (x => y in z);;);", "x = (function(){}).name", "x = (class{}).name", "({}).x", "({a} = b)", "[a] = b", "(function(){})()", "(class{})", "(() => {})()", "`${{}}`",
}

// contextual keywords as names of properties, fields and bindings in every spelling: what the printer writes for one
// spelling (shorthand, quoted, with a default value) must read back as the same property
func init() {
	for _, kw := range []string{"get", "set", "async", "static", "of", "let", "await", "yield", "as", "from", "target", "accessor"} {
		for _, f := range []string{
			"({%[1]s: %[1]s = 1}) => %[1]s", "({'%[1]s': %[1]s = 0}) => 1", "var {%[1]s: %[1]s = 1, x} = y", "({%[1]s: %[1]s} = x)", "({%[1]s = 1} = x)", "x = {%[1]s}", "x = {%[1]s, y}", "x = {%[1]s: 1}", "x = {'%[1]s': 1}",
			"x = {%[1]s(){}}", "x = {get %[1]s(){}, set %[1]s(v){}}", "x = {async %[1]s(){}, *%[1]s(){}}", "[{%[1]s = 2}] = x", "for ({%[1]s = 1} of x);",
			"class A { %[1]s = 1 }", "class A { '%[1]s' = 1 }", "class A { static %[1]s = 1 }", "class A { static '%[1]s' = 1 }", "class A { %[1]s; x }", "class A { static %[1]s; x }", "class A { static '%[1]s'; x }",
			"class A { %[1]s(){} }", "class A { static %[1]s(){} }", "class A { static '%[1]s'(){} }", "class A { get %[1]s(){} static set %[1]s(v){} }", "class A { static async %[1]s(){} static *%[1]s(){} }", "class A { '%[1]s'(){} ['%[1]s']; }",
		} {
			oddities = append(oddities, fmt.Sprintf(f, kw))
		}
	}
}

func corpusWithOddities() []string {
	return append(append([]string(nil), gen.Corpus("js")...), oddities...)
}

// fixed defects, replayed without the library
func TestRegress_RoundTrip(t *testing.T) {
	for _, src := range []string{"for(async\nof b);", "a++\n(b)", "x = y => {}\n(z)", "++a ** 2"} {
		for _, o := range []js.Options{{}, {WhileToFor: true}, {Inline: true}, {WhileToFor: true, Inline: true}} {
			ast, err := js.Parse(parse.NewInputString(src), o)
			if err != nil {
				t.Errorf("%q rejected: %v", src, err)
				continue
			}
			roundTrip(t, src, o, ast)
		}
	}
	// every oddity that is accepted must round-trip as it stands
	for _, src := range oddities {
		for _, o := range []js.Options{{}, {WhileToFor: true}, {Inline: true}, {WhileToFor: true, Inline: true}} {
			if ast, err := js.Parse(parse.NewInputString(src), o); err == nil {
				roundTrip(t, src, o, ast)
			}
		}
	}
}

func TestProp_Corpus(t *testing.T) {
	ev.Describe("corpus", "string literals of the repository's js tests (read from /repo at run time) with 0-3 mutations (truncation, splice, duplication, deletion, fragment insertion, byte flip; invalid UTF-8 replaced) that Parse still accepts, under every Options value; oracle as for generated; non-trivial = accepted program of >= 10 bytes; class accepted/rejected")
	ev.Check(t, 8000, func(t *rapid.T) {
		c := corpusWithOddities()
		src := gen.Mutate(t, rapid.SampledFrom(c).Draw(t, "corpus"), c, gen.Frags["js"])
		if rapid.IntRange(0, 9).Draw(t, "oddity") == 0 {
			src = gen.Mutate(t, rapid.SampledFrom(oddities).Draw(t, "odd"), c, gen.Frags["js"])
		}
		if !utf8.ValidString(src) {
			src = strings.ToValidUTF8(src, "?")
		}
		o := js.Options{WhileToFor: rapid.Bool().Draw(t, "whileToFor"), Inline: rapid.Bool().Draw(t, "inline")}
		ast, err := js.Parse(parse.NewInputString(src), o)
		if err != nil {
			ev.Case("corpus", src, false, "rejected")
			return
		}
		if excludedKnown(src) {
			ev.Excluded("corpus", "K-C05-1")
			return
		}
		out := roundTrip(t, src, o, ast)
		ev.Case("corpus", src, len(src) >= 10, append(decisions(out), "accepted")...)
	})
}

var multiline = []string{
	"`line1\nline2`", "`a\n  b\n\tc`", "`\n`", "`x${1}\ny${2}\nz`", "`\r\n`", "`a\xe2\x80\xa8b`", "'a\\\nb'", "\"a\\\r\nb\"", "'a\\\xe2\x80\xa8b'", "\"tab\there\"", "`${`in\nner`}`", "'plain'", "/a\\/b/g", "0x1F", "1_000.5e-3", "12n", "`\\\n`",
}

func TestProp_Literals(t *testing.T) {
	ev.Describe("literals", "string/template/regexp/numeric literals containing LF, CRLF, U+2028 and backslash-newline continuations, and /*! */ comments with line breaks, placed in expression position at block nesting 0-6 inside functions, classes, methods, arrows, object literals, switch clauses and template substitutions (and as property keys, where only the round trip is asserted); oracle: round trip as above and every such literal/comment occurs verbatim in the printed text whatever the indentation; non-trivial = nesting >= 1 and a literal with a line break")
	ev.Check(t, 8000, func(t *rapid.T) {
		depth := rapid.IntRange(0, 6).Draw(t, "depth")
		lit := rapid.SampledFrom(multiline).Draw(t, "literal")
		lit2 := rapid.SampledFrom(multiline).Draw(t, "literal2")
		comment := ""
		if rapid.Bool().Draw(t, "comment") {
			comment = rapid.SampledFrom([]string{"/*! keep\n   me */", "/*!\r\n*/", "/*! one line */", "/*!a\xe2\x80\xa8b*/"}).Draw(t, "commenttext")
		}
		use := rapid.SampledFrom([]string{"x = %s;", "f(%s, 1);", "var v = [%s, %s];", "return_ = {k: %s};", "y = %s + z;", "t = tag%s;", "o = {%s: 1};", "if (%s) g();", "z = a ? %s : b;", "w = `${%s}`;"}).Draw(t, "use")
		isTemplate := strings.HasPrefix(lit, "`")
		asKey := strings.Contains(use, "{%s: 1}")
		if strings.Contains(use, "tag%s") && !isTemplate {
			use = "x = %s;"
		}
		if asKey && (isTemplate || strings.HasPrefix(lit, "/")) {
			use = "x = %s;"
			asKey = false
		}
		stmt := strings.Replace(use, "%s", lit, 1)
		stmt = strings.Replace(stmt, "%s", lit2, 1)
		var open strings.Builder
		closing := ""
		for i := 0; i < depth; i++ {
			w := rapid.SampledFrom([][2]string{{"{", "}"}, {"function f%d(){", "}"}, {"if(a){", "}"}, {"class C%d{m(){", "}}"}, {"q%d=()=>{", "};"}, {"o%d={m(){", "}};"}, {"switch(a){case 1:", "}"}, {"for(;;){", "}"}, {"try{", "}finally{}"}, {"L%d:{", "}"}, {"class D%d{static{", "}}"}}).Draw(t, "wrap")
			o := w[0]
			if strings.Contains(o, "%d") {
				o = fmt.Sprintf(o, i)
			}
			open.WriteString(o)
			closing = w[1] + closing
		}
		src := open.String() + comment + stmt + closing
		o := js.Options{WhileToFor: rapid.Bool().Draw(t, "whileToFor"), Inline: rapid.Bool().Draw(t, "inline")}
		ast, err := js.Parse(parse.NewInputString(src), o)
		if err != nil {
			t.Fatalf("generator bug: %q rejected: %v", src, err)
		}
		preserved := comment != "" && strings.Contains(ast.String(), comment) // (Inline drops top-level /*! comments: not preserved, nothing to print)
		out := roundTrip(t, src, o, ast)
		check := []string{}
		if !asKey {
			check = append(check, lit)
		}
		if strings.Count(use, "%s") == 2 {
			check = append(check, lit2)
		}
		if preserved {
			check = append(check, comment)
		}
		for _, c := range check {
			if !strings.Contains(out, c) {
				t.Fatalf("the literal/comment %q of\n%s\nis not printed verbatim (%+v):\n%s", c, src, o, out)
			}
		}
		multi := strings.ContainsAny(lit+lit2+comment, "\n\r") || strings.Contains(lit+lit2+comment, "\xe2\x80\xa8")
		ev.Case("literals", src, depth >= 1 && multi, fmt.Sprintf("depth=%d", depth), fmt.Sprintf("comment-preserved=%v", preserved))
	})
}
