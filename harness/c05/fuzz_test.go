package c05

import (
	"testing"
	"unicode/utf8"

	"github.com/tdewolff/parse/v2"
	"github.com/tdewolff/parse/v2/js"

	"verif/internal/gen"
)

func FuzzC05_RoundTrip(f *testing.F) {
	for i, s := range gen.Corpus("js") {
		if len(s) < 200 {
			f.Add(s, uint8(i))
		}
	}
	f.Fuzz(func(t *testing.T, src string, cfg uint8) {
		if len(src) > 1<<12 || !utf8.ValidString(src) {
			return
		}
		o := js.Options{WhileToFor: cfg&1 != 0, Inline: cfg&2 != 0}
		ast, err := js.Parse(parse.NewInputString(src), o)
		if err != nil || excludedKnown(src) {
			return
		}
		roundTrip(t, src, o, ast)
	})
}
