package c05

import (
	"testing"

	"verif/internal/ev"
)

// FuzzProp: coverage-guided fuzzing of this package's rapid properties (see ev.FuzzProp); thorough tier only.
func FuzzProp(f *testing.F) {
	ev.FuzzProp(f, map[string]func(*testing.T){
		"TestProp_Corpus":    TestProp_Corpus,
		"TestProp_Flat":      TestProp_Flat,
		"TestProp_Generated": TestProp_Generated,
		"TestProp_Literals":  TestProp_Literals,
	})
}
