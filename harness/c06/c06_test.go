package c06

import (
	"bytes"
	"fmt"
	"strings"
	"testing"
	"unicode"
	"unicode/utf8"

	"github.com/tdewolff/parse/v2"
	"github.com/tdewolff/parse/v2/js"
	"pgregory.net/rapid"

	"verif/internal/ev"
	"verif/internal/gen"
)

func TestMain(m *testing.M) { ev.Main(m, "C06") }

type tok struct {
	tt   js.TokenType
	text string
	kind string // ident keyword punct numeric string template tmplpart comment linecomment ws lt private regexp
}

func (k tok) String() string { return fmt.Sprintf("%s(%q)", k.tt, k.text) }

// ---------- spelling -> type tables, written from ECMA-262 (independent of js/tokentype.go and js/table.go)

var punctuators = map[string]js.TokenType{
	"{": js.OpenBraceToken, "}": js.CloseBraceToken, "(": js.OpenParenToken, ")": js.CloseParenToken, "[": js.OpenBracketToken, "]": js.CloseBracketToken,
	".": js.DotToken, ";": js.SemicolonToken, ",": js.CommaToken, "?": js.QuestionToken, ":": js.ColonToken, "=>": js.ArrowToken, "...": js.EllipsisToken,
	"=": js.EqToken, "==": js.EqEqToken, "===": js.EqEqEqToken, "!": js.NotToken, "!=": js.NotEqToken, "!==": js.NotEqEqToken,
	"<": js.LtToken, "<=": js.LtEqToken, "<<": js.LtLtToken, "<<=": js.LtLtEqToken, ">": js.GtToken, ">=": js.GtEqToken, ">>": js.GtGtToken, ">>=": js.GtGtEqToken, ">>>": js.GtGtGtToken, ">>>=": js.GtGtGtEqToken,
	"+": js.AddToken, "+=": js.AddEqToken, "++": js.IncrToken, "-": js.SubToken, "-=": js.SubEqToken, "--": js.DecrToken,
	"*": js.MulToken, "*=": js.MulEqToken, "**": js.ExpToken, "**=": js.ExpEqToken, "/": js.DivToken, "/=": js.DivEqToken, "%": js.ModToken, "%=": js.ModEqToken,
	"&": js.BitAndToken, "|": js.BitOrToken, "^": js.BitXorToken, "~": js.BitNotToken, "&=": js.BitAndEqToken, "|=": js.BitOrEqToken, "^=": js.BitXorEqToken,
	"&&": js.AndToken, "||": js.OrToken, "??": js.NullishToken, "&&=": js.AndEqToken, "||=": js.OrEqToken, "??=": js.NullishEqToken, "?.": js.OptChainToken,
}

var keywords = map[string]js.TokenType{
	"await": js.AwaitToken, "break": js.BreakToken, "case": js.CaseToken, "catch": js.CatchToken, "class": js.ClassToken, "const": js.ConstToken, "continue": js.ContinueToken,
	"debugger": js.DebuggerToken, "default": js.DefaultToken, "delete": js.DeleteToken, "do": js.DoToken, "else": js.ElseToken, "enum": js.EnumToken, "export": js.ExportToken,
	"extends": js.ExtendsToken, "false": js.FalseToken, "finally": js.FinallyToken, "for": js.ForToken, "function": js.FunctionToken, "if": js.IfToken, "import": js.ImportToken,
	"in": js.InToken, "instanceof": js.InstanceofToken, "new": js.NewToken, "null": js.NullToken, "return": js.ReturnToken, "super": js.SuperToken, "switch": js.SwitchToken,
	"this": js.ThisToken, "throw": js.ThrowToken, "true": js.TrueToken, "try": js.TryToken, "typeof": js.TypeofToken, "var": js.VarToken, "void": js.VoidToken, "while": js.WhileToken,
	"with": js.WithToken, "yield": js.YieldToken,
	"let": js.LetToken, "static": js.StaticToken, "implements": js.ImplementsToken, "interface": js.InterfaceToken, "package": js.PackageToken, "private": js.PrivateToken,
	"protected": js.ProtectedToken, "public": js.PublicToken,
	"as": js.AsToken, "async": js.AsyncToken, "from": js.FromToken, "get": js.GetToken, "meta": js.MetaToken, "of": js.OfToken, "set": js.SetToken, "target": js.TargetToken,
}

var punctList, keywordList []string

func init() {
	for s := range punctuators {
		punctList = append(punctList, s)
	}
	for s := range keywords {
		keywordList = append(keywordList, s)
	}
	sortStrings(punctList)
	sortStrings(keywordList)
}

func sortStrings(a []string) {
	for i := range a {
		for j := i + 1; j < len(a); j++ {
			if a[j] < a[i] {
				a[i], a[j] = a[j], a[i]
			}
		}
	}
}

// ---------- generators per token class

var idStarts = []string{"a", "b", "x", "y", "Z", "$", "_", "é", "中", "Σ", "℮", "ᢅ", "π", `\u0061`, `\u{62}`, `\u{1F}`, "e", "n", "i", "f", `\u{0062}`, `\u{000062}`, `\u{00000062}`, `\u{000000062}`, `\u{0000000000062}`, `\u{2F800}`, `\u{00002F800}`}
var idConts = []string{"a", "e", "n", "x", "0", "9", "$", "_", "é", "\u200c", "\u200d", "́", "‿", "٣", `\u0030`, `\u{5f}`, "中", `\u{00005f}`, `\u{0000000030}`, `\u{000000000000061}`, "ั", "\u0e34"}

// samples of every category that ID_Start and ID_Continue are made of (UAX #31): the first and the last code point of
// the first ranges and of the last range of each table, and the whole of Other_ID_Start / Other_ID_Continue. A start
// character may also continue an identifier.
func init() {
	sample := func(tab *unicode.RangeTable, all bool) (out []string) {
		add := func(r rune) { out = append(out, string(r)) }
		n := 0
		for _, r := range tab.R16 {
			if all {
				for c := rune(r.Lo); c <= rune(r.Hi); c += rune(r.Stride) {
					add(c)
				}
			} else if n < 3 {
				add(rune(r.Lo))
				add(rune(r.Hi))
			}
			n++
		}
		if len(tab.R16) > 3 && !all {
			add(rune(tab.R16[len(tab.R16)-1].Hi))
		}
		for i, r := range tab.R32 {
			if all {
				for c := rune(r.Lo); c <= rune(r.Hi); c += rune(r.Stride) {
					add(c)
				}
			} else if i == 0 || i == len(tab.R32)-1 {
				add(rune(r.Lo))
				add(rune(r.Hi))
			}
		}
		return out
	}
	for _, tab := range []*unicode.RangeTable{unicode.Lu, unicode.Ll, unicode.Lt, unicode.Lm, unicode.Lo, unicode.Nl} {
		x := sample(tab, false)
		idStarts = append(idStarts, x...)
		idConts = append(idConts, x...)
	}
	x := sample(unicode.Other_ID_Start, true)
	idStarts = append(idStarts, x...)
	idConts = append(idConts, x...)
	for _, tab := range []*unicode.RangeTable{unicode.Mn, unicode.Mc, unicode.Nd, unicode.Pc} {
		idConts = append(idConts, sample(tab, false)...)
	}
	idConts = append(idConts, sample(unicode.Other_ID_Continue, true)...)
}

func identifier(t *rapid.T) string {
	for {
		s := rapid.SampledFrom(idStarts).Draw(t, "idstart")
		for n := rapid.IntRange(0, 4).Draw(t, "idlen"); n > 0; n-- {
			s += rapid.SampledFrom(idConts).Draw(t, "idcont")
		}
		if _, isKw := keywords[s]; !isKw {
			return s
		}
	}
}

func digitsSep(t *rapid.T, set string, min, max int) string {
	n := rapid.IntRange(min, max).Draw(t, "ndig")
	var sb strings.Builder
	for i := 0; i < n; i++ {
		if i > 0 && rapid.IntRange(0, 5).Draw(t, "sep") == 0 {
			sb.WriteByte('_')
		}
		sb.WriteByte(set[rapid.IntRange(0, len(set)-1).Draw(t, "dig")])
	}
	return sb.String()
}

func numeric(t *rapid.T) tok {
	switch rapid.IntRange(0, 9).Draw(t, "numform") {
	case 0:
		p := rapid.SampledFrom([]string{"0x", "0X"}).Draw(t, "p")
		return tok{js.HexadecimalToken, p + digitsSep(t, "0123456789abcdefABCDEF", 1, 6) + rapid.SampledFrom([]string{"", "", "n"}).Draw(t, "big"), "numeric"}
	case 1:
		p := rapid.SampledFrom([]string{"0b", "0B"}).Draw(t, "p")
		return tok{js.BinaryToken, p + digitsSep(t, "01", 1, 8) + rapid.SampledFrom([]string{"", "", "n"}).Draw(t, "big"), "numeric"}
	case 2:
		p := rapid.SampledFrom([]string{"0o", "0O"}).Draw(t, "p")
		return tok{js.OctalToken, p + digitsSep(t, "01234567", 1, 6) + rapid.SampledFrom([]string{"", "", "n"}).Draw(t, "big"), "numeric"}
	case 3:
		return tok{js.IntegerToken, rapid.SampledFrom([]string{"0", "0n", "7", "7n"}).Draw(t, "small"), "numeric"}
	case 4:
		return tok{js.IntegerToken, rapid.SampledFrom([]string{"1", "2", "9"}).Draw(t, "d1") + digitsSepOpt(t) + rapid.SampledFrom([]string{"", "", "n"}).Draw(t, "big"), "numeric"}
	}
	// decimal with dot and/or exponent
	intPart := rapid.SampledFrom([]string{"0", "1", "5", "12", "9_0", ""}).Draw(t, "int")
	s := intPart
	hasDot := rapid.Bool().Draw(t, "dot") || intPart == ""
	hasExp := false
	if hasDot {
		s += "."
		if intPart == "" || rapid.Bool().Draw(t, "fracdigits") {
			s += digitsSep(t, "0123456789", 1, 4)
		}
	}
	if !hasDot || rapid.Bool().Draw(t, "exp") {
		hasExp = true
		s += rapid.SampledFrom([]string{"e", "E"}).Draw(t, "e") + rapid.SampledFrom([]string{"", "+", "-"}).Draw(t, "esign") + digitsSep(t, "0123456789", 1, 3)
	}
	_ = hasExp
	return tok{js.DecimalToken, s, "numeric"}
}

func digitsSepOpt(t *rapid.T) string {
	if rapid.Bool().Draw(t, "more") {
		if rapid.IntRange(0, 3).Draw(t, "us") == 0 {
			return "_" + digitsSep(t, "0123456789", 1, 5)
		}
		return digitsSep(t, "0123456789", 1, 5)
	}
	return ""
}

var lts = []string{"\n", "\r", "\r\n", "\u2028", "\u2029"}

// boundaryPad: one content in sixty is padded in front to a length next to a multiple of 4096 (the block sizes in which a
// scanner may search for a closing delimiter)
func boundaryPad(t *rapid.T, s string) string {
	if rapid.IntRange(0, 59).Draw(t, "boundarylen") != 0 {
		return s
	}
	n := rapid.SampledFrom([]int{4093, 4094, 4095, 4096, 4097, 8190, 8191, 8192, 8193}).Draw(t, "contentlen")
	if len(s) >= n {
		return s
	}
	return strings.Repeat("x", n-len(s)) + s
}

func stringTok(t *rapid.T) string {
	q := rapid.SampledFrom([]string{`"`, `'`}).Draw(t, "quote")
	other := `'`
	if q == `'` {
		other = `"`
	}
	var sb strings.Builder
	sb.WriteString(q)
	sb.WriteString(boundaryPad(t, ""))
	for n := rapid.IntRange(0, 5).Draw(t, "strn"); n > 0; n-- {
		sb.WriteString(rapid.SampledFrom([]string{"a", " ", "é", other, `\` + q, `\\`, `\n`, `\x41`, `\u0041`, `\u{1F600}`, `\0`, "\\\n", "\\\r\n", "\\\r", "\\\u2028", "\\\u2029", "\u2028", "//", "/*", "`", "${", "\t", `\` + other}).Draw(t, "strpart"))
	}
	sb.WriteString(q)
	return sb.String()
}

func templateChars(t *rapid.T) string {
	var sb strings.Builder
	for n := rapid.IntRange(0, 4).Draw(t, "tn"); n > 0; n-- {
		sb.WriteString(rapid.SampledFrom([]string{"a", " ", "\n", "é", "$", "{", "}", "\\`", "\\${", "\\\\", "$a", "'", "\"", "//", "/*", "\u2028", "\\n"}).Draw(t, "tpart"))
	}
	s := sb.String()
	// "$" directly followed by "{" would open a substitution
	return strings.ReplaceAll(s, "${", "$ {")
}

type generator struct {
	t     *rapid.T
	out   []tok
	run   string // text of the unseparated run of punctuator tokens at the end of out
	runN  []string
	unsep int
	depth int
}

// munch splits a run of punctuator characters the way the lexical grammar does (longest match, "?." not before a digit)
func munch(s string) []string {
	var out []string
	for len(s) > 0 {
		best := ""
		for _, p := range punctList {
			if strings.HasPrefix(s, p) && len(p) > len(best) {
				if p == "?." && len(s) > 2 && s[2] >= '0' && s[2] <= '9' {
					continue
				}
				best = p
			}
		}
		if best == "" {
			return nil
		}
		out = append(out, best)
		s = s[len(best):]
	}
	return out
}

func isIDContinueStart(s string) bool {
	r, _ := utf8.DecodeRuneInString(s)
	return r == '$' || r == '_' || r == '\\' || r == '\u200c' || r == '\u200d' || unicode.IsLetter(r) || unicode.IsDigit(r) || unicode.In(r, unicode.Mn, unicode.Mc, unicode.Nl, unicode.Pc, unicode.Other_ID_Start, unicode.Other_ID_Continue)
}

// mustSeparate: could writing b directly behind a change how either is lexed? (conservative)
func (g *generator) mustSeparate(a, b tok) bool {
	switch a.kind {
	case "ident", "keyword", "private", "regexp":
		if isIDContinueStart(b.text) {
			return true
		}
	case "numeric":
		if isIDContinueStart(b.text) || b.text[0] == '.' {
			return true
		}
	case "ws":
		return b.kind == "ws"
	case "lt":
		return b.kind == "lt"
	case "linecomment":
		return b.kind != "lt"
	}
	if a.kind == "punct" && strings.HasSuffix(a.text, ".") && b.text[0] >= '0' && b.text[0] <= '9' {
		return true
	}
	if a.kind == "punct" && (b.kind == "punct" || b.kind == "comment" || b.kind == "linecomment" || b.kind == "regexp" || b.kind == "htmlopen" || b.kind == "htmlclose") {
		if b.kind != "punct" {
			// "/" before "//", "/*" or a regular expression, "<" "!" before "--": keep them apart
			return strings.ContainsAny(a.text[len(a.text)-1:], "/<!-")
		}
		run := g.run + b.text
		want := append(append([]string(nil), g.runN...), b.text)
		got := munch(run)
		if len(got) != len(want) {
			return true
		}
		for i := range got {
			if got[i] != want[i] {
				return true
			}
		}
		if strings.Contains(run, "//") || strings.Contains(run, "/*") || strings.Contains(run, "<!--") || strings.Contains(run, "-->") {
			return true
		}
	}
	if a.kind == "punct" && b.kind == "numeric" && strings.HasSuffix(g.run, "..") && b.text[0] == '.' {
		return true // ". . .5" written without separators is "..." "5" (a false alarm of the thorough tier: the relation had let it pass)
	}
	if a.kind == "punct" && b.kind == "numeric" && strings.HasSuffix(a.text, "?") && b.text[0] == '.' {
		return false // "?" ".5" lexes as written
	}
	return false
}

func (g *generator) emit(k tok) {
	t := g.t
	if len(g.out) > 0 {
		prev := g.out[len(g.out)-1]
		need := g.mustSeparate(prev, k)
		mode := rapid.IntRange(0, 5).Draw(t, "sep")
		if prev.kind == "linecomment" {
			// everything up to the line terminator belongs to the comment
			if k.kind != "lt" {
				g.push(tok{js.LineTerminatorToken, rapid.SampledFrom(lts).Draw(t, "lt"), "lt"})
			}
		} else if need || mode >= 3 {
			switch {
			case mode == 5 && prev.kind != "ws" && k.kind != "ws" && !(prev.kind == "punct" && strings.HasSuffix(prev.text, "/")):
				g.push(tok{js.CommentToken, "/*" + rapid.SampledFrom([]string{"", "c", "*", " x "}).Draw(t, "cbody") + "*/", "comment"})
			case mode == 4 && prev.kind != "lt" && k.kind != "lt" && k.kind != "htmlclose":
				g.push(tok{js.LineTerminatorToken, rapid.SampledFrom(lts).Draw(t, "lt"), "lt"})
			case prev.kind != "ws" && k.kind != "ws":
				g.push(tok{js.WhitespaceToken, rapid.SampledFrom([]string{" ", "\t", "  ", "\v", "\f", "\u00a0", "\ufeff", "\u2003", " \t", "\u3000"}).Draw(t, "ws"), "ws"})
			case prev.kind == "punct" && strings.HasSuffix(prev.text, "/"):
				g.push(tok{js.LineTerminatorToken, "\n", "lt"})
			default:
				g.push(tok{js.CommentToken, "/**/", "comment"})
			}
		} else {
			g.unsep++
		}
	}
	g.push(k)
}

// lineStart: only whitespace and comments stand between the last line terminator (or the start of the input) and here
func (g *generator) lineStart() bool {
	for i := len(g.out) - 1; i >= 0; i-- {
		switch k := g.out[i]; {
		case k.kind == "lt" || k.kind == "linecomment" || k.tt == js.CommentLineTerminatorToken:
			return true
		case k.kind == "ws" || k.kind == "comment":
		default:
			return false
		}
	}
	return true
}

func (g *generator) push(k tok) {
	if k.kind == "punct" && len(g.out) > 0 && g.out[len(g.out)-1].kind == "punct" && g.run != "" {
		g.run += k.text
		g.runN = append(g.runN, k.text)
	} else if k.kind == "punct" {
		g.run, g.runN = k.text, []string{k.text}
	} else {
		g.run, g.runN = "", nil
	}
	g.out = append(g.out, k)
}

var plainKinds = []string{"ident", "ident", "keyword", "punct", "punct", "numeric", "string", "template", "comment", "linecomment", "ws", "lt", "private", "htmlopen", "htmlclose", "arrowtail", "tmplsub", "braces", "parens"}

// tokens emits n tokens; inside a template substitution only balanced brackets are produced
func (g *generator) tokens(n int, inSub bool) {
	t := g.t
	for i := 0; i < n; i++ {
		kind := rapid.SampledFrom(plainKinds).Draw(t, "kind")
		switch kind {
		case "ident":
			g.emit(tok{js.IdentifierToken, identifier(t), "ident"})
		case "keyword":
			s := rapid.SampledFrom(keywordList).Draw(t, "kw")
			g.emit(tok{keywords[s], s, "keyword"})
		case "punct":
			s := rapid.SampledFrom(punctList).Draw(t, "punct")
			if strings.ContainsAny(s, "{}()") && s != "=>" {
				continue // brackets are produced in balanced pairs below: the template machinery counts them
			}
			g.emit(tok{punctuators[s], s, "punct"})
		case "numeric":
			g.emit(numeric(t))
		case "string":
			g.emit(tok{js.StringToken, stringTok(t), "string"})
		case "template":
			g.emit(tok{js.TemplateToken, "`" + templateChars(t) + "`", "template"})
		case "comment":
			// 1-3 pieces: stars, slashes and every line terminator in every adjacency (a terminator directly behind a star,
			// a star directly in front of the closing one)
			body := ""
			for k := rapid.IntRange(0, 3).Draw(t, "cbodyn"); k > 0; k-- {
				body += rapid.SampledFrom([]string{"", "x", "*", "/", " * / ", "\n", "a\r\nb", "\u2028", "\u2029", "\r", "//", "é", "`", "'", "**", "* ", "/*"}).Draw(t, "cbody")
			}
			body = boundaryPad(t, strings.ReplaceAll(body, "*/", "* /"))
			tt := js.CommentToken
			if strings.ContainsAny(body, "\n\r") || strings.Contains(body, "\u2028") || strings.Contains(body, "\u2029") {
				tt = js.CommentLineTerminatorToken
			}
			g.emit(tok{tt, "/*" + body + "*/", "comment"})
		case "linecomment":
			g.emit(tok{js.CommentToken, "//" + rapid.SampledFrom([]string{"", "x", " a /* b */", "é", "`'\""}).Draw(t, "lcbody"), "linecomment"})
		case "htmlopen":
			g.emit(tok{js.CommentToken, "<!--" + rapid.SampledFrom([]string{"", " x", "-->"}).Draw(t, "hbody"), "linecomment"})
		case "htmlclose":
			// only recognised at the start of a line (optionally after whitespace)
			if len(g.out) > 0 && g.out[len(g.out)-1].kind != "lt" {
				g.push(tok{js.LineTerminatorToken, rapid.SampledFrom(lts).Draw(t, "lt"), "lt"})
			}
			if rapid.Bool().Draw(t, "wsbefore") && len(g.out) > 0 {
				g.push(tok{js.WhitespaceToken, " ", "ws"})
			}
			g.push(tok{js.CommentToken, "-->" + rapid.SampledFrom([]string{"", " x"}).Draw(t, "hbody"), "linecomment"})
		case "arrowtail":
			// "-->" that is NOT at the start of a line is the two punctuators -- and >, whatever whitespace or single-line
			// comment stands in front of it
			if g.lineStart() {
				g.emit(tok{js.IdentifierToken, "x", "ident"})
			}
			if g.lineStart() {
				continue
			}
			if last := g.out[len(g.out)-1]; last.kind == "ws" {
				// whitespace is already there
			} else if rapid.Bool().Draw(t, "wsbefore") || last.kind == "punct" {
				g.push(tok{js.WhitespaceToken, rapid.SampledFrom([]string{" ", "\t", "\u00a0", "\ufeff", "\u2003", "\u00a0 ", " \u00a0", "\u3000"}).Draw(t, "ws"), "ws"})
			}
			g.push(tok{js.DecrToken, "--", "punct"})
			g.push(tok{js.GtToken, ">", "punct"})
		case "ws":
			g.emit(tok{js.WhitespaceToken, rapid.SampledFrom([]string{" ", "\t", "\v\f", "  ", "\ufeff", "\u00a0", "\u2003", "\u3000 "}).Draw(t, "ws"), "ws"})
		case "lt":
			g.emit(tok{js.LineTerminatorToken, rapid.SampledFrom([]string{"\n", "\r", "\r\n", "\u2028", "\u2029", "\n\n", "\r\n\n", "\u2028\n"}).Draw(t, "lt"), "lt"})
		case "private":
			g.emit(tok{js.PrivateIdentifierToken, "#" + identifier(t), "private"})
		case "tmplsub":
			if g.depth >= 4 {
				continue
			}
			g.depth++
			g.emit(tok{js.TemplateStartToken, "`" + templateChars(t) + "${", "tmplpart"})
			parts := rapid.IntRange(0, 2).Draw(t, "middles")
			for p := 0; p <= parts; p++ {
				g.tokens(rapid.IntRange(0, 3).Draw(t, "subn"), true)
				g.closeLineComment()
				if p < parts {
					g.push(tok{js.TemplateMiddleToken, "}" + templateChars(t) + "${", "tmplpart"})
				}
			}
			g.push(tok{js.TemplateEndToken, "}" + templateChars(t) + "`", "tmplpart"})
			g.depth--
		case "braces", "parens":
			if g.depth >= 4 {
				continue
			}
			g.depth++
			open, close := "{", "}"
			if kind == "parens" {
				open, close = "(", ")"
			}
			g.emit(tok{punctuators[open], open, "punct"})
			g.tokens(rapid.IntRange(0, 3).Draw(t, "inner"), inSub)
			g.emit(tok{punctuators[close], close, "punct"})
			g.depth--
		}
	}
}

// a line comment must be ended before a template continuation
func (g *generator) closeLineComment() {
	if len(g.out) > 0 && g.out[len(g.out)-1].kind == "linecomment" {
		g.push(tok{js.LineTerminatorToken, "\n", "lt"})
	}
}

// twin: a second live js.Lexer inside template literals at several brace depths, stepped between every call on the
// lexer under test and the use of its result (gen.Twin)
var twin = gen.Twin{New: func() func() bool {
	l := js.NewLexer(parse.NewInputString("{{`p${ {q:1} }r${`n${x}m`}s`}};a=`t${1}u`;/*c*/[`${{}}`]"))
	return func() bool { tt, _ := l.Next(); return tt != js.ErrorToken }
}}

const jsTail = "}`;x=1//"

func lexAll(t *rapid.T, src string) []tok {
	input, how, check := gen.Supply([]byte(src), jsTail)
	defer func() {
		input.Restore()
		if ok, rest := check(true); !ok {
			t.Fatalf("lexing %q (%s) changed the caller's buffer: %q", src, how, rest)
		}
	}()
	l := js.NewLexer(input)
	var out []tok
	for i := 0; i <= len(src)+1; i++ {
		tt, data := l.Next()
		twin.Step()
		gen.Extend(data)
		_ = l.Err() // polled after every call: reading the error state must not disturb the lexer
		if tt == js.ErrorToken {
			if l.Err() != nil && data == nil {
				if _, ok := l.Err().(*parse.Error); ok {
					out = append(out, tok{js.ErrorToken, l.Err().Error(), ""})
				}
				break
			}
			out = append(out, tok{js.ErrorToken, string(data), ""})
			continue
		}
		out = append(out, tok{tt, string(data), ""})
	}
	return out
}

func TestProp_Tokens(t *testing.T) {
	ev.Describe("tokens", "sequences of ECMAScript tokens: identifiers (ASCII, $ _, Unicode ID_Start/ID_Continue samples, ZWNJ/ZWJ, \\uXXXX and \\u{X} with up to 15 hex digits), all 54 keywords, all 57 punctuators/operators, numeric literals (decimal with ./exponent/separators, 0x 0b 0o in both cases, BigInt), strings (both quotes, escapes, line continuations incl. CRLF/U+2028), templates (no-substitution and head/middle/tail with nested templates to depth 4 and balanced braces/parentheses inside substitutions), comments (line, block with/without line terminators, <!-- and --> at line start, --> in mid-line behind any whitespace as the punctuators -- >), whitespace incl. NBSP/BOM/Zs, line terminators, private identifiers; separated by whitespace/comment/line terminator wherever a conservative maximal-munch relation says two tokens could merge, otherwise by nothing or a drawn separator; oracle: exact (type, text) sequence incl. separators, types from a table written from ECMA-262; non-trivial = >= 4 tokens and >= 1 unseparated adjacency")
	ev.Check(t, 30000, func(t *rapid.T) {
		g := &generator{t: t}
		g.tokens(rapid.IntRange(1, 10).Draw(t, "ntok"), false)
		if len(g.out) == 0 {
			g.emit(tok{js.IdentifierToken, "a", "ident"})
		}
		var sb strings.Builder
		for _, k := range g.out {
			sb.WriteString(k.text)
		}
		src := sb.String()
		got := lexAll(t, src)
		for i := 0; i < len(g.out) || i < len(got); i++ {
			if i >= len(got) || i >= len(g.out) || got[i].tt != g.out[i].tt || got[i].text != g.out[i].text {
				t.Fatalf("%q lexes as\n  %v\nwant\n  %v\n(first difference at token %d)", src, got, g.out, i)
			}
		}
		var cls []string
		for i, k := range g.out {
			cls = append(cls, "kind="+k.kind)
			if i > 0 {
				_ = i
			}
		}
		ev.Case("tokens", src, len(g.out) >= 4 && g.unsep > 0, cls...)
	})
}

// ---------- regular expression literals through Next() + RegExp()

func regexpBody(t *rapid.T) string {
	first := rapid.SampledFrom([]string{"a", "=", "^", "(", "[x]", "\\/", "\\d", ".", "é", " ", "[/]", "[\\]/]", "$", "?"}).Draw(t, "first")
	if first == "?" {
		first = "a?"
	}
	var sb strings.Builder
	sb.WriteString(first)
	for n := rapid.IntRange(0, 5).Draw(t, "ren"); n > 0; n-- {
		sb.WriteString(rapid.SampledFrom([]string{"a", "*", "+", "\\/", "\\\\", "[/]", "[^/\\]]", "[a-z/]", "(?:x)", "|", "\\[", "{1,2}", "é", "=", "'", "\"", "`", "//"[:1] + "x", "[//]", "\\ ",
			// inside a class an unescaped [ is an ordinary character (the class ends at the first unescaped ]); a class may
			// start with ] only escaped; escaped backslashes in front of the closing bracket
			"[[]", "[^[]", "[[/]", "[a[b/]", "[\\\\]", "[/\\\\]", "[\\]/]", "[]", "[^]", "[(]", "[)/]"}).Draw(t, "repart"))
	}
	s := sb.String()
	// an unescaped "/" outside a class would end the literal: the parts above only contain it escaped or in a class,
	// except the deliberate "/x" part which is rewritten here
	return strings.ReplaceAll(s, "/x", "\\/x")
}

func TestProp_RegExp(t *testing.T) {
	ev.Describe("regexp", "a prefix token, then /body/flags with the body drawn from the RegularExpressionLiteral grammar (first character not * or /, classes containing / and \\], escaped /, escaped backslash) and flags from ID_Continue characters, then a follower token that cannot extend the flags; oracle: Next() returns DivToken (DivEqToken when the body starts with =), RegExp() returns RegExpToken == the whole literal, and the next token is the follower; non-trivial = body contains a class with / or an escaped /")
	ev.Check(t, 20000, func(t *rapid.T) {
		prefix := rapid.SampledFrom([]string{"", "a=", "x = ", "(", "return ", "a\n", "!", "[", ","}).Draw(t, "prefix")
		body := regexpBody(t)
		flags := rapid.SampledFrom([]string{"", "g", "gi", "dgimsuy", "é", "g0", "$"}).Draw(t, "flags")
		follower := rapid.SampledFrom([]string{"", ";", " ", "\n", ")", ".test", "/2", "]", ",", "+1",
			// an identifier that starts with an escape is a token of its own (flags are written without escapes)
			"\\u0062", "\\u{62}c", "\\u0041b", "#p", "`t`", "'s'", "?.x", "=>"}).Draw(t, "follower")
		lit := "/" + body + "/" + flags
		src := prefix + lit + follower
		in := parse.NewInputString(src)
		l := js.NewLexer(in)
		// skip the prefix tokens
		for in.Offset() < len(prefix) {
			l.Next()
		}
		tt, data := l.Next()
		wantFirst, wantText := js.DivToken, "/"
		if strings.HasPrefix(body, "=") {
			wantFirst, wantText = js.DivEqToken, "/="
		}
		if tt != wantFirst || string(data) != wantText {
			t.Fatalf("%q: Next() at the literal returns %v %q, want %v", src, tt, data, wantFirst)
		}
		rt, rdata := l.RegExp()
		if rt != js.RegExpToken || string(rdata) != lit {
			t.Fatalf("%q: RegExp() returns %v %q (err %v), want RegExp %q", src, rt, rdata, l.Err(), lit)
		}
		if follower != "" {
			ft, fdata := l.Next()
			if ft == js.ErrorToken || !strings.HasPrefix(follower, string(fdata)) {
				t.Fatalf("%q: the token after the literal is %v %q, want the start of %q", src, ft, fdata, follower)
			}
		}
		ev.Case("regexp", src, strings.Contains(body, "/"), fmt.Sprintf("diveq=%v", wantFirst == js.DivEqToken))
	})
}

// ---------- on all inputs: canonical spelling of keyword/punctuator/operator tokens

var jsFrags = []string{"a", "in", "of", "let", "async", "await", "yield", "static", "get", "target", "instanceof", "=>", "...", "..", ".", "?.", "?.5", "??=", ">>>=", ">>>", "**=", "&&=", "||=", "!==", "===", "<<=", "++", "--", "-->", "<!--", "~", "~=", "?=", "#", "#a", "@",
	"1", "1.", ".5", "1e", "1e5", "0x", "0xg", "1n", "1a", "0b2", "00", "1_", "1__0", "\\u0061", "\\u{}", "\\u00", "'", "\"", "'a'", "`", "${", "}", "{", "(", ")", "/", "/*", "*/", "//", "\n", " ", "\u2028", "\u00a0", "é", "\x00", "\\", ";", ","}

func TestProp_Canonical(t *testing.T) {
	ev.Describe("canonical", "arbitrary valid-UTF-8 strings of 0-14 JS fragments (operators and their prefixes, keywords, broken numbers/escapes/strings/templates, NUL); oracle: every returned token whose type is a punctuator, operator, reserved word or contextual keyword has data equal to TokenType.Bytes(), equal to the spelling table of the harness, and String() agrees; every identifier token is not a keyword spelling; a multi-line comment is CommentLineTerminatorToken exactly when it contains a line terminator; non-trivial = >= 3 such tokens")
	ev.Check(t, 30000, func(t *rapid.T) {
		src := string(gen.Fragments(t, "frag", jsFrags, 14))
		if !utf8.ValidString(src) {
			src = strings.ToValidUTF8(src, "?")
		}
		l := js.NewLexer(parse.NewInputString(src))
		n := 0
		for i := 0; i <= len(src)+1; i++ {
			tt, data := l.Next()
			if tt == js.ErrorToken {
				if data == nil {
					break
				}
				continue
			}
			switch {
			case js.IsPunctuator(tt) || js.IsOperator(tt):
				n++
				if want, ok := punctuators[string(data)]; !ok || want != tt || !bytes.Equal(tt.Bytes(), data) || tt.String() != string(data) {
					t.Fatalf("%q: token %q has type %v (Bytes %q)", src, data, tt, tt.Bytes())
				}
			case js.IsReservedWord(tt) || (js.IsIdentifier(tt) && tt != js.IdentifierToken):
				n++
				if want, ok := keywords[string(data)]; !ok || want != tt || !bytes.Equal(tt.Bytes(), data) {
					t.Fatalf("%q: token %q has type %v (Bytes %q)", src, data, tt, tt.Bytes())
				}
			case tt == js.IdentifierToken:
				if _, ok := keywords[string(data)]; ok {
					t.Fatalf("%q: keyword %q returned as plain identifier", src, data)
				}
			case tt == js.CommentToken || tt == js.CommentLineTerminatorToken:
				if bytes.HasPrefix(data, []byte("/*")) {
					hasLT := bytes.ContainsAny(data, "\n\r") || bytes.Contains(data, []byte("\u2028")) || bytes.Contains(data, []byte("\u2029"))
					if hasLT != (tt == js.CommentLineTerminatorToken) {
						t.Fatalf("%q: comment %q has type %v", src, data, tt)
					}
				}
			}
		}
		ev.Case("canonical", src, n >= 3)
	})
}
