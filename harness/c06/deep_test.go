package c06

import (
	"strings"
	"testing"

	"github.com/tdewolff/parse/v2"
	"github.com/tdewolff/parse/v2/js"

	"verif/internal/ev"
)

// TestProp_DeepTemplates: templates nested in substitutions of templates, to any depth (the lexer has no nesting limit of
// its own; 64 and 1000 are sizes at which a fixed-width or borrowed bound would show), and braces nested in one substitution
func TestProp_DeepTemplates(t *testing.T) {
	ev.Describe("deeptemplates", "`${ nested d times around an identifier, d in {1, 63, 64, 65, 999, 1000, 1001, 1002, 1500, 5000}, and one substitution that holds d nested braces; oracle: d TemplateStart tokens, the identifier, d TemplateEnd tokens (resp. TemplateStart, d open braces, the identifier, d close braces, TemplateEnd), nothing else; non-trivial = d >= 64")
	for _, d := range []int{1, 63, 64, 65, 999, 1000, 1001, 1002, 1500, 5000} {
		for variant := 0; variant < 2; variant++ {
			var src string
			var want []js.TokenType
			if variant == 0 {
				src = strings.Repeat("`${", d) + "x" + strings.Repeat("}`", d)
				for i := 0; i < d; i++ {
					want = append(want, js.TemplateStartToken)
				}
				want = append(want, js.IdentifierToken)
				for i := 0; i < d; i++ {
					want = append(want, js.TemplateEndToken)
				}
			} else {
				src = "`${" + strings.Repeat("{", d) + "x" + strings.Repeat("}", d) + "}`"
				want = append(want, js.TemplateStartToken)
				for i := 0; i < d; i++ {
					want = append(want, js.OpenBraceToken)
				}
				want = append(want, js.IdentifierToken)
				for i := 0; i < d; i++ {
					want = append(want, js.CloseBraceToken)
				}
				want = append(want, js.TemplateEndToken)
			}
			l := js.NewLexer(parse.NewInputString(src))
			for i := 0; ; i++ {
				tt, data := l.Next()
				if tt == js.ErrorToken {
					if i != len(want) {
						t.Fatalf("depth %d variant %d: the token stream ends after %d tokens (%v), want %d", d, variant, i, l.Err(), len(want))
					}
					break
				}
				if i >= len(want) || tt != want[i] {
					t.Fatalf("depth %d variant %d: token %d is %v %q, want %v", d, variant, i, tt, data, want[min(i, len(want)-1)])
				}
			}
			ev.Case("deeptemplates", src[:min(len(src), 40)], d >= 64, map[int]string{0: "nested-templates", 1: "nested-braces"}[variant])
		}
	}
}
