package c07

import (
	"bytes"
	"fmt"
	"strconv"
	"strings"
	"testing"
	"unicode/utf8"

	"github.com/tdewolff/parse/v2"
	"github.com/tdewolff/parse/v2/css"
	"pgregory.net/rapid"

	"verif/internal/ev"
	"verif/internal/gen"
)

func TestMain(m *testing.M) { ev.Main(m, "C07") }

type tok struct {
	tt   css.TokenType
	text string
}

func (k tok) String() string { return fmt.Sprintf("%v(%q)", k.tt, k.text) }

// ---------- token generators, one per railroad diagram

var nonASCII = []string{"é", "ß", "中", "😀", " ", "​", "\ufeff", "\u0085", "\u2028", "\u00ad", "\ufffd", "\U0010ffff"}

// a non-hex escape: backslash + any character that is not a hex digit, newline or NUL; a hex escape is six digits, or fewer digits closed by one whitespace character or by a character that is not a hex digit
func escape(t *rapid.T) string {
	if rapid.Bool().Draw(t, "hexesc") {
		switch rapid.IntRange(0, 3).Draw(t, "hexform") {
		case 0:
			// six hex digits need no terminator: a following name character (also a hex digit) is not part of the escape
			// (one whitespace character directly behind the digits would be: that is form 2)
			return `\` + rapid.StringMatching(`[0-9a-fA-F]{6}`).Draw(t, "hex6") + rapid.SampledFrom([]string{"0", "1", "a", "F", "g", "-", "_"}).Draw(t, "hex7")
		case 1:
			// fewer than six digits are ended by any character that is not a hex digit
			return `\` + rapid.StringMatching(`[0-9a-fA-F]{1,5}`).Draw(t, "hex5") + rapid.SampledFrom([]string{"g", "z", "-", "_", "é", "G"}).Draw(t, "hexend")
		case 2:
			// one whitespace character ends the escape and belongs to it; \r\n counts as one
			return `\` + rapid.StringMatching(`[0-9a-fA-F]{1,6}`).Draw(t, "hex") + rapid.SampledFrom([]string{" ", "\t", "\n", "\f", "\r\n", "\r\n"}).Draw(t, "hexws")
		}
		return `\` + rapid.StringMatching(`[0-9a-fA-F]{1,6}`).Draw(t, "hex") + " "
	}
	return `\` + rapid.SampledFrom([]string{"{", "}", "(", ")", " ", "\\", "\"", "'", "g", "z", "-", "+", ".", "#", "@", "é", "😀", ";", ":", "/", "*", "\t"}).Draw(t, "escchar")
}

func nameStart(t *rapid.T) string {
	switch rapid.IntRange(0, 9).Draw(t, "ns") {
	case 0:
		return "_"
	case 1:
		return rapid.SampledFrom(nonASCII).Draw(t, "na")
	case 2:
		return escape(t)
	}
	return rapid.SampledFrom(strings.Split("a b c d e f g h x y z A E F U u r l R L", " ")).Draw(t, "letter")
}

func nameChars(t *rapid.T, min, max int) string {
	n := rapid.IntRange(min, max).Draw(t, "nchars")
	var sb strings.Builder
	for i := 0; i < n; i++ {
		switch rapid.IntRange(0, 9).Draw(t, "nc") {
		case 0:
			sb.WriteString("-")
		case 1:
			sb.WriteString("_")
		case 2:
			sb.WriteString(rapid.SampledFrom([]string{"0", "1", "9"}).Draw(t, "digit"))
		case 3:
			sb.WriteString(rapid.SampledFrom(nonASCII).Draw(t, "na"))
		case 4:
			sb.WriteString(escape(t))
		default:
			sb.WriteString(rapid.SampledFrom(strings.Split("a b e f m n p r t u l x A E Z", " ")).Draw(t, "letter"))
		}
	}
	return sb.String()
}

// isURLName: the identifier spells url once its escapes are decoded (CSS Syntax 4.3.4: the check is on the value)
func isURLName(s string) bool {
	var out []rune
	for i := 0; i < len(s); {
		r, n := utf8.DecodeRuneInString(s[i:])
		i += n
		if r != '\\' || i >= len(s) {
			out = append(out, r)
			continue
		}
		j := i
		v := 0
		for j < len(s) && j-i < 6 && strings.IndexByte("0123456789abcdefABCDEF", s[j]) >= 0 {
			d, _ := strconv.ParseInt(s[j:j+1], 16, 32)
			v = v<<4 | int(d)
			j++
		}
		if j == i {
			r, n = utf8.DecodeRuneInString(s[i:])
			i += n
			out = append(out, r)
			continue
		}
		if strings.HasPrefix(s[j:], "\r\n") {
			j += 2
		} else if j < len(s) && strings.IndexByte(" \t\n\r\f", s[j]) >= 0 {
			j++
		}
		i = j
		out = append(out, rune(v))
	}
	return strings.EqualFold(string(out), "url")
}

func ident(t *rapid.T) string {
	for {
		s := ""
		if rapid.IntRange(0, 4).Draw(t, "dash") == 0 {
			s = "-"
		}
		s += nameStart(t) + nameChars(t, 0, 5)
		if !isURLName(s) {
			return s
		}
	}
}

func number(t *rapid.T) string {
	s := rapid.SampledFrom([]string{"", "", "+", "-"}).Draw(t, "sign")
	switch rapid.IntRange(0, 2).Draw(t, "numform") {
	case 0:
		s += rapid.StringMatching(`[0-9]{1,4}`).Draw(t, "int")
	case 1:
		s += rapid.StringMatching(`[0-9]{1,3}\.[0-9]{1,3}`).Draw(t, "dec")
	case 2:
		s += rapid.StringMatching(`\.[0-9]{1,3}`).Draw(t, "frac")
	}
	if rapid.IntRange(0, 3).Draw(t, "hasexp") == 0 {
		s += rapid.SampledFrom([]string{"e", "E"}).Draw(t, "e") + rapid.SampledFrom([]string{"", "+", "-"}).Draw(t, "esign") + rapid.StringMatching(`[0-9]{1,2}`).Draw(t, "exp")
	}
	return s
}

func stringTok(t *rapid.T, bad bool) string {
	q := rapid.SampledFrom([]string{`"`, `'`}).Draw(t, "quote")
	other := `'`
	if q == `'` {
		other = `"`
	}
	n := rapid.IntRange(0, 5).Draw(t, "strn")
	var sb strings.Builder
	sb.WriteString(q)
	sb.WriteString(boundaryPad(t, ""))
	for i := 0; i < n; i++ {
		sb.WriteString(rapid.SampledFrom([]string{"a", " ", "é", other, `\` + q, `\\`, `\41 `, "\\26\r\n", "\\26\r\nB", "\\\n", "\\\r\n", "\\\f", "/*", "*/", "url(", ")", "{", ";", "<!--", "\t", "\x00"}).Draw(t, "strpart"))
	}
	if bad {
		sb.WriteString(rapid.SampledFrom([]string{"\n", "\f", "\r"}).Draw(t, "rawnl"))
	} else {
		sb.WriteString(q)
	}
	return sb.String()
}

func urlName(t *rapid.T) string {
	// any ASCII case, each letter optionally written as a simple escape (u, r and l are not hex digits)
	var sb strings.Builder
	for _, c := range "url" {
		switch rapid.IntRange(0, 8).Draw(t, "urlletter") {
		case 6, 7:
			// a hexadecimal escape of the lower- or upper-case letter: up to six digits, optionally ended by one whitespace
			// (the next character of the name, or the parenthesis, is not a hex digit)
			v := int(c)
			if rapid.Bool().Draw(t, "urlhexupper") {
				v -= 32
			}
			h := fmt.Sprintf("%x", v)
			if rapid.Bool().Draw(t, "urlhexcase") {
				h = strings.ToUpper(h)
			}
			h = strings.Repeat("0", rapid.IntRange(0, 4).Draw(t, "urlhexpad")) + h
			sb.WriteString(`\` + h + rapid.SampledFrom([]string{"", "", " ", "\t", "\n", "\r\n", "\f"}).Draw(t, "urlhexend"))
		case 0:
			sb.WriteString(strings.ToUpper(string(c)))
		case 1:
			sb.WriteString(`\` + string(c))
		case 2:
			sb.WriteString(`\` + strings.ToUpper(string(c)))
		default:
			sb.WriteRune(c)
		}
	}
	return sb.String()
}

func ws(t *rapid.T, min int) string {
	return rapid.StringOfN(rapid.SampledFrom([]rune(" \t\n\r\f")), min, 3, -1).Draw(t, "ws")
}

func urlTok(t *rapid.T) string {
	s := urlName(t) + "(" + ws(t, 0)
	if rapid.Bool().Draw(t, "quoted") {
		s += stringTok(t, false)
	} else {
		n := rapid.IntRange(0, 6).Draw(t, "urln")
		for i := 0; i < n; i++ {
			s += rapid.SampledFrom([]string{"a", "/", ".", ":", "?", "#", "é", "%20", "&", "=", `\)`, `\(`, `\ `, `\"`, `\41 `, "-", "*", "{", "}", ";", ",", "[", "@"}).Draw(t, "urlpart")
		}
	}
	return s + ws(t, 0) + ")"
}

func badURLTok(t *rapid.T) string {
	s := urlName(t) + "(" + ws(t, 0)
	head := rapid.SampledFrom([]string{"a b", "a\"b", "a'b", "a(b", "a\x01b", "a\x7fb", "a\tb c", "\"x\n", "'y\f", "\"q\" z", "a \"", "b\\\nc"}).Draw(t, "badhead")
	s += head
	n := rapid.IntRange(0, 4).Draw(t, "badn")
	for i := 0; i < n; i++ {
		s += rapid.SampledFrom([]string{"x", " ", `\)`, `\\`, "\"", "'", "(", "{", ";", "\n", "é", "/*", `\41 `}).Draw(t, "badpart")
	}
	return s + ")"
}

func unicodeRange(t *rapid.T) string {
	u := rapid.SampledFrom([]string{"u+", "U+"}).Draw(t, "u")
	switch rapid.IntRange(0, 2).Draw(t, "urform") {
	case 0:
		return u + rapid.StringMatching(`[0-9a-fA-F]{1,6}`).Draw(t, "hex")
	case 1:
		return u + rapid.StringMatching(`[0-9a-fA-F]{1,6}`).Draw(t, "hex") + "-" + rapid.StringMatching(`[0-9a-fA-F]{1,6}`).Draw(t, "hex2")
	}
	h := rapid.StringMatching(`[0-9a-fA-F]{0,5}`).Draw(t, "hex")
	return u + h + strings.Repeat("?", rapid.IntRange(1, 6-len(h)).Draw(t, "q"))
}

var kinds = []string{"ident", "custom", "function", "atkeyword", "hash", "string", "badstring", "url", "badurl", "number", "percentage", "dimension", "urange",
	"match", "column", "cdo", "cdc", "colon", "semicolon", "comma", "bracket", "delim", "whitespace", "comment", "backslash"}

func genTok(t *rapid.T) tok {
	switch rapid.SampledFrom(kinds).Draw(t, "kind") {
	case "ident":
		return tok{css.IdentToken, ident(t)}
	case "custom":
		return tok{css.CustomPropertyNameToken, "--" + nameChars(t, 0, 5)}
	case "function":
		if rapid.IntRange(0, 5).Draw(t, "nearurl") == 0 {
			// not url: one letter is an escape of a code point whose low byte is that letter (U+0175, U+4072, U+10006C)
			letters := []string{"u", "r", "l"}
			i := rapid.IntRange(0, 2).Draw(t, "nearurlletter")
			cp := rapid.SampledFrom([]int{0x100, 0x400, 0x4000, 0x10000, 0x100000}).Draw(t, "nearurlhigh") + int(strings.ToUpper(letters[i])[0]) + 0x20*rapid.IntRange(0, 1).Draw(t, "nearurlcase")
			letters[i] = fmt.Sprintf("\\%x ", cp)
			return tok{css.FunctionToken, strings.Join(letters, "") + "("}
		}
		if rapid.IntRange(0, 4).Draw(t, "dashedfunction") == 0 {
			// an identifier may start with two dashes: followed by a parenthesis it is a function all the same
			return tok{css.FunctionToken, "--" + nameChars(t, 0, 5) + "("}
		}
		return tok{css.FunctionToken, ident(t) + "("}
	case "atkeyword":
		return tok{css.AtKeywordToken, "@" + ident(t)}
	case "hash":
		return tok{css.HashToken, "#" + nameChars(t, 1, 6)}
	case "string":
		return tok{css.StringToken, stringTok(t, false)}
	case "badstring":
		return tok{css.BadStringToken, stringTok(t, true)}
	case "url":
		return tok{css.URLToken, urlTok(t)}
	case "badurl":
		return tok{css.BadURLToken, badURLTok(t)}
	case "number":
		return tok{css.NumberToken, number(t)}
	case "percentage":
		return tok{css.PercentageToken, number(t) + "%"}
	case "dimension":
		unit := rapid.OneOf(rapid.SampledFrom([]string{"px", "em", "e", "E", "e-x", "--x", "-x", "rem", "x1", "Q", "\\65 m", "é"}), rapid.Custom(ident)).Draw(t, "unit")
		n := number(t)
		if (strings.HasPrefix(unit, "e") || strings.HasPrefix(unit, "E")) && strings.ContainsAny(n, "eE") {
			n = "1" // "1e2e" is fine but keep the number free of an exponent when the unit starts with e
		}
		// the unit must not continue the number: e followed by digits/sign+digits
		if len(unit) >= 2 && (unit[0] == 'e' || unit[0] == 'E') && (unit[1] >= '0' && unit[1] <= '9' || ((unit[1] == '-' || unit[1] == '+') && len(unit) >= 3 && unit[2] >= '0' && unit[2] <= '9')) {
			unit = "x" + unit
		}
		return tok{css.DimensionToken, n + unit}
	case "urange":
		return tok{css.UnicodeRangeToken, unicodeRange(t)}
	case "match":
		i := rapid.IntRange(0, 4).Draw(t, "match")
		return tok{[]css.TokenType{css.IncludeMatchToken, css.DashMatchToken, css.PrefixMatchToken, css.SuffixMatchToken, css.SubstringMatchToken}[i], []string{"~=", "|=", "^=", "$=", "*="}[i]}
	case "column":
		return tok{css.ColumnToken, "||"}
	case "cdo":
		return tok{css.CDOToken, "<!--"}
	case "cdc":
		return tok{css.CDCToken, "-->"}
	case "colon":
		return tok{css.ColonToken, ":"}
	case "semicolon":
		return tok{css.SemicolonToken, ";"}
	case "comma":
		return tok{css.CommaToken, ","}
	case "bracket":
		i := rapid.IntRange(0, 5).Draw(t, "bracket")
		return tok{[]css.TokenType{css.LeftParenthesisToken, css.RightParenthesisToken, css.LeftBracketToken, css.RightBracketToken, css.LeftBraceToken, css.RightBraceToken}[i], []string{"(", ")", "[", "]", "{", "}"}[i]}
	case "backslash":
		// a backslash in front of a newline is not an escape: a delimiter (the caller writes the newline behind it)
		return tok{css.DelimToken, "\\"}
	case "delim":
		return tok{css.DelimToken, rapid.SampledFrom(strings.Split("! $ % & * + . / < = > ? ^ ~ | @ # -", " ")).Draw(t, "delim")}
	case "whitespace":
		return tok{css.WhitespaceToken, ws(t, 1)}
	}
	body := rapid.SampledFrom([]string{"", "c", " * ", "/*", "*", "**", "\n", "é", "url(", "\"", "<!--"}).Draw(t, "comment")
	return tok{css.CommentToken, "/*" + boundaryPad(t, body) + "*/"}
}

// boundaryPad: one content in sixty is padded in front to a length next to a multiple of 4096 (the block sizes in which a
// scanner may search for a closing delimiter)
func boundaryPad(t *rapid.T, s string) string {
	if rapid.IntRange(0, 59).Draw(t, "boundarylen") != 0 {
		return s
	}
	n := rapid.SampledFrom([]int{4093, 4094, 4095, 4096, 4097, 8190, 8191, 8192, 8193}).Draw(t, "contentlen")
	if len(s) >= n {
		return s
	}
	return strings.Repeat("x", n-len(s)) + s
}

func isNameChar(c byte) bool {
	return c >= 'a' && c <= 'z' || c >= 'A' && c <= 'Z' || c >= '0' && c <= '9' || c == '-' || c == '_' || c >= 0x80 || c == '\\'
}

// mustSeparate: conservative relation "the two texts could merge or re-split when written next to each other",
// from the serialization table of CSS Syntax section 9 extended with this lexer's extra tokens.
func mustSeparate(a, b tok) bool {
	fb := b.text[0]
	if b.tt == css.DelimToken && b.text == "\\" {
		return false // a backslash that is followed by a newline continues no name and starts no escape
	}
	switch a.tt {
	case css.IdentToken, css.AtKeywordToken, css.HashToken, css.DimensionToken, css.CustomPropertyNameToken, css.UnicodeRangeToken:
		if a.text == "--" && fb == '>' {
			return true // --> is CDC
		}
		if a.tt == css.DimensionToken && fb == '+' && (strings.HasSuffix(a.text, "e") || strings.HasSuffix(a.text, "E")) {
			return true // 0e +0 would become the number 0e+0
		}
		if a.tt == css.UnicodeRangeToken && fb == '-' && strings.ContainsAny(a.text[2:], "?-") {
			return false // a range with wildcards or with an end already: a dash starts the next token
		}
		return isNameChar(fb) || fb == '(' || (a.tt == css.UnicodeRangeToken && fb == '?') || ((a.text == "u" || a.text == "U") && fb == '+')
	case css.NumberToken:
		return isNameChar(fb) || fb == '%' || fb == '.'
	case css.WhitespaceToken:
		return b.tt == css.WhitespaceToken
	case css.BadStringToken:
		return false
	case css.DelimToken:
		switch a.text[0] {
		case '#', '@':
			return isNameChar(fb)
		case '-':
			return isNameChar(fb) || fb == '.' || fb == '>'
		case '.', '+':
			return fb >= '0' && fb <= '9' || fb == '.'
		case '/':
			return fb == '*'
		case '<':
			return fb == '!'
		case '$', '*', '^', '~':
			return fb == '='
		case '|':
			return fb == '=' || fb == '|'
		}
	}
	return false
}

var twin = gen.Twin{New: func() func() bool {
	l := css.NewLexer(parse.NewInputString("a{b:url( x ) \\41 1e+3px u+1?? /*c*/ \"s\"}@m --x:{y}"))
	return func() bool { tt, _ := l.Next(); return tt != css.ErrorToken }
}}

const cssTail = "x)}\"*/a{b:c}"

func lexAll(src []byte) []tok {
	input, how, check := gen.Supply(src, cssTail)
	l := css.NewLexer(input)
	var out []tok
	defer func() {
		input.Restore()
		if ok, rest := check(true); !ok {
			panic(fmt.Sprintf("lexing %q (%s) changed the caller's buffer: %q", src, how, rest))
		}
	}()
	for i := 0; i <= len(src)+1; i++ {
		tt, data := l.Next()
		twin.Step()
		gen.Extend(data)
		_ = l.Err() // polled after every call: reading the error state must not disturb the lexer
		if tt == css.ErrorToken {
			break
		}
		out = append(out, tok{tt, string(data)})
	}
	return out
}

func TestProp_Tokens(t *testing.T) {
	ev.Describe("tokens", "sequences of 1-10 tokens drawn per railroad diagram (idents with leading -, escapes, non-ASCII; custom properties; functions; at-keywords; hashes; strings with escaped newlines; quoted/unquoted url( in any ASCII case with inner whitespace and escapes; numbers, percentages, dimensions incl. units e/e-x/--x; unicode ranges; match operators; ||; CDO/CDC; punctuation; delimiters; whitespace; comments; BadString = string cut by a raw newline; BadURL with arbitrary remnants incl. escaped parentheses) separated by whitespace or /**/ where the section 9 serialization table (extended, conservative) says two tokens could merge, otherwise by nothing or a drawn separator; oracle: the lexer returns exactly the expected (type, text) sequence incl. separators; non-trivial = >= 4 tokens, >= 1 unseparated adjacency and >= 1 look-ahead token (escape, number with . or e, u+, url, comment, bad token)")
	ev.Check(t, 30000, func(t *rapid.T) {
		n := rapid.IntRange(1, 10).Draw(t, "ntok")
		var want []tok
		unsep, look := 0, false
		for i := 0; i < n; i++ {
			k := genTok(t)
			if len(want) > 0 {
				prev := want[len(want)-1]
				sepMode := rapid.IntRange(0, 3).Draw(t, "sep")
				if mustSeparate(prev, k) {
					if sepMode == 0 {
						sepMode = 1
					}
				}
				switch {
				case sepMode == 0 || sepMode == 3 && !mustSeparate(prev, k):
					unsep++
				case sepMode == 1 || sepMode == 3:
					if prev.tt == css.WhitespaceToken || k.tt == css.WhitespaceToken {
						want = append(want, tok{css.CommentToken, "/**/"})
					} else {
						want = append(want, tok{css.WhitespaceToken, ws(t, 1)})
					}
				case sepMode == 2:
					want = append(want, tok{css.CommentToken, "/**/"})
				}
			}
			switch k.tt {
			case css.URLToken, css.BadURLToken, css.BadStringToken, css.UnicodeRangeToken, css.CommentToken, css.DimensionToken:
				look = true
			}
			look = look || strings.Contains(k.text, `\`) || (k.tt == css.NumberToken && strings.ContainsAny(k.text, ".eE"))
			want = append(want, k)
			if k.tt == css.DelimToken && k.text == "\\" {
				want = append(want, tok{css.WhitespaceToken, rapid.SampledFrom([]string{"\n", "\r\n", "\f", "\r", "\n "}).Draw(t, "bsnl")})
			}
		}
		var src strings.Builder
		for _, k := range want {
			src.WriteString(k.text)
		}
		got := lexAll([]byte(src.String()))
		for i := 0; i < len(want) || i < len(got); i++ {
			if i >= len(got) || i >= len(want) || got[i] != want[i] {
				t.Fatalf("%q lexes as\n  %v\nwant\n  %v\n(first difference at token %d)", src.String(), got, want, i)
			}
		}
		cls := []string{}
		for _, k := range want {
			cls = append(cls, "tt="+k.tt.String())
		}
		ev.Case("tokens", src.String(), len(want) >= 4 && unsep > 0 && look, cls...)
	})
}

var identFrags = []string{"a", "-", "--", "_", "é", "\\", "\\41 ", "\\41", "\\{", "\\\n", "0", "9", "x", "url", "u", "+", "1", "(", ")", " ", "\x00", "\"", "'", "\t", "\x7f", "\x1f", "%", "/", "*", ".", "@", "#", "\xc3", "\\)"}

func TestProp_IsIdent(t *testing.T) {
	ev.Describe("isident", "non-empty byte strings of 1-6 fragments around the identifier/url grammar (dashes, escapes complete and dangling, digits, quotes, parentheses, control bytes, NUL, lone UTF-8 lead byte) and generated identifiers/custom properties; oracle: IsIdent(b) is true exactly when lexing b yields one Ident or CustomPropertyName token spanning b; IsURLUnquoted(b) true implies url(b) lexes as one URL token; the argument and the byte after it are left unchanged; non-trivial = >= 2 bytes")
	ev.Check(t, 40000, func(t *rapid.T) {
		var b []byte
		switch rapid.IntRange(0, 3).Draw(t, "src") {
		case 0:
			b = []byte(ident(t))
		case 1:
			b = []byte("--" + nameChars(t, 0, 4))
		default:
			b = gen.Fragments(t, "frag", identFrags, 6)
		}
		if len(b) == 0 {
			b = []byte("a")
		}
		in, backing := gen.WithSpare(t, b)
		snap := append([]byte(nil), backing...)
		got := css.IsIdent(in)
		toks := lexAll(append([]byte(nil), b...))
		want := len(toks) == 1 && (toks[0].tt == css.IdentToken || toks[0].tt == css.CustomPropertyNameToken) && toks[0].text == string(b)
		if got != want {
			t.Fatalf("IsIdent(%q) = %v, but it lexes as %v", b, got, toks)
		}
		if !bytes.Equal(backing, snap) {
			t.Fatalf("IsIdent(%q) modified its argument or the byte after it: % x -> % x", b, snap, backing)
		}
		u := css.IsURLUnquoted(in)
		if !bytes.Equal(backing, snap) {
			t.Fatalf("IsURLUnquoted(%q) modified its argument or the byte after it", b)
		}
		if u {
			src := "url(" + string(b) + ")"
			toks := lexAll([]byte(src))
			if len(toks) != 1 || toks[0].tt != css.URLToken || toks[0].text != src {
				t.Fatalf("IsURLUnquoted(%q) = true, but %q lexes as %v", b, src, toks)
			}
		}
		ev.Case("isident", string(b), len(b) >= 2, fmt.Sprintf("ident=%v", got), fmt.Sprintf("url=%v", u))
	})
}
