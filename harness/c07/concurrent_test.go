package c07

import (
	"fmt"
	"strings"
	"testing"

	"github.com/tdewolff/parse/v2"
	"github.com/tdewolff/parse/v2/css"
	"pgregory.net/rapid"

	"verif/internal/ev"
	"verif/internal/gen"
)

func plainLex(src string) string {
	l := css.NewLexer(parse.NewInputString(src))
	var sb strings.Builder
	for i := 0; i <= len(src)+1; i++ {
		tt, data := l.Next()
		if tt == css.ErrorToken {
			break
		}
		fmt.Fprintf(&sb, "%v%q ", tt, data)
	}
	return sb.String()
}

// TestProp_Concurrent: what the lexer and the two helpers return is a function of the argument, also while other
// goroutines use them on other data
func TestProp_Concurrent(t *testing.T) {
	ev.Describe("concurrent", "4-12 generated token sequences, each lexed and given to IsIdent and IsURLUnquoted token by token, first one after the other and then by as many goroutines at once (3 rounds behind a barrier); oracle: every goroutine gets what the same call returns alone; non-trivial = >= 4 goroutines")
	ev.Check(t, 150, func(t *rapid.T) {
		n := rapid.IntRange(4, 12).Draw(t, "goroutines")
		srcs := make([]string, n)
		words := make([][]string, n)
		for i := range srcs {
			var parts []string
			for k := rapid.IntRange(1, 6).Draw(t, "ntok"); k > 0; k-- {
				parts = append(parts, genTok(t).text)
			}
			srcs[i] = strings.Join(parts, " ")
			words[i] = append(parts, rapid.SampledFrom([]string{"data:image/png;base64,AA A", "a\x7fb", "x/y.png", "--x", "-", "a b"}).Draw(t, "word"))
		}
		bad, alone, together := gen.Concurrently(n, 3, func(i int) string {
			var sb strings.Builder
			for r := 0; r < 20; r++ {
				sb.Reset()
				sb.WriteString(plainLex(srcs[i]))
				for _, w := range words[i] {
					fmt.Fprintf(&sb, "|%v,%v", css.IsIdent([]byte(w)), css.IsURLUnquoted([]byte(w)))
				}
			}
			return sb.String()
		})
		if bad >= 0 {
			t.Fatalf("%q (with %d other goroutines at work):\nalone:    %s\ntogether: %s", srcs[bad], n-1, alone, together)
		}
		ev.Case("concurrent", strings.Join(srcs, " || "), n >= 4, fmt.Sprintf("goroutines=%d", n))
	})
}
