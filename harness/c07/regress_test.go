package c07

import (
	"testing"

	"github.com/tdewolff/parse/v2"
	"github.com/tdewolff/parse/v2/css"
)

// fixed defects, replayed as literals
func TestRegress_Tokens(t *testing.T) {
	for _, c := range []struct {
		src  string
		want []tok
	}{
		// 5f3ef38: a name that starts with two dashes and is followed by a parenthesis is a function
		{"--x(a)", []tok{{css.FunctionToken, "--x("}, {css.IdentToken, "a"}, {css.RightParenthesisToken, ")"}}},
		{"calc(--f(1))", []tok{{css.FunctionToken, "calc("}, {css.FunctionToken, "--f("}, {css.NumberToken, "1"}, {css.RightParenthesisToken, ")"}, {css.RightParenthesisToken, ")"}}},
		{"--x:--y", []tok{{css.CustomPropertyNameToken, "--x"}, {css.ColonToken, ":"}, {css.CustomPropertyNameToken, "--y"}}},
		// d23a36c: CR LF behind a hexadecimal escape is one terminator
		{"\\61\r\nb", []tok{{css.IdentToken, "\\61\r\nb"}}},
		// 83fb0bf: url spelled with hexadecimal escapes
		{"\\75rl(a b)", []tok{{css.BadURLToken, "\\75rl(a b)"}}},
	} {
		l := css.NewLexer(parse.NewInputString(c.src))
		var got []tok
		for {
			tt, data := l.Next()
			if tt == css.ErrorToken {
				break
			}
			got = append(got, tok{tt, string(data)})
		}
		if len(got) != len(c.want) {
			t.Errorf("%q lexes to %v, want %v", c.src, got, c.want)
			continue
		}
		for i := range got {
			if got[i] != c.want[i] {
				t.Errorf("%q lexes to %v, want %v", c.src, got, c.want)
				break
			}
		}
	}
}
