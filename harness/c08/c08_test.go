package c08

import (
	"bytes"
	"fmt"
	"io"
	"strings"
	"testing"

	"github.com/tdewolff/parse/v2"
	"github.com/tdewolff/parse/v2/css"
	"pgregory.net/rapid"

	"verif/internal/ev"
	"verif/internal/gen"
)

func TestMain(m *testing.M) { ev.Main(m, "C08") }

type fataler interface {
	Fatalf(format string, args ...any)
}

// ---------- generator of well-formed style sheets with the expected grammar stream

type comp struct {
	tt       css.TokenType
	text     string
	wsBefore bool // the source has whitespace (in declarations also: a comment) in front of this token
}

type unit struct {
	gt    css.GrammarType
	name  string // expected data (lower-cased name), "" when not checked
	comps []comp // expected Values() without whitespace tokens
	ctx   string // whitespace context: selector, prelude, value, custom, none
	exact string // custom property: exact value text
}

var hashTwins = map[string]string{"margin-brbxl": "margin-xscrz", "margin-xscrz": "margin-brbxl", "margin-nckxl": "margin-pdtrz", "margin-pdtrz": "margin-nckxl", "margin-brbxw": "margin-xscra", "margin-xscra": "margin-brbxw"}

type sheetgen struct {
	nextProp string // the name of the next declaration (the twin of the one before)
	deep     int    // values with deeply nested brackets
	t        *rapid.T
	src      strings.Builder
	units    []unit
	inline   bool
	depth    int
	nested   int
	wsdec    int
}

func (g *sheetgen) w(s string) { g.src.WriteString(s) }

// ws writes optional whitespace/comment and reports whether real whitespace was written
func (g *sheetgen) ws(force bool) bool {
	t := g.t
	k := rapid.IntRange(0, 7).Draw(t, "ws")
	if force && k < 2 {
		k = 2
	}
	switch k {
	case 0, 1:
		return false
	case 2:
		g.w(" ")
	case 3:
		g.w(rapid.SampledFrom([]string{"\n", "\t", "  ", "\r\n", " \n "}).Draw(t, "wstext"))
	case 4:
		g.w(" /*c*/ ")
	case 5:
		g.w("/*c*/ ")
	case 6:
		g.w(" /*c*/") // the comment touches the token that follows
	case 7:
		g.w(rapid.SampledFrom([]string{"\n/*a*//*b*/", " /**//**/", "\t/* */"}).Draw(t, "wscomments"))
	}
	g.wsdec++
	return true
}

func randCase(t *rapid.T, s string) string {
	b := []byte(s)
	for i, c := range b {
		if c >= 'a' && c <= 'z' && rapid.IntRange(0, 3).Draw(t, "upper") == 0 {
			b[i] = c - 32
		}
	}
	return string(b)
}

// lower: names are compared without regard to ASCII case only (CSS Syntax: "ASCII case-insensitive")
func lower(s string) string {
	b := []byte(s)
	for i, c := range b {
		if c >= 'A' && c <= 'Z' {
			b[i] = c + 32
		}
	}
	return string(b)
}

func ident(t *rapid.T) string {
	return rapid.SampledFrom([]string{"a", "b", "div", "red", "screen", "and", "bold", "x-y", "_z", "Sans", "from", "to", "not", "only", "print", "solid", "auto", "inherit",
		// identifiers written with escapes: the whitespace that ends a hexadecimal escape (a CR LF pair counts as one) is part of the identifier
		"a\\26\r\nb", "\\41\r\nx", "b\\9\tc", "c\\000041d", "e\\+f", "\\31 0"}).Draw(t, "ident")
}

// components writes a token sequence with whitespace decisions and returns the expected components
type piece struct {
	tt   css.TokenType
	text string
}

func (g *sheetgen) emit(ps []piece, allowLeadWS bool) []comp {
	var out []comp
	for i, p := range ps {
		had := false
		if i > 0 || allowLeadWS {
			// separate where two adjacent tokens would merge
			need := i > 0 && needSep(ps[i-1], p)
			had = g.ws(need)
		}
		g.w(p.text)
		out = append(out, comp{p.tt, p.text, had})
	}
	return out
}

func isWordTok(tt css.TokenType) bool {
	switch tt {
	case css.IdentToken, css.HashToken, css.NumberToken, css.DimensionToken, css.PercentageToken, css.StringToken, css.URLToken, css.AtKeywordToken, css.UnicodeRangeToken, css.CustomPropertyNameToken:
		return true
	}
	return false
}

func needSep(a, b piece) bool {
	// conservative: word-like tokens, and anything that could glue to a following word/number/paren
	if isWordTok(a.tt) && (isWordTok(b.tt) || b.tt == css.FunctionToken || b.tt == css.LeftParenthesisToken || b.text == "-" || b.text == "." || b.text == "+" || b.text == "%") {
		return true
	}
	if a.tt == css.DelimToken && (isWordTok(b.tt) || b.tt == css.FunctionToken || b.tt == css.DelimToken || b.text == "=" || b.tt == css.IncludeMatchToken) {
		return strings.ContainsAny(a.text, "#@-.+/<|~^$*!u") // the delimiters that can start a longer token
	}
	if a.tt == css.ColonToken && false {
		return false
	}
	return false
}

func (g *sheetgen) selector(nested bool) []piece {
	t := g.t
	var ps []piece
	simple := func() {
		switch rapid.IntRange(0, 7).Draw(t, "simple") {
		case 0, 1:
			ps = append(ps, piece{css.IdentToken, ident(t)})
		case 2:
			ps = append(ps, piece{css.DelimToken, "."}, piece{css.IdentToken, ident(t)})
		case 3:
			ps = append(ps, piece{css.HashToken, "#" + ident(t)})
		case 4:
			ps = append(ps, piece{css.DelimToken, "*"})
		case 5:
			ps = append(ps, piece{css.IdentToken, ident(t)}, piece{css.ColonToken, ":"}, piece{css.IdentToken, rapid.SampledFrom([]string{"hover", "first-child", "focus"}).Draw(t, "pseudo")})
		case 6:
			ps = append(ps, piece{css.IdentToken, ident(t)}, piece{css.LeftBracketToken, "["}, piece{css.IdentToken, ident(t)})
			if rapid.Bool().Draw(t, "attrval") {
				op := rapid.SampledFrom([]piece{{css.DelimToken, "="}, {css.IncludeMatchToken, "~="}, {css.DashMatchToken, "|="}, {css.PrefixMatchToken, "^="}, {css.SuffixMatchToken, "$="}, {css.SubstringMatchToken, "*="}}).Draw(t, "attrop")
				val := rapid.SampledFrom([]piece{{css.StringToken, `"v"`}, {css.StringToken, `'w x'`}, {css.IdentToken, "v"}}).Draw(t, "attrv")
				ps = append(ps, op, val)
			}
			ps = append(ps, piece{css.RightBracketToken, "]"})
		case 7:
			ps = append(ps, piece{css.IdentToken, ident(t)}, piece{css.ColonToken, ":"}, piece{css.FunctionToken, rapid.SampledFrom([]string{"not(", "nth-child(", "is("}).Draw(t, "pfunc")})
			sp := piece{css.WhitespaceToken, " "}
			switch rapid.IntRange(0, 6).Draw(t, "pfuncarg") {
			case 0:
				// An+B with an explicitly signed B: the sign belongs to the number token, it is not the + combinator
				ps = append(ps, piece{css.DimensionToken, rapid.SampledFrom([]string{"2n", "-2n", "3N", "+4n"}).Draw(t, "an")}, sp, piece{css.NumberToken, rapid.SampledFrom([]string{"+1", "-1", "+3"}).Draw(t, "b")})
			case 1:
				ps = append(ps, piece{css.NumberToken, rapid.SampledFrom([]string{"+3", "-2", "5"}).Draw(t, "b")}, sp, piece{css.IdentToken, "of"}, sp, piece{css.IdentToken, ident(t)})
			case 2:
				ps = append(ps, piece{css.PercentageToken, "+50%"}, sp, piece{css.DimensionToken, "+2px"})
			default:
				ps = append(ps, piece{css.IdentToken, ident(t)})
			}
			ps = append(ps, piece{css.RightParenthesisToken, ")"})
		}
	}
	if nested {
		// a nested rule must start with an identifier or a delimiter for this parser
		switch rapid.IntRange(0, 2).Draw(t, "nestedhead") {
		case 0:
			ps = append(ps, piece{css.IdentToken, ident(t)})
		case 1:
			ps = append(ps, piece{css.DelimToken, "&"})
		case 2:
			ps = append(ps, piece{css.DelimToken, "."}, piece{css.IdentToken, ident(t)})
		}
	} else {
		simple()
	}
	for k := rapid.IntRange(0, 3).Draw(t, "nsel"); k > 0; k-- {
		switch rapid.IntRange(0, 3).Draw(t, "comb") {
		case 0:
			ps = append(ps, piece{css.WhitespaceToken, " "}) // descendant combinator: marker, written as forced whitespace
		case 1:
			ps = append(ps, rapid.SampledFrom([]piece{{css.DelimToken, ">"}, {css.DelimToken, "+"}, {css.DelimToken, "~"}}).Draw(t, "combinator"))
		case 2:
			ps = append(ps, piece{css.CommaToken, ","})
		case 3:
		}
		n := len(ps)
		simple()
		if len(ps) > n && ps[n].tt == css.IdentToken && ps[n-1].tt != css.WhitespaceToken && ps[n-1].tt != css.DelimToken && ps[n-1].tt != css.CommaToken {
			// two compound parts without a combinator would merge: make it a descendant combinator
			ps = append(ps[:n:n], append([]piece{{css.WhitespaceToken, " "}}, ps[n:]...)...)
		}
	}
	return ps
}

// emitSel writes selector pieces; a WhitespaceToken marker forces whitespace in front of the next token
func (g *sheetgen) emitSel(ps []piece) []comp {
	var out []comp
	force := false
	for i, p := range ps {
		if p.tt == css.WhitespaceToken {
			force = true
			continue
		}
		had := false
		if len(out) > 0 {
			prev := ps[i-1]
			if prev.tt == css.WhitespaceToken {
				prev = piece{css.IdentToken, "x"}
			}
			inName := (prev.text == "." || prev.tt == css.ColonToken || prev.tt == css.HashToken) && (p.tt == css.IdentToken || p.tt == css.FunctionToken)
			glue := p.tt == css.ColonToken || p.tt == css.LeftBracketToken || (p.text == "." && prev.tt != css.CommaToken && prev.tt != css.DelimToken) || p.tt == css.HashToken && prev.tt != css.CommaToken && prev.tt != css.DelimToken
			if force {
				had = g.ws(true)
			} else if inName || glue {
				// whitespace here would change the selector (compound -> descendant): write none
			} else {
				had = g.ws(false)
			}
		}
		force = false
		g.w(p.text)
		out = append(out, comp{p.tt, p.text, had})
	}
	return out
}

func (g *sheetgen) value() []piece {
	t := g.t
	var ps []piece
	n := rapid.IntRange(1, 5).Draw(t, "nval")
	for i := 0; i < n; i++ {
		switch rapid.IntRange(0, 9).Draw(t, "val") {
		case 0, 1:
			ps = append(ps, piece{css.IdentToken, ident(t)})
		case 2:
			ps = append(ps, piece{css.NumberToken, rapid.SampledFrom([]string{"0", "1", "1.5", "-2", "+.5", "1e3"}).Draw(t, "num")})
		case 3:
			ps = append(ps, piece{css.DimensionToken, rapid.SampledFrom([]string{"1px", "2em", "-3rem", "90deg", "1.5s"}).Draw(t, "dim")})
		case 4:
			ps = append(ps, piece{css.PercentageToken, rapid.SampledFrom([]string{"50%", "100%", "-1%"}).Draw(t, "pct")})
		case 5:
			ps = append(ps, piece{css.StringToken, rapid.SampledFrom([]string{`"s"`, `'t u'`, `"a;b"`, `"}"`}).Draw(t, "str")})
		case 6:
			ps = append(ps, piece{css.URLToken, rapid.SampledFrom([]string{"url(a.png)", `url("b c")`, "URL( d )"}).Draw(t, "url")})
		case 7:
			ps = append(ps, piece{css.HashToken, rapid.SampledFrom([]string{"#fff", "#A0B1C2"}).Draw(t, "hash")})
		case 8:
			fn := rapid.SampledFrom([]string{"rgb(", "calc(", "var(", "translate("}).Draw(t, "fn")
			ps = append(ps, piece{css.FunctionToken, fn}, piece{css.NumberToken, "1"})
			for k := rapid.IntRange(0, 2).Draw(t, "fargs"); k > 0; k-- {
				// a semicolon or colon inside a function or bracket does not end the declaration
				sep := rapid.SampledFrom([]piece{{css.CommaToken, ","}, {css.DelimToken, "+"}, {css.DelimToken, "/"}, {css.DelimToken, "*"}, {css.SemicolonToken, ";"}, {css.ColonToken, ":"}}).Draw(t, "fsep")
				ps = append(ps, sep, piece{css.DimensionToken, "2px"})
			}
			switch rapid.IntRange(0, 5).Draw(t, "nestedparen") {
			case 0:
				ps = append(ps, piece{css.DelimToken, "*"}, piece{css.LeftParenthesisToken, "("}, piece{css.NumberToken, "3"}, piece{css.RightParenthesisToken, ")"})
			case 1:
				ps = append(ps, piece{css.DelimToken, "*"}, piece{css.LeftParenthesisToken, "("}, piece{css.NumberToken, "3"}, piece{css.SemicolonToken, ";"}, piece{css.IdentToken, ident(t)}, piece{css.RightParenthesisToken, ")"})
			case 2:
				ps = append(ps, piece{css.LeftBracketToken, "["}, piece{css.IdentToken, ident(t)}, piece{css.SemicolonToken, ";"}, piece{css.IdentToken, ident(t)}, piece{css.RightBracketToken, "]"})
			}
			ps = append(ps, piece{css.RightParenthesisToken, ")"})
		case 9:
			ps = append(ps, rapid.SampledFrom([]piece{{css.CommaToken, ","}, {css.DelimToken, "/"}}).Draw(t, "vsep"), piece{css.IdentToken, ident(t)})
		}
	}
	if ps[0].tt == css.CommaToken || ps[0].text == "/" {
		ps = ps[1:]
	}
	if rapid.IntRange(0, 39).Draw(t, "deepvalue") == 0 {
		// brackets nested around the sizes of small counters: a semicolon and braces-free tokens deep inside still belong
		// to the value
		k := rapid.SampledFrom([]int{15, 16, 17, 127, 128, 129, 254, 255, 256, 257, 300}).Draw(t, "depth")
		open, close := piece{css.LeftParenthesisToken, "("}, piece{css.RightParenthesisToken, ")"}
		if rapid.Bool().Draw(t, "squaredeep") {
			open, close = piece{css.LeftBracketToken, "["}, piece{css.RightBracketToken, "]"}
		}
		ps = append(ps, piece{css.FunctionToken, "calc("})
		for i := 0; i < k; i++ {
			ps = append(ps, open)
		}
		ps = append(ps, piece{css.NumberToken, "1"}, piece{css.SemicolonToken, ";"}, piece{css.IdentToken, ident(t)})
		for i := 0; i < k; i++ {
			ps = append(ps, close)
		}
		ps = append(ps, piece{css.RightParenthesisToken, ")"})
		g.deep++
	}
	if rapid.IntRange(0, 4).Draw(t, "important") == 0 {
		ps = append(ps, piece{css.DelimToken, "!"}, piece{css.IdentToken, randCase(t, "important")})
	}
	return ps
}

// spaced: the sign of a number must be kept apart from a preceding + or - delimiter in calc
func (g *sheetgen) emitValue(ps []piece) []comp {
	var out []comp
	for i, p := range ps {
		had := false
		if i > 0 {
			prev := ps[i-1]
			need := needSep(prev, p) || (isWordTok(prev.tt) && (isWordTok(p.tt) || p.tt == css.FunctionToken)) || (prev.tt == css.RightParenthesisToken && (isWordTok(p.tt) || p.tt == css.FunctionToken)) ||
				(prev.tt == css.DelimToken && strings.ContainsAny(prev.text, "+-*/") && prev.text != "/") || (p.tt == css.DelimToken && strings.ContainsAny(p.text, "+-*") && isWordTok(prev.tt))
			had = g.ws(need)
		} else {
			had = g.ws(false)
		}
		g.w(p.text)
		out = append(out, comp{p.tt, p.text, had})
	}
	return out
}

func (g *sheetgen) declaration(last bool) {
	t := g.t
	if rapid.IntRange(0, 6).Draw(t, "custom") == 0 {
		name := "--" + rapid.SampledFrom([]string{"x", "Main-Color", "a_b", "1"}).Draw(t, "cname")
		g.w(name)
		g.ws(false)
		g.w(":")
		val := rapid.SampledFrom([]string{" red", "1px  2px", " { a: b }", "", " (x;y) ", "/*c*/ 3", " [ ; ] \"}\" ", "  'q;'"}).Draw(t, "cval")
		g.w(val)
		g.units = append(g.units, unit{gt: css.CustomPropertyGrammar, name: name, ctx: "custom", exact: val})
		// the value is the exact text up to the terminator: no further whitespace in front of it
		if !last || rapid.Bool().Draw(t, "semicolon") {
			g.w(";")
			g.ws(false)
		}
		return
	}
	prop := rapid.SampledFrom([]string{"color", "margin", "font-family", "background", "width", "-webkit-x", "transition",
		// letters outside ASCII have no other case as far as CSS is concerned (the Kelvin sign is not a k)
		"École", "wİdth", "Kerning", "größe", "ΑΒγ", "-Ö-x",
		// names of equal length whose 32-bit FNV-1a resp. FNV-1 hashes are equal (a table that trusts a hash tells them apart only by luck)
		"margin-brbxl", "margin-xscrz", "margin-nckxl", "margin-pdtrz", "margin-brbxw", "margin-xscra"}).Draw(t, "prop")
	if g.nextProp != "" {
		prop, g.nextProp = g.nextProp, ""
	} else if partner, ok := hashTwins[prop]; ok && rapid.Bool().Draw(t, "twin") {
		g.nextProp = partner // the next declaration is named like its twin
	}
	written := randCase(t, prop)
	prop = lower(written)
	hack := rapid.IntRange(0, 9).Draw(t, "iehack") == 0
	if hack {
		g.w("*")
		prop = "*" + prop
	}
	g.w(written)
	g.ws(false)
	g.w(":")
	comps := g.emitValue(g.value())
	g.units = append(g.units, unit{gt: css.DeclarationGrammar, name: prop, comps: comps, ctx: "value"})
	g.endDecl(last)
}

func (g *sheetgen) endDecl(last bool) {
	g.ws(false)
	if !last || rapid.Bool().Draw(g.t, "semicolon") {
		g.w(";")
		for rapid.IntRange(0, 5).Draw(g.t, "extrasemi") == 0 {
			g.ws(false)
			g.w(";")
		}
		g.ws(false)
	}
}

func (g *sheetgen) declBlock(allowNested bool) {
	t := g.t
	g.w("{")
	g.ws(false)
	n := rapid.IntRange(0, 3).Draw(t, "ndecl")
	for i := 0; i < n; i++ {
		if allowNested && !g.inline && g.depth < 3 && rapid.IntRange(0, 5).Draw(t, "nested") == 0 {
			g.ruleset(true)
			g.nested++
			g.ws(false)
			continue
		}
		g.declaration(i == n-1)
	}
	g.w("}")
}

func (g *sheetgen) ruleset(nested bool) {
	g.depth++
	var comps []comp
	if nested {
		// inside a declaration list the selector is collected by the declaration parser: every whitespace is kept
		comps = g.emitSel(g.selector(true))
		g.units = append(g.units, unit{gt: css.BeginRulesetGrammar, comps: comps, ctx: "nested-selector"})
	} else {
		comps = g.emitSel(g.selector(false))
		g.units = append(g.units, unit{gt: css.BeginRulesetGrammar, comps: comps, ctx: "selector"})
	}
	g.ws(false)
	g.declBlock(true)
	g.units = append(g.units, unit{gt: css.EndRulesetGrammar, ctx: "none"})
	g.depth--
}

func (g *sheetgen) prelude(kind string) []piece {
	t := g.t
	switch kind {
	case "media":
		ps := []piece{{css.IdentToken, rapid.SampledFrom([]string{"screen", "print", "all"}).Draw(t, "mtype")}}
		for k := rapid.IntRange(0, 2).Draw(t, "mq"); k > 0; k-- {
			ps = append(ps, piece{css.IdentToken, "and"}, piece{css.LeftParenthesisToken, "("}, piece{css.IdentToken, rapid.SampledFrom([]string{"min-width", "orientation"}).Draw(t, "feat")}, piece{css.ColonToken, ":"}, rapid.SampledFrom([]piece{{css.DimensionToken, "100px"}, {css.IdentToken, "landscape"}}).Draw(t, "fval"), piece{css.RightParenthesisToken, ")"})
		}
		if rapid.Bool().Draw(t, "mlist") {
			ps = append(ps, piece{css.CommaToken, ","}, piece{css.IdentToken, "print"})
		}
		return ps
	case "supports":
		return []piece{{css.LeftParenthesisToken, "("}, {css.IdentToken, "display"}, {css.ColonToken, ":"}, {css.IdentToken, "grid"}, {css.RightParenthesisToken, ")"}}
	case "keyframes":
		return []piece{{css.IdentToken, ident(t)}}
	case "layer":
		return []piece{{css.IdentToken, ident(t)}}
	case "document":
		return []piece{{css.URLToken, "url(http://x/)"}}
	case "page":
		if rapid.Bool().Draw(t, "pagesel") {
			return []piece{{css.ColonToken, ":"}, {css.IdentToken, "first"}}
		}
		return nil
	case "import":
		return []piece{rapid.SampledFrom([]piece{{css.StringToken, `"a.css"`}, {css.URLToken, "url(b.css)"}}).Draw(t, "imp"), {css.IdentToken, "screen"}}
	case "charset":
		return []piece{{css.StringToken, `"utf-8"`}}
	case "namespace":
		return []piece{{css.IdentToken, "svg"}, {css.URLToken, "url(http://www.w3.org/2000/svg)"}}
	}
	return []piece{{css.IdentToken, ident(t)}, {css.NumberToken, "1"}}
}

func (g *sheetgen) emitPrelude(ps []piece) []comp {
	var out []comp
	for i, p := range ps {
		var had bool
		if i == 0 {
			had = g.ws(p.tt != css.LeftParenthesisToken && p.tt != css.ColonToken && p.tt != css.StringToken && p.tt != css.LeftBracketToken)
		} else {
			prev := ps[i-1]
			need := (isWordTok(prev.tt) || prev.tt == css.RightParenthesisToken) && (isWordTok(p.tt) || p.tt == css.LeftParenthesisToken)
			glue := prev.tt == css.ColonToken && i == 1 // @page :first
			if glue {
				had = false
			} else {
				had = g.ws(need)
			}
		}
		g.w(p.text)
		out = append(out, comp{p.tt, p.text, had})
	}
	return out
}

func (g *sheetgen) atRule() {
	t := g.t
	kinds := []string{"import", "charset", "namespace", "unknown-noblock", "font-face", "page", "media", "supports", "keyframes", "layer", "document", "-webkit-keyframes", "unknown-block"}
	if g.inline {
		kinds = []string{"unknown-noblock", "font-face", "page", "media", "unknown-block"}
	}
	kind := rapid.SampledFrom(kinds).Draw(t, "atrule")
	name := kind
	switch kind {
	case "unknown-noblock", "unknown-block":
		name = rapid.SampledFrom([]string{"foo", "x-bar", "tailwind", "Αbc", "-Ö-foo", "Keyframes", "medİa", "pÄge"}).Draw(t, "atname")
	}
	written := randCase(t, name)
	name = lower(written)
	g.w("@" + written)
	base := strings.TrimPrefix(kind, "-webkit-")
	comps := g.emitPrelude(g.prelude(base))
	switch kind {
	case "import", "charset", "namespace", "unknown-noblock":
		g.ws(false)
		g.w(";")
		g.units = append(g.units, unit{gt: css.AtRuleGrammar, name: "@" + name, comps: comps, ctx: "prelude"})
	case "font-face", "page":
		g.ws(false)
		g.units = append(g.units, unit{gt: css.BeginAtRuleGrammar, name: "@" + name, comps: comps, ctx: "prelude"})
		g.declBlock(false)
		g.units = append(g.units, unit{gt: css.EndAtRuleGrammar, ctx: "none"})
	case "media", "supports", "keyframes", "layer", "document", "-webkit-keyframes":
		g.ws(false)
		g.units = append(g.units, unit{gt: css.BeginAtRuleGrammar, name: "@" + name, comps: comps, ctx: "prelude"})
		g.w("{")
		g.depth++
		for k := rapid.IntRange(0, 2).Draw(t, "nrules"); k > 0; k-- {
			g.ws(false)
			if base == "keyframes" {
				sel := rapid.SampledFrom([]piece{{css.IdentToken, "from"}, {css.IdentToken, "to"}, {css.PercentageToken, "50%"}}).Draw(t, "kfsel")
				g.w(sel.text)
				g.units = append(g.units, unit{gt: css.BeginRulesetGrammar, comps: []comp{{sel.tt, sel.text, false}}, ctx: "selector"})
				g.ws(false)
				g.declBlock(false)
				g.units = append(g.units, unit{gt: css.EndRulesetGrammar, ctx: "none"})
			} else if g.depth < 3 && rapid.IntRange(0, 4).Draw(t, "nestedat") == 0 {
				g.atRule()
			} else {
				g.ruleset(false)
			}
		}
		g.ws(false)
		g.w("}")
		g.depth--
		g.units = append(g.units, unit{gt: css.EndAtRuleGrammar, ctx: "none"})
	case "unknown-block":
		g.ws(false)
		g.units = append(g.units, unit{gt: css.BeginAtRuleGrammar, name: "@" + name, comps: comps, ctx: "prelude"})
		g.w("{")
		// every token of the block is reported on its own, whitespace included
		for k := rapid.IntRange(0, 4).Draw(t, "ntok"); k > 0; k-- {
			p := rapid.SampledFrom([]piece{{css.IdentToken, "a"}, {css.WhitespaceToken, " "}, {css.ColonToken, ":"}, {css.NumberToken, "1"}, {css.SemicolonToken, ";"}, {css.WhitespaceToken, "\n\t"}, {css.StringToken, `"s"`}}).Draw(t, "utok")
			if g.units[len(g.units)-1].gt == css.BeginAtRuleGrammar && p.tt == css.WhitespaceToken {
				continue // whitespace directly behind the opening brace is skipped by the parser
			}
			if len(g.units) > 0 {
				last := g.units[len(g.units)-1]
				if last.gt == css.TokenGrammar && (last.comps[0].tt == css.WhitespaceToken && p.tt == css.WhitespaceToken || isWordTok(last.comps[0].tt) && isWordTok(p.tt)) {
					continue
				}
			}
			g.w(p.text)
			g.units = append(g.units, unit{gt: css.TokenGrammar, comps: []comp{{p.tt, p.text, false}}, ctx: "token"})
		}
		g.w("}")
		g.units = append(g.units, unit{gt: css.EndAtRuleGrammar, ctx: "none"})
	}
}

func genSheet(t *rapid.T, inline bool) *sheetgen {
	g := &sheetgen{t: t, inline: inline}
	n := rapid.IntRange(1, 5).Draw(t, "nunits")
	if inline {
		for i := 0; i < n; i++ {
			g.ws(false)
			if rapid.IntRange(0, 4).Draw(t, "inlineat") == 0 {
				g.atRule()
				g.ws(false)
			} else {
				g.declaration(i == n-1)
			}
		}
		return g
	}
	for i := 0; i < n; i++ {
		g.wsTop()
		switch rapid.IntRange(0, 9).Draw(t, "top") {
		case 0:
			c := "/*" + rapid.SampledFrom([]string{"", " c ", "!keep", "*", "a{b:c}"}).Draw(t, "comment") + "*/"
			g.w(c)
			g.units = append(g.units, unit{gt: css.CommentGrammar, comps: []comp{{css.CommentToken, c, false}}, ctx: "token"})
		case 1:
			p := rapid.SampledFrom([]piece{{css.CDOToken, "<!--"}, {css.CDCToken, "-->"}}).Draw(t, "cdo")
			g.w(p.text)
			g.units = append(g.units, unit{gt: css.TokenGrammar, comps: []comp{{p.tt, p.text, false}}, ctx: "token"})
		case 2, 3, 4:
			g.atRule()
		default:
			g.ruleset(false)
		}
	}
	g.wsTop()
	return g
}

// wsTop: whitespace between top-level units (comments at top level are units of their own, so none here)
func (g *sheetgen) wsTop() {
	if rapid.Bool().Draw(g.t, "topws") {
		g.w(rapid.SampledFrom([]string{" ", "\n", "\n\n", "\t"}).Draw(g.t, "topwstext"))
	}
}

// ---------- oracle for well-formed input

var valueDefining = map[css.GrammarType]bool{css.AtRuleGrammar: true, css.BeginAtRuleGrammar: true, css.BeginRulesetGrammar: true, css.DeclarationGrammar: true, css.CustomPropertyGrammar: true}

func single(c comp, set string) bool {
	return len(c.text) == 1 && strings.Contains(set, c.text)
}

func wordLike(c comp) bool {
	return isWordTok(c.tt)
}

func checkWhitespace(t fataler, src string, u unit, wsAt []bool, extraTrailing bool) {
	if extraTrailing {
		t.Fatalf("%q: Values() of %v %q ends with a whitespace token", src, u.gt, u.name)
	}
	level := 0
	inAttr := false
	for i, c := range u.comps {
		var left comp
		hasLeft := i > 0
		if hasLeft {
			left = u.comps[i-1]
		}
		got := wsAt[i]
		if got && !c.wsBefore {
			t.Fatalf("%q: Values() of %v %q has a whitespace token before %q where the source has none", src, u.gt, u.name, c.text)
		}
		mayNot, must := false, false
		switch u.ctx {
		case "selector":
			mayNot = (hasLeft && single(left, ",>+~")) || single(c, ",>+~") || inAttr || !hasLeft
			must = hasLeft && level == 0 && !inAttr && c.wsBefore && (left.tt == css.IdentToken || left.tt == css.HashToken || left.tt == css.RightBracketToken || left.tt == css.RightParenthesisToken || left.text == "*") &&
				(c.tt == css.IdentToken || c.tt == css.HashToken || c.text == "." || c.text == "*" || c.tt == css.LeftBracketToken || c.tt == css.ColonToken)
			// at any nesting level: two word tokens (idents, numbers with or without sign, dimensions, percentages) would merge
			must = must || (hasLeft && !inAttr && c.wsBefore && wordLike(left) && wordLike(c))
		case "prelude":
			mayNot = (hasLeft && (single(left, ",:") || left.tt == css.LeftParenthesisToken)) || single(c, ",:") || c.tt == css.RightParenthesisToken || (!hasLeft && (c.tt == css.LeftParenthesisToken || c.tt == css.LeftBracketToken))
			must = hasLeft && level == 0 && c.wsBefore && wordLike(left) && wordLike(c)
		case "value":
			mayNot = (hasLeft && single(left, ",/:!=")) || single(c, ",/:!=") || !hasLeft
			must = hasLeft && c.wsBefore && (wordLike(left) || left.tt == css.RightParenthesisToken) && (wordLike(c) || c.tt == css.FunctionToken)
		case "nested-selector":
			must = hasLeft && c.wsBefore && wordLike(left) && wordLike(c)
		}
		if mayNot && must {
			must = false
		}
		if got && mayNot {
			t.Fatalf("%q: Values() of %v %q keeps whitespace next to punctuation (before %q)", src, u.gt, u.name, c.text)
		}
		if !got && must {
			t.Fatalf("%q: Values() of %v %q drops the whitespace between %q and %q", src, u.gt, u.name, left.text, c.text)
		}
		switch c.tt {
		case css.LeftParenthesisToken, css.FunctionToken:
			level++
		case css.RightParenthesisToken:
			level--
		case css.LeftBracketToken:
			inAttr = true
		case css.RightBracketToken:
			inAttr = false
		}
	}
}

// twin: a second live css.Parser sitting on custom properties, declarations and nested blocks, stepped between every call
// on the parser under test and the use of its results (gen.Twin)
var twin = gen.Twin{New: func() func() bool {
	p := css.NewParser(parse.NewInputString(":root{--brand: calc( 100% - var( --gap ) ) ;--b:{x:y};color:RED;*zoom:1}@media x{a>b{c:d e}}@import 'x';--w:1"), false)
	return func() bool { gt, _, _ := p.Next(); _ = p.Values(); return gt != css.ErrorGrammar }
}}

const cssTail = "x;y:z}d{e:f}"

// newParser builds the parser under test over a caller-owned buffer: half of the inputs are a sub-slice of a larger
// buffer that continues with style sheet text (gen.Embedded); done() gives the buffer back and checks it
func newParser(t fataler, src []byte, inline bool) (p *css.Parser, done func()) {
	input, how, check := gen.Supply(src, cssTail)
	return css.NewParser(input, inline), func() {
		input.Restore()
		if ok, rest := check(true); !ok {
			t.Fatalf("parsing %q (%s) changed the caller's buffer: %q", src, how, rest)
		}
	}
}

func TestProp_WellFormed(t *testing.T) {
	ev.Describe("wellformed", "style sheets / inline declaration lists generated from the CSS grammar: at-rules without block (@import, @charset, @namespace, unknown), with declaration block (@font-face, @page), with rule list (@media, @supports, @keyframes, @layer, @document, @-webkit-keyframes, nested at-rules), unknown at-rules with a token block; rulesets with type/class/id/universal/attribute/pseudo selectors, combinators and lists, nested rulesets; declarations with identifier/number/dimension/percentage/string/url/hash/function value mixes, !important, the IE *property hack, custom properties with arbitrary balanced text; top-level comments, CDO/CDC; whitespace/comments at every boundary, random ASCII case of names; oracle: the parser stream equals the generated units (GrammarType sequence, lower-cased name, Values() without whitespace == the component tokens byte for byte, custom property value == exact source text), a whitespace token only where the source has whitespace, never next to the context's punctuation, always between two word-like tokens; the stream ends with ErrorGrammar/io.EOF without a parse error; non-trivial = >= 3 units incl. a Begin/End pair and >= 1 whitespace decision")
	ev.Check(t, 10000, func(t *rapid.T) {
		inline := rapid.IntRange(0, 3).Draw(t, "inline") == 0
		g := genSheet(t, inline)
		src := g.src.String()
		p, done := newParser(t, []byte(src), inline)
		defer done()
		for i := 0; ; i++ {
			gt, _, data := p.Next()
			twin.Step()
			gen.Extend(data)
			_ = p.Err() // polled after every call: reading the error state must not disturb the parser
			if gt == css.ErrorGrammar {
				if p.HasParseError() || p.Err() != io.EOF {
					t.Fatalf("%q (inline=%v): well-formed input gives %v after %d units", src, inline, p.Err(), i)
				}
				if i != len(g.units) {
					t.Fatalf("%q (inline=%v): the stream ends after %d units, the source has %d: %v", src, inline, i, len(g.units), g.describe())
				}
				break
			}
			if i >= len(g.units) {
				t.Fatalf("%q (inline=%v): extra unit %v %q; the source has %v", src, inline, gt, data, g.describe())
			}
			u := g.units[i]
			if gt != u.gt {
				t.Fatalf("%q (inline=%v): unit %d is %v %q, want %v %q; expected stream %v", src, inline, i, gt, data, u.gt, u.name, g.describe())
			}
			switch gt {
			case css.AtRuleGrammar, css.BeginAtRuleGrammar, css.DeclarationGrammar, css.CustomPropertyGrammar:
				if string(data) != lowerName(u) {
					t.Fatalf("%q: unit %d %v has data %q, want %q", src, i, gt, data, lowerName(u))
				}
			case css.CommentGrammar, css.TokenGrammar:
				if string(data) != u.comps[0].text {
					t.Fatalf("%q: unit %d %v has data %q, want %q", src, i, gt, data, u.comps[0].text)
				}
			}
			if !valueDefining[gt] {
				continue
			}
			vals := p.Values()
			if gt == css.CustomPropertyGrammar {
				if len(vals) != 1 || vals[0].TokenType != css.CustomPropertyValueToken || string(vals[0].Data) != u.exact {
					t.Fatalf("%q: custom property %s has Values() %v, want the exact source text %q", src, u.name, vals, u.exact)
				}
				continue
			}
			var toks []css.Token
			wsAt := make([]bool, len(u.comps)+1)
			for _, v := range vals {
				if v.TokenType == css.WhitespaceToken {
					if len(toks) <= len(u.comps) {
						if wsAt[min(len(toks), len(u.comps))] {
							t.Fatalf("%q: Values() of %v %q has two adjacent whitespace tokens", src, gt, u.name)
						}
						wsAt[min(len(toks), len(u.comps))] = true
					}
					if string(v.Data) != " " && u.ctx != "token" {
						// a single token stands for the whitespace
						if strings.Trim(string(v.Data), " \t\n\r\f") != "" {
							t.Fatalf("%q: whitespace token %q", src, v.Data)
						}
					}
					continue
				}
				toks = append(toks, v)
			}
			if len(toks) != len(u.comps) {
				t.Fatalf("%q: Values() of unit %d %v %q is %v, want the components %v", src, i, gt, u.name, vals, u.comps)
			}
			for j, c := range u.comps {
				want := c.text
				if c.tt == css.IdentToken && j == len(u.comps)-1 && strings.EqualFold(c.text, "important") {
					want = c.text
				}
				if toks[j].TokenType != c.tt || string(toks[j].Data) != want {
					t.Fatalf("%q: Values() of unit %d %v %q is %v, want the components %v", src, i, gt, u.name, vals, u.comps)
				}
			}
			checkWhitespace(t, src, u, wsAt[:len(u.comps)], wsAt[len(u.comps)])
		}
		begins := 0
		for _, u := range g.units {
			if u.gt == css.BeginAtRuleGrammar || u.gt == css.BeginRulesetGrammar {
				begins++
			}
		}
		ev.Case("wellformed", fmt.Sprintf("%v|%s", inline, src), len(g.units) >= 3 && begins > 0 && g.wsdec > 0, fmt.Sprintf("inline=%v", inline), fmt.Sprintf("nested=%v", g.nested > 0))
	})
}

func min(a, b int) int {
	if a < b {
		return a
	}
	return b
}

func lowerName(u unit) string {
	if u.gt == css.CustomPropertyGrammar {
		return u.name // custom property names are case-sensitive: reported verbatim
	}
	return lower(u.name)
}

func (g *sheetgen) describe() string {
	var sb strings.Builder
	for _, u := range g.units {
		fmt.Fprintf(&sb, "%v(%s)", u.gt, u.name)
		sb.WriteByte(' ')
	}
	return sb.String()
}

// ---------- any input: nesting and token conservation

func runAny(t fataler, src []byte, inline bool) (units int, begins int, parseErr bool) {
	// independent lexer run on the same bytes
	var lexed []css.Token
	l := css.NewLexer(parse.NewInputBytes(append([]byte(nil), src...)))
	for {
		tt, data := l.Next()
		if tt == css.ErrorToken {
			break
		}
		lexed = append(lexed, css.Token{TokenType: tt, Data: append([]byte(nil), data...)})
	}
	pos := 0 // next lexer token that may still be reported
	var match func(tt css.TokenType, data []byte, foldCase bool, what string)
	match = func(tt css.TokenType, data []byte, foldCase bool, what string) {
		for k := pos; k < len(lexed); k++ {
			if lexed[k].TokenType == tt && (bytes.Equal(lexed[k].Data, data) || foldCase && bytes.EqualFold(lexed[k].Data, data)) {
				pos = k + 1
				return
			}
		}
		if len(data) > 1 && data[0] == '*' {
			// IE hack: the parser glues an asterisk to the token that follows it in a declaration list
			for k := pos; k+1 < len(lexed); k++ {
				if lexed[k].TokenType != css.DelimToken || string(lexed[k].Data) != "*" {
					continue
				}
				m := k + 1
				for m < len(lexed) && (lexed[m].TokenType == css.WhitespaceToken || lexed[m].TokenType == css.CommentToken) {
					m++
				}
				if m < len(lexed) && lexed[m].TokenType == tt && (bytes.Equal(lexed[m].Data, data[1:]) || foldCase && bytes.EqualFold(lexed[m].Data, data[1:])) {
					pos = m + 1
					return
				}
			}
		}
		t.Fatalf("%q (inline=%v): %s reports token %v %q, which is not a token of the input in source order (lexer tokens from position %d: %v)", src, inline, what, tt, data, pos, lexed[min(pos, len(lexed)):])
	}
	p, done := newParser(t, src, inline)
	defer done()
	var stack []css.GrammarType
	var customName []byte
	hadParseErr := false
	for i := 0; ; i++ {
		if i > 4*len(src)+16 {
			t.Fatalf("%q: parser does not terminate", src)
		}
		gt, tt, data := p.Next()
		twin.Step()
		gen.Extend(data)
		_ = p.Err()
		if gt == css.ErrorGrammar {
			if p.HasParseError() {
				hadParseErr = true
				continue
			}
			if p.Err() != io.EOF {
				t.Fatalf("%q: stream ends with %v", src, p.Err())
			}
			if !hadParseErr && len(stack) != 0 {
				t.Fatalf("%q (inline=%v): the end of input is reported with %d blocks still open (%v) and no parse error", src, inline, len(stack), stack)
			}
			return i, begins, hadParseErr
		}
		units++
		switch gt {
		case css.BeginAtRuleGrammar, css.BeginRulesetGrammar:
			stack = append(stack, gt)
			begins++
		case css.EndAtRuleGrammar, css.EndRulesetGrammar:
			if !hadParseErr {
				if len(stack) == 0 {
					t.Fatalf("%q (inline=%v): %v without an open block (nesting depth would become negative)", src, inline, gt)
				}
				want := css.EndAtRuleGrammar
				if stack[len(stack)-1] == css.BeginRulesetGrammar {
					want = css.EndRulesetGrammar
				}
				if gt != want {
					t.Fatalf("%q (inline=%v): %v closes a block opened by %v", src, inline, gt, stack[len(stack)-1])
				}
			}
			if len(stack) > 0 {
				stack = stack[:len(stack)-1]
			}
		}
		// token conservation
		switch gt {
		case css.CommentGrammar, css.TokenGrammar:
			match(tt, data, false, gt.String())
		case css.AtRuleGrammar, css.BeginAtRuleGrammar:
			match(css.AtKeywordToken, data, true, gt.String()+" name")
		case css.DeclarationGrammar:
			match(tt, data, true, "Declaration name")
		case css.CustomPropertyGrammar:
			// matched together with its value below: an earlier occurrence of the same name that was only part of a parse
			// error (reported through no token) must not be taken for this one
			customName = data
		}
		if valueDefining[gt] {
			for _, v := range p.Values() {
				switch v.TokenType {
				case css.WhitespaceToken:
					if strings.Trim(string(v.Data), " \t\n\r\f") != "" {
						t.Fatalf("%q: whitespace token %q in Values()", src, v.Data)
					}
				case css.CustomPropertyValueToken:
					// the exact source text between the colon and the terminator: some occurrence of the name in the rest of
					// the lexer tokens is followed by a colon and by tokens that spell the value
					found := false
					for k := pos; k < len(lexed) && !found; k++ {
						// (IE hack: an asterisk in front of the name is glued to it)
						if lexed[k].TokenType != css.CustomPropertyNameToken || !bytes.Equal(lexed[k].Data, customName) && !(len(customName) > 1 && customName[0] == '*' && bytes.Equal(lexed[k].Data, customName[1:])) {
							continue
						}
						j := k + 1
						for j < len(lexed) && (lexed[j].TokenType == css.WhitespaceToken || lexed[j].TokenType == css.CommentToken) {
							j++
						}
						if j >= len(lexed) || lexed[j].TokenType != css.ColonToken {
							continue
						}
						j++
						rest := v.Data
						for len(rest) > 0 && j < len(lexed) && bytes.HasPrefix(rest, lexed[j].Data) {
							rest = rest[len(lexed[j].Data):]
							j++
						}
						if len(rest) == 0 {
							found, pos = true, j
						}
					}
					if !found {
						t.Fatalf("%q: custom property %q has the value %q, which is not the exact source text behind the colon of any occurrence of that name in the rest of the input", src, customName, v.Data)
					}
				default:
					match(v.TokenType, v.Data, false, gt.String()+" Values()")
				}
			}
		}
		if (gt == css.EndAtRuleGrammar || gt == css.EndRulesetGrammar) && len(data) > 0 {
			if tt != css.RightBraceToken || string(data) != "}" {
				t.Fatalf("%q: %v carries %v %q", src, gt, tt, data)
			}
		}
	}
}

func TestProp_Any(t *testing.T) {
	ev.Describe("any", "all byte strings: hostile CSS fragment strings, mutated literals of the repository's css tests and truncations of generated well-formed sheets, in both modes; oracle: while no parse error has been reported every End unit closes the innermost open Begin unit of the matching kind, the depth never becomes negative and is zero when the end of input is first reported; on every input the tokens reported through data and Values() (unit kinds that define them) form a subsequence of an independent css.Lexer run on the same bytes (names modulo ASCII case, IE hack as two tokens, custom property values as exact source text); the stream ends with ErrorGrammar whose Err() is io.EOF within 4*len+16 calls; non-trivial = >= 3 units incl. a Begin")
	ev.Check(t, 20000, func(t *rapid.T) {
		inline := rapid.Bool().Draw(t, "inline")
		var src []byte
		switch rapid.IntRange(0, 3).Draw(t, "source") {
		case 0:
			g := genSheet(t, inline)
			s := g.src.String()
			src = []byte(s[:rapid.IntRange(0, len(s)).Draw(t, "cut")])
		case 1:
			c := gen.Corpus("css")
			src = []byte(gen.Mutate(t, rapid.SampledFrom(c).Draw(t, "corpus"), c, gen.Frags["css"]))
		default:
			src = gen.Fragments(t, "frag", gen.Frags["css"], 16)
		}
		units, begins, perr := runAny(t, src, inline)
		ev.Case("any", fmt.Sprintf("%v|%s", inline, src), units >= 3 && begins > 0, fmt.Sprintf("parseerror=%v", perr), fmt.Sprintf("inline=%v", inline))
	})
}
