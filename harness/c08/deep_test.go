package c08

import (
	"fmt"
	"io"
	"strings"
	"testing"

	"github.com/tdewolff/parse/v2"
	"github.com/tdewolff/parse/v2/css"

	"verif/internal/ev"
)

// TestProp_DeepOpen: however many blocks are open when the input ends, every one of them is closed by its End unit before
// the end of the input is reported (no parse error is involved: the input just stops)
func TestProp_DeepOpen(t *testing.T) {
	ev.Describe("deepopen", "d blocks opened and never closed (rulesets, @media blocks, a mixture; stylesheet and inline mode), d in {1, 10, 999, 1000, 1001, 1003, 1500, 5000, 20000}, the input ending in an open declaration; oracle: d Begin units, then the declaration, then d End units of the matching kinds, then ErrorGrammar with io.EOF and no parse error; non-trivial = d >= 1000")
	for _, d := range []int{1, 10, 999, 1000, 1001, 1003, 1500, 5000, 20000} {
		for variant, open := range []string{"a{", "@media x{", "a{@media x{"} {
			for _, inline := range []bool{false, true} {
				if inline && variant != 0 {
					continue
				}
				src := strings.Repeat(open, d) + "b:c"
				if inline {
					src = "b:c;" + src // a declaration list that goes on with nested rules
				}
				p := css.NewParser(parse.NewInputString(src), inline)
				var stack []css.GrammarType
				begins, ends := 0, 0
				for i := 0; ; i++ {
					if i > 8*len(src)+16 {
						t.Fatalf("%q x %d: the parser does not terminate", open, d)
					}
					gt, _, _ := p.Next()
					if gt == css.ErrorGrammar {
						if p.HasParseError() {
							continue
						}
						if p.Err() != io.EOF {
							t.Fatalf("%q x %d (inline=%v): the stream ends with %v", open, d, inline, p.Err())
						}
						break
					}
					switch gt {
					case css.BeginRulesetGrammar, css.BeginAtRuleGrammar:
						stack = append(stack, gt)
						begins++
					case css.EndRulesetGrammar, css.EndAtRuleGrammar:
						want := css.BeginRulesetGrammar
						if gt == css.EndAtRuleGrammar {
							want = css.BeginAtRuleGrammar
						}
						if len(stack) == 0 || stack[len(stack)-1] != want {
							t.Fatalf("%q x %d (inline=%v): %v does not match the innermost open block", open, d, inline, gt)
						}
						stack = stack[:len(stack)-1]
						ends++
					}
				}
				if !p.HasParseError() && len(stack) != 0 {
					t.Fatalf("%q x %d (inline=%v): %d blocks were opened and %d closed before the end of the input was reported, without a parse error", open, d, inline, begins, ends)
				}
				ev.Case("deepopen", fmt.Sprintf("%q x %d inline=%v", open, d, inline), d >= 1000, fmt.Sprintf("variant=%d", variant))
			}
		}
	}
}
