package c08

import (
	"testing"

	"verif/internal/gen"
)

func FuzzC08_Any(f *testing.F) {
	for i, s := range gen.Corpus("css") {
		if i%3 == 0 && len(s) < 300 {
			f.Add([]byte(s), i%2 == 0)
		}
	}
	for _, s := range gen.Frags["css"] {
		f.Add([]byte(s), true)
		f.Add([]byte("a{"+s), false)
	}
	f.Fuzz(func(t *testing.T, src []byte, inline bool) {
		if len(src) > 1<<13 {
			return
		}
		runAny(t, src, inline)
	})
}
