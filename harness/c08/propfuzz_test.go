package c08

import (
	"testing"

	"verif/internal/ev"
)

// FuzzProp: coverage-guided fuzzing of this package's rapid properties (see ev.FuzzProp); thorough tier only.
func FuzzProp(f *testing.F) {
	ev.FuzzProp(f, map[string]func(*testing.T){
		"TestProp_Any":        TestProp_Any,
		"TestProp_WellFormed": TestProp_WellFormed,
	})
}
