package c08

import "testing"

type tf struct{ t *testing.T }

func (f tf) Fatalf(format string, args ...any) { f.t.Errorf(format, args...) }

// D4 (fixed): end of input reported while a ruleset is open
func TestRegress_StarEOF(t *testing.T) {
	for _, s := range []string{"a{*", "\\0\\0{*", "@media x{a{*", "a{b:c;*"} {
		runAny(tf{t}, []byte(s), false)
	}
}
