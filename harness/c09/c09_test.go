package c09

import (
	"fmt"
	"strings"
	"testing"

	"github.com/tdewolff/parse/v2"
	"github.com/tdewolff/parse/v2/html"
	"pgregory.net/rapid"

	"verif/internal/ev"
	"verif/internal/gen"
)

func TestMain(m *testing.M) { ev.Main(m, "C09") }

type tok struct {
	tt      html.TokenType
	data    string
	text    string
	attrVal string // noVal when nil
	tmpl    bool
}

const noVal = "\x00nil"

func (k tok) String() string {
	v := k.attrVal
	if v == noVal {
		v = "<nil>"
	}
	return fmt.Sprintf("%v(%q text=%q val=%q tmpl=%v)", k.tt, k.data, k.text, v, k.tmpl)
}

type docgen struct {
	t       *rapid.T
	toks    []tok
	pre     map[int]string // whitespace in front of token i that no token covers
	classes map[string]int
	tmpl    [2]string // delimiters, empty when not in template mode
	last    string    // kind of the last construct ("text" must not be followed by "text")
}

func (g *docgen) add(k tok) { g.toks = append(g.toks, k) }

func randCase(t *rapid.T, s string) string {
	b := []byte(s)
	for i, c := range b {
		if c >= 'a' && c <= 'z' && rapid.IntRange(0, 2).Draw(t, "upper") == 0 {
			b[i] = c - 32
		}
	}
	return string(b)
}

func lower(s string) string {
	b := []byte(s)
	for i, c := range b {
		if c >= 'A' && c <= 'Z' {
			b[i] = c + 32
		}
	}
	return string(b)
}

func wsp(t *rapid.T, min int) string {
	return rapid.StringOfN(rapid.SampledFrom([]rune(" \t\n\r\f")), min, 2, -1).Draw(t, "ws")
}

var special = map[string]bool{"script": true, "style": true, "title": true, "textarea": true, "xmp": true, "iframe": true, "plaintext": true, "svg": true, "math": true, "xml": true}

func tagName(t *rapid.T) string {
	for {
		n := rapid.OneOf(rapid.SampledFrom([]string{"a", "b", "div", "p", "br", "img", "h1", "x-y", "scriptx", "styl", "svgs", "mat", "textare", "tit", "custom-element", "x[0]yzabc", "blockquote", "my@tag`x{y",
			// elements that the HTML standard parses in special ways but the statement does not list: ordinary tags here
			"noembed", "noframes", "noscript", "template", "select", "option", "listing", "pre", "object", "embed"}), rapid.StringMatching(`[a-z][a-z0-9-]{0,5}`)).Draw(t, "tag")
		if !special[n] {
			return randCase(t, n)
		}
	}
}

// region: a template region begin ... end whose content holds the end delimiter only inside quoted strings
func (g *docgen) region() string {
	t := g.t
	var sb strings.Builder
	sb.WriteString(g.tmpl[0])
	if rapid.IntRange(0, 5).Draw(t, "rhead") == 0 {
		// the region begins like something the lexer knows by its first letters (an XML declaration, a comment, CDATA)
		sb.WriteString(rapid.SampledFrom([]string{"xml ", "xml\t", "xml\n", "php ", "=", "-", "!--", "[CDATA[", "/", "#", "!"}).Draw(t, "rheadtext"))
	}
	for k := rapid.IntRange(0, 4).Draw(t, "rn"); k > 0; k-- {
		sb.WriteString(rapid.SampledFrom([]string{" x ", ".y", " if a ", "'" + g.tmpl[1] + "'", "\"" + g.tmpl[1] + "\"", `"a\"` + g.tmpl[1] + `"`, "'it\\'s'", ">", "<b>", "</script>", " ", "=", "\n",
			// a region is opaque: closers of the construct it stands in do not end that construct
			"-->", "]]>", "/>", "</svg>", "</math >", "</textarea>", "--!>", "'-->'", "\"</style>\"", `"\\\\"`, `'\\\\'`, `"a\\\\\"b"`}).Draw(t, "rpart"))
	}
	s := sb.String()
	// the end delimiter must not arise by accident outside quotes (e.g. "}" + "}")
	return s + " " + g.tmpl[1]
}

func (g *docgen) sanitizeText(s string) string {
	var sb strings.Builder
	for i := 0; i < len(s); i++ {
		sb.WriteByte(s[i])
		if s[i] == '<' && i+1 < len(s) {
			c := s[i+1]
			if c >= 'a' && c <= 'z' || c >= 'A' && c <= 'Z' || c == '!' || c == '?' || (c == '/' && !(i+2 < len(s) && s[i+2] == '>')) {
				sb.WriteByte(' ')
			}
		}
	}
	out := sb.String()
	if strings.HasSuffix(out, "<") {
		out += " "
	}
	if g.tmpl[0] != "" {
		for strings.Contains(out, g.tmpl[0]) {
			out = strings.ReplaceAll(out, g.tmpl[0], g.tmpl[0][:1]+" "+g.tmpl[0][1:])
		}
		if strings.HasSuffix(out, g.tmpl[0][:1]) {
			out += " "
		}
	}
	return out
}

// stripOpeners removes accidental opening delimiters of the template dialect (also one that would arise at the end of s
// together with what follows)
func (g *docgen) stripOpeners(s string) string {
	if g.tmpl[0] == "" {
		return s
	}
	for strings.Contains(s, g.tmpl[0]) {
		s = strings.ReplaceAll(s, g.tmpl[0], g.tmpl[0][:1]+" "+g.tmpl[0][1:])
	}
	if strings.HasSuffix(s, g.tmpl[0][:1]) {
		s += " "
	}
	return s
}

func (g *docgen) text() {
	t := g.t
	if g.last == "text" {
		return
	}
	var sb strings.Builder
	for k := rapid.IntRange(1, 4).Draw(t, "tn"); k > 0; k-- {
		sb.WriteString(rapid.SampledFrom([]string{"text", " ", "\n", "&amp;", "&", "é", "<1", "< ", "<<", ">", "\"", "'", "a=b", "</>", "<>", "-->", "]]>", "/", "{", "%", "?",
			// what a region ends with, directly behind a region: it is ordinary text
			"}", "}x", "%>", "?>", "}}"}).Draw(t, "tpart"))
	}
	s := g.sanitizeText(sb.String())
	g.add(tok{html.TextToken, s, s, noVal, false})
	g.classes["text"]++
	g.last = "text"
}

// boundaryPad: one content in forty is padded in front to a length next to a multiple of 4096 (the sizes of blocks in which a
// scanner may search for the closing delimiter): the delimiter then starts on the last bytes of a block
func (g *docgen) boundaryPad(s string) string {
	if rapid.IntRange(0, 39).Draw(g.t, "boundarylen") != 0 {
		return s
	}
	n := rapid.SampledFrom([]int{4093, 4094, 4095, 4096, 4097, 8190, 8191, 8192, 8193}).Draw(g.t, "contentlen")
	if len(s) >= n {
		return s
	}
	g.classes["boundary-length"]++
	return strings.Repeat("x", n-len(s)) + s
}

func (g *docgen) comment() {
	t := g.t
	switch rapid.IntRange(0, 5).Draw(t, "ckind") {
	case 5:
		// <!--> and <!---> are complete (empty) comments
		g.add(tok{html.CommentToken, rapid.SampledFrom([]string{"<!-->", "<!--->", "<!---->", "<!----->"}).Draw(t, "abrupt"), "", noVal, false})
		if d := g.toks[len(g.toks)-1].data; len(d) > 6 {
			g.toks[len(g.toks)-1].text = d[4 : len(d)-3]
		}
	case 0, 1:
		var sb strings.Builder
		for k := rapid.IntRange(0, 4).Draw(t, "cn"); k > 0; k-- {
			sb.WriteString(rapid.SampledFrom([]string{"c", " ", "-", "<a>", "<!--", "\n", "é", "</script>", "--", "!", "{{", "<?"}).Draw(t, "cpart"))
		}
		s := sb.String()
		s = strings.ReplaceAll(strings.ReplaceAll(s, "-->", "-- >"), "--!>", "--! >")
		for strings.HasPrefix(s, ">") || strings.HasPrefix(s, "->") {
			s = "x" + s
		}
		hasTmpl := false
		if g.tmpl[0] != "" {
			// a bare opening delimiter would start a region: only whole regions are written (they may hold "-->")
			s = g.stripOpeners(s)
			var out strings.Builder
			for k := rapid.IntRange(0, 2).Draw(t, "cregions"); k > 0; k-- {
				at := rapid.IntRange(0, len(s)).Draw(t, "cregionat")
				out.WriteString(g.stripOpeners(s[:at]) + g.region())
				s = s[at:]
				hasTmpl = true
			}
			s = out.String() + s
		}
		close := rapid.SampledFrom([]string{"-->", "-->", "--!>"}).Draw(t, "cclose")
		if strings.HasSuffix(s, "--!") || strings.HasSuffix(s, "-") && close == "--!>" {
			s += " "
		}
		// "a--" + "-->" would end one character early on "--->": keep the body from ending in "-" before "--!>" only; "--->" is fine
		s = g.boundaryPad(s)
		g.add(tok{html.CommentToken, "<!--" + s + close, s, noVal, hasTmpl})
	case 2:
		s := rapid.SampledFrom([]string{"x", "ELEMENT a", "[if IE]", "-x", "[CDATA", "doctyp"}).Draw(t, "bogus")
		hasTmpl := false
		if g.tmpl[0] != "" && rapid.IntRange(0, 2).Draw(t, "bogusregion") == 0 {
			s += " " + g.region()
			hasTmpl = true
		}
		g.add(tok{html.CommentToken, "<!" + s + ">", s, noVal, hasTmpl})
	case 3:
		s := rapid.SampledFrom([]string{"x", "xml version='1.0'?", "php echo 1 ?", ""}).Draw(t, "pi")
		if g.tmpl[0] == "<?" {
			g.text()
			return
		}
		g.add(tok{html.CommentToken, "<?" + s + ">", s, noVal, false})
	case 4:
		s := rapid.SampledFrom([]string{" ", "1", " a", "#"}).Draw(t, "bogusend")
		g.add(tok{html.CommentToken, "</" + s + ">", s, noVal, false})
	}
	g.classes["comment"]++
	g.last = "comment"
}

func (g *docgen) doctype() {
	t := g.t
	body := rapid.SampledFrom([]string{" html", "html", "", " HTML PUBLIC \"-//W3C//DTD HTML 4.01//EN\"", "  x", " html SYSTEM 'about:legacy-compat'"}).Draw(t, "dbody")
	hasTmpl := false
	if g.tmpl[0] != "" && rapid.IntRange(0, 2).Draw(t, "doctyperegion") == 0 {
		body += " " + g.region()
		hasTmpl = true
	}
	g.add(tok{html.DoctypeToken, "<!" + randCase(t, "doctype") + body + ">", body, noVal, hasTmpl})
	g.classes["doctype"]++
	g.last = "doctype"
}

func (g *docgen) cdata() {
	t := g.t
	var sb strings.Builder
	for k := rapid.IntRange(0, 4).Draw(t, "dn"); k > 0; k-- {
		sb.WriteString(rapid.SampledFrom([]string{"d", "]", "]]", "]>", ">", "<a>", "</a>", "&", "\n", "é", "-->"}).Draw(t, "dpart"))
	}
	s := strings.ReplaceAll(sb.String(), "]]>", "]] >")
	hasTmpl := false
	if g.tmpl[0] != "" {
		s = g.stripOpeners(s)
		if rapid.IntRange(0, 2).Draw(t, "cdataregion") == 0 {
			at := rapid.IntRange(0, len(s)).Draw(t, "cdataregionat")
			s = g.stripOpeners(s[:at]) + g.region() + s[at:]
			hasTmpl = true
		}
	}
	g.add(tok{html.TextToken, "<![CDATA[" + s + "]]>", s, noVal, hasTmpl})
	g.classes["cdata"]++
	g.last = "cdata"
}

// attributes emits 0..n attribute tokens and returns true when the last one ends in an unquoted value or name,
// which needs whitespace before a "/>" closer
func (g *docgen) attributes(max int) (needWS bool) {
	t := g.t
	for k := rapid.IntRange(0, max).Draw(t, "nattr"); k > 0; k-- {
		lead := wsp(t, 1)
		useTmpl := g.tmpl[0] != "" && rapid.IntRange(0, 2).Draw(t, "attrtmpl") == 0
		name := rapid.OneOf(rapid.SampledFrom([]string{"a", "href", "data-x", "x:y", "@click", "v-on:a.b", "_", "A1", "class", "onclick",
			// names of eight and more bytes with the characters next to the letters in ASCII (@ [ ` {) at every position of a word
			"[ngModel]", "(click)", "[(ngModel)]", "[hidden]", "@click.prevent", "*ngFor", "[class.is-active]", "data-long-name[0]", "xmlns:xlink", "{curly}name", "back`tick`name", "aria-labelledby", "@@@@@@@@", "[[[[[[[[[", "ZZZZZZZ[Z", "z{z{z{z{z"}), rapid.StringMatching(`[a-zA-Z][a-zA-Z0-9_:.-]{0,5}`)).Draw(t, "attr")
		name = randCase(t, name)
		key := lower(name)
		hasTmpl := false
		if useTmpl && rapid.Bool().Draw(t, "nametmpl") {
			// a region inside the name: the name is then not lower-cased
			r := g.region()
			switch rapid.IntRange(0, 2).Draw(t, "namepos") {
			case 0:
				name = r + name
			case 1:
				name = name + r
			case 2:
				name = r
			}
			key = name
			hasTmpl = true
		}
		g.classes["attribute"]++
		switch rapid.IntRange(0, 4).Draw(t, "vkind") {
		case 0: // valueless
			g.add(tok{html.AttributeToken, lead + lowerIf(name, !hasTmpl), key, noVal, hasTmpl})
			needWS = true
			g.classes["attr-valueless"]++
		case 1, 2: // quoted
			q := rapid.SampledFrom([]string{`"`, `'`}).Draw(t, "quote")
			other := `'`
			if q == `'` {
				other = `"`
			}
			var sb strings.Builder
			for k := rapid.IntRange(0, 4).Draw(t, "vn"); k > 0; k-- {
				if useTmpl && rapid.IntRange(0, 2).Draw(t, "valtmpl") == 0 {
					sb.WriteString(g.region())
					hasTmpl = true
					continue
				}
				sb.WriteString(rapid.SampledFrom([]string{"v", " ", other, ">", "/>", "<b>", "\n", "é", "=", "&quot;", "/", "Mixed"}).Draw(t, "vpart"))
			}
			v := sb.String()
			if g.tmpl[0] != "" && !hasTmpl {
				v = strings.ReplaceAll(v, g.tmpl[0], "")
			}
			eq := wsp(t, 0) + "=" + wsp(t, 0)
			g.add(tok{html.AttributeToken, lead + lowerIf(name, key != name || !hasTmpl || !strings.Contains(name, g.tmpl[0])) + eq + q + v + q, key, q + v + q, hasTmpl})
			needWS = false
			g.classes["attr-quoted"]++
		default: // unquoted
			var v string
			if useTmpl && rapid.Bool().Draw(t, "wholetmpl") {
				v = g.region()
				if rapid.Bool().Draw(t, "two") {
					v += g.region()
				}
				hasTmpl = true
			} else if useTmpl {
				// regions in front of, in the middle of and behind unquoted text: still one value
				for k := rapid.IntRange(2, 4).Draw(t, "umix"); k > 0; k-- {
					if rapid.Bool().Draw(t, "umixregion") {
						v += g.region()
						hasTmpl = true
					} else {
						v += g.stripOpeners(rapid.SampledFrom([]string{"x", "/u/", "1", "a=b", "é", "/edit", "it's", "#"}).Draw(t, "umixtext"))
					}
				}
				if strings.HasPrefix(v, "\"") || strings.HasPrefix(v, "'") {
					v = "x" + v
				}
				if !hasTmpl {
					v += g.region()
					hasTmpl = true
				}
				if strings.HasSuffix(v, "/") {
					v += "x" // (a region followed by "/>" is the void closer, not part of the value)
				}
			} else {
				var sb strings.Builder
				for k := rapid.IntRange(1, 3).Draw(t, "un"); k > 0; k-- {
					sb.WriteString(rapid.SampledFrom([]string{"v", "1", "/", "a/b", "=", "é", "x\"y", "it's", "&amp;", "#", "Mixed"}).Draw(t, "upart"))
				}
				v = sb.String()
				if strings.HasPrefix(v, "\"") || strings.HasPrefix(v, "'") {
					v = "x" + v
				}
				if g.tmpl[0] != "" {
					v = strings.ReplaceAll(v, g.tmpl[0], "x")
				}
			}
			eq := wsp(t, 0) + "=" + wsp(t, 0)
			g.add(tok{html.AttributeToken, lead + lowerIf(name, key != name || !hasTmpl || !strings.Contains(name, g.tmpl[0])) + eq + v, key, v, hasTmpl})
			needWS = true
			g.classes["attr-unquoted"]++
		}
	}
	return needWS
}

func lowerIf(s string, cond bool) string {
	if cond {
		return lower(s)
	}
	return s
}

func (g *docgen) closer(needWS bool, void bool) {
	t := g.t
	ws := wsp(t, 0)
	if void {
		if needWS && ws == "" {
			ws = " "
		}
		g.pre[len(g.toks)] = ws
		g.add(tok{html.StartTagVoidToken, "/>", "", noVal, false})
	} else {
		g.pre[len(g.toks)] = ws
		g.add(tok{html.StartTagCloseToken, ">", "", noVal, false})
	}
}

func (g *docgen) startTag() {
	t := g.t
	n := tagName(t)
	g.add(tok{html.StartTagToken, "<" + lower(n), lower(n), noVal, false})
	needWS := g.attributes(3)
	g.closer(needWS, rapid.IntRange(0, 3).Draw(t, "void") == 0)
	g.classes["starttag"]++
	g.last = "tag"
}

func (g *docgen) endTag(n string) { g.endTagGlue(n, true) }

// endTagGlue: glue says whether a template region may stand directly behind the name (not for the end tag of a raw text
// element: there the name must be complete)
func (g *docgen) endTagGlue(n string, glue bool) {
	t := g.t
	if g.tmpl[0] != "" && rapid.IntRange(0, 5).Draw(t, "endtagregion") == 0 {
		// a region behind the name (Text() is the name and what follows it, without trailing whitespace)
		r := g.region()
		sp := rapid.SampledFrom([]string{" ", " ", ""}).Draw(t, "endtagregionsep") // (directly behind the name: the region keeps its case)
		if !glue {
			sp = " "
		}
		g.add(tok{html.EndTagToken, "</" + lower(n) + sp + r + wsp(t, 0) + ">", lower(n) + sp + r, noVal, true})
		g.classes["endtag"]++
		g.last = "tag"
		return
	}
	g.add(tok{html.EndTagToken, "</" + lower(n) + wsp(t, 0) + ">", lower(n), noVal, false})
	g.classes["endtag"]++
	g.last = "tag"
}

func (g *docgen) rawElement() {
	t := g.t
	n := rapid.SampledFrom([]string{"script", "style", "title", "textarea", "xmp", "iframe"}).Draw(t, "rawtag")
	wn := randCase(t, n)
	g.add(tok{html.StartTagToken, "<" + n, n, noVal, false})
	g.attributes(2)
	g.closer(false, false)
	var sb strings.Builder
	hasTmpl := false
	for k := rapid.IntRange(0, 5).Draw(t, "rawn"); k > 0; k-- {
		p := rapid.SampledFrom([]string{"x", " ", "\n", "<b>", "</b>", "<", "</", "</" + n + "x", "</ " + n + ">", "< /" + n + ">", "</" + n[:len(n)-1], "</" + n[:len(n)-1] + ">", "</other>", "'", "\"", "&amp;", "é", "var a = '<p>';", "ESC", "ESC", "ESC", "REGION", "REGION", "<!-", "-->", "<script>", "<SCRIPT x>", "--", "-",
			// not the matching end tag: the name goes on (only whitespace, / and > end a tag name)
			"</" + n + "-x>", "</" + n + "0>", "</" + randCase(t, n) + ":y>", "</" + n + "_>", "</" + n + "=>"}).Draw(t, "rawpart")
		switch p {
		case "ESC":
			if n != "script" {
				// the double-escape rules are the script element's alone: in the other raw-text elements <!-- and a
				// look-alike start tag of the element change nothing, the first end tag ends the element
				sb.WriteString("<!--")
				for j := rapid.IntRange(0, 3).Draw(t, "rawescn"); j > 0; j-- {
					sb.WriteString(rapid.SampledFrom([]string{" c ", "<" + randCase(t, n) + ">", "<" + n + " x>", "<" + n + "/>", "<script>", "-->", "--", "\n"}).Draw(t, "rawescpart"))
				}
				if rapid.Bool().Draw(t, "rawescclose") {
					sb.WriteString("-->")
				}
				g.classes["rawtext-comment-lookalike"]++
				continue
			}
			// script double escape: inside <!-- ... -->, </script> after <script does not end the element
			if rapid.IntRange(0, 5).Draw(t, "escabrupt") == 0 {
				// <!--> and <!---> open and close the escape at once: what follows is ordinary script text
				sb.WriteString("\x02" + rapid.SampledFrom([]string{">", "->"}).Draw(t, "escabruptend") + " <" + randCase(t, "script") + "> ")
				g.classes["script-escape-abrupt"]++
				continue
			}
			sb.WriteString("\x02") // placeholder for "<!--", restored after stray openers have been defused
			in := false
			for j := rapid.IntRange(0, 4).Draw(t, "escn"); j > 0; j-- {
				q := rapid.SampledFrom([]string{" x ", "<" + randCase(t, "script") + ">", "<script ", "</" + randCase(t, "script") + ">", "<b>", "</scriptx>", "\n", "- ", "-- ", "--x>", "-x->", "<script-x>", "<script0 ", "</script-x>", "<script/>", "</script/>", "REGION"}).Draw(t, "escpart")
				if q == "REGION" {
					if g.tmpl[0] != "" {
						sb.WriteString(g.region())
						hasTmpl = true
					}
					continue
				}
				if strings.HasPrefix(lower(q), "<script-") || strings.HasPrefix(lower(q), "<script0") || strings.HasPrefix(lower(q), "</script-") {
					// not script tags: they change nothing
				} else if strings.HasPrefix(lower(q), "<script") {
					in = true
				} else if strings.HasPrefix(lower(q), "</script>") || strings.HasPrefix(lower(q), "</script/") {
					if !in {
						continue
					}
					in = false
				}
				sb.WriteString(q)
			}
			if rapid.IntRange(0, 3).Draw(t, "escopen") == 0 {
				// the escape is not closed: outside a nested <script> the end tag of the element ends it all the same
				if in {
					sb.WriteString(" </" + randCase(t, "script") + "> ")
				}
				g.classes["script-escape-unclosed"]++
				k = 1 // the end tag of the element follows
				continue
			}
			// any run of two or more dashes followed by > closes the escape
			sb.WriteString(rapid.SampledFrom([]string{"-->", "-->", "--->", "---->", "- -->", "--x--->"}).Draw(t, "esccloser"))
			g.classes["script-escape"]++
		case "REGION":
			if g.tmpl[0] != "" {
				sb.WriteString(g.region())
				hasTmpl = true
			}
		default:
			sb.WriteString(p)
		}
	}
	content := sb.String()
	if n == "script" {
		// a stray "<!--" outside the ESC production would start the escape rules: only the ESC production writes it
		content = strings.ReplaceAll(content, "<!-", "<! -")
		content = strings.ReplaceAll(content, "\x02", "<!--")
	}
	if g.tmpl[0] != "" && !hasTmpl {
		content = strings.ReplaceAll(content, g.tmpl[0], "")
	}
	if content != "" {
		content = g.boundaryPad(content)
		g.add(tok{html.TextToken, content, content, noVal, hasTmpl})
	}
	_ = wn
	g.endTagGlue(wn, false)
	g.classes["raw-"+n]++
	g.last = "tag"
}

// foreignAttrs: attributes of an element inside (or at the root of) foreign content; the last return value tells whether
// the tag may be closed by "/>" as a self-closing tag (not behind an unquoted value: there the slash belongs to the value)
func (g *docgen) foreignAttrs(n string, hasTmpl *bool) (string, bool) {
	t := g.t
	var sb strings.Builder
	canVoid := true
	for k := rapid.IntRange(0, 2).Draw(t, "fattr"); k > 0; k-- {
		a := rapid.SampledFrom([]string{` width="1"`, ` a="</` + n + `>"`, ` b='x'`, ` viewBox="0 0 1 1"`, ` c`, ` d="</SVG>"`, ` e='</` + n + `>'`, ` f='"'`, ` g="it's"`, ` h = ">"`, ` i='/>'`, ` j="/>"`, ` k=v`, ` l=v/`, ` m=a"b`, "\nn\t=\n'>'", "REGIONQ", "REGIONU"}).Draw(t, "fa")
		switch a {
		case "REGIONQ":
			if g.tmpl[0] == "" {
				continue
			}
			a = ` r="x` + g.region() + `"`
			*hasTmpl = true
		case "REGIONU":
			if g.tmpl[0] == "" {
				continue
			}
			a = ` u=` + g.region()
			*hasTmpl = true
		}
		sb.WriteString(a)
		canVoid = !(strings.HasSuffix(a, "=v") || strings.HasSuffix(a, "=v/") || strings.HasSuffix(a, `a"b`) || strings.HasPrefix(a, " u="))
	}
	return sb.String(), canVoid
}

// foreignContent: the content of an svg or math element: text with quotes, other elements, comments and CDATA sections
// holding look-alike end tags, the other foreign kind, nested elements of the same kind (closed or self-closing) and, in
// template mode, regions
func (g *docgen) foreignContent(n, other string, depth int, hasTmpl *bool) string {
	t := g.t
	var sb strings.Builder
	for k := rapid.IntRange(0, 4).Draw(t, "fn"); k > 0; k-- {
		p := rapid.SampledFrom([]string{"<path d=\"M0 0\"/>", "<g>", "</g>", "text", "<title>t</title>", "<a x=\"</" + n + ">\"/>", "</" + n + "x>", "<!-- c -->", "\n", "<mi>x</mi>", "</other>",
			"<" + other + ">", "</" + other + ">", "</" + strings.ToUpper(other) + " >", "<foreignObject><" + other + "></" + other + "></foreignObject>", "</xml>",
			// quotes in text content are text; quotes of either kind delimit attribute values inside tags only
			"5\" pipe", "it's", "\"", "'", "<text>say \"hi</text>", "<a x='</" + n + ">' y=\"'\"/>", "<b q='\"'>", "<c\nq = \">\" r='>'>",
			"<!-- </" + n + "> \" ' -->", "<![CDATA[ </" + n + "> \" ' < ]]>", "<!---->", "<" + n + "x>", "<" + n + "s a='b'>", "<g a=b/>", "<g a=/>",
			// end tags whose name goes on are not the end tag of the element; comments may end in --!> and be empty (<!-->)
			"</" + n + ":g>", "<" + n + ":g></" + n + ":g>", "</" + n + "-icon>", "</" + n + "1>", "</" + strings.ToUpper(n) + "_>", "<!-- </" + n + "> --!>", "<!-->", "<!--->", "COMMENTREGION", "CDATAREGION",
			"NESTED", "NESTED", "SELFCLOSED", "REGION"}).Draw(t, "fpart")
		switch p {
		case "NESTED":
			if depth >= 2 {
				continue
			}
			attrs, _ := g.foreignAttrs(n, hasTmpl)
			sb.WriteString("<" + randCase(t, n) + attrs + wsp(t, 0) + ">" + g.foreignContent(n, other, depth+1, hasTmpl) + "</" + randCase(t, n) + wsp(t, 0) + ">")
			g.classes["foreign-nested"]++
		case "SELFCLOSED":
			attrs, canVoid := g.foreignAttrs(n, hasTmpl)
			if !canVoid {
				attrs += " "
			}
			sb.WriteString("<" + randCase(t, n) + attrs + "/>")
			g.classes["foreign-selfclosed-inner"]++
		case "REGION":
			if g.tmpl[0] != "" {
				sb.WriteString(g.region())
				*hasTmpl = true
			}
		case "COMMENTREGION":
			if g.tmpl[0] != "" {
				sb.WriteString("<!-- c " + g.region() + " -->")
				*hasTmpl = true
			}
		case "CDATAREGION":
			if g.tmpl[0] != "" {
				sb.WriteString("<![CDATA[ d " + g.region() + " ]]>")
				*hasTmpl = true
			}
		default:
			sb.WriteString(p)
		}
	}
	return sb.String()
}

func (g *docgen) foreign() {
	t := g.t
	n := rapid.SampledFrom([]string{"svg", "math"}).Draw(t, "foreign")
	other := "math"
	if n == "math" {
		other = "svg"
	}
	hasTmpl := false
	attrs, canVoid := g.foreignAttrs(n, &hasTmpl)
	var src string
	if rapid.IntRange(0, 5).Draw(t, "selfclosedroot") == 0 {
		if !canVoid {
			attrs += " "
		}
		src = "<" + n + attrs + "/>"
		g.classes["foreign-selfclosed"]++
	} else {
		end := wsp(t, 0)
		if g.tmpl[0] != "" && rapid.IntRange(0, 3).Draw(t, "endtagregion") == 0 {
			// a region in the end tag (behind the name and whitespace) belongs to the token like anywhere else
			end = " " + g.region() + wsp(t, 0)
			hasTmpl = true
		}
		src = "<" + n + attrs + wsp(t, 0) + ">" + g.foreignContent(n, other, 0, &hasTmpl) + "</" + randCase(t, n) + end + ">"
	}
	tt := html.SVGToken
	if n == "math" {
		tt = html.MathToken
	}
	if g.tmpl[0] != "" && !hasTmpl {
		src = strings.ReplaceAll(src, g.tmpl[0], "")
	}
	g.add(tok{tt, src, n, noVal, hasTmpl})
	g.classes["foreign"]++
	g.last = "tag"
}

func (g *docgen) templateNode() {
	g.add(tok{html.TemplateToken, g.region(), "", noVal, true})
	g.classes["template-node"]++
	g.last = "template"
}

func genDoc(t *rapid.T, tmpl [2]string) *docgen {
	g := &docgen{t: t, pre: map[int]string{}, classes: map[string]int{}, tmpl: tmpl}
	n := rapid.IntRange(1, 8).Draw(t, "nconstructs")
	kinds := []string{"text", "text", "comment", "doctype", "cdata", "starttag", "starttag", "endtag", "raw", "raw", "foreign"}
	if tmpl[0] != "" {
		kinds = append(kinds, "template", "template", "template")
	}
	for i := 0; i < n; i++ {
		switch rapid.SampledFrom(kinds).Draw(t, "construct") {
		case "text":
			g.text()
		case "comment":
			g.comment()
		case "doctype":
			g.doctype()
		case "cdata":
			g.cdata()
		case "starttag":
			g.startTag()
		case "endtag":
			g.endTag(tagName(t))
		case "raw":
			g.rawElement()
		case "foreign":
			g.foreign()
		case "template":
			if g.last != "text" && rapid.IntRange(0, 3).Draw(t, "ltbefore") == 0 {
				// a lone "<" that ends a text run, with the template directly behind it
				txt := rapid.SampledFrom([]string{"a <", "<", "1 <", "x<<", "a < <"}).Draw(t, "lttext")
				g.add(tok{html.TextToken, txt, txt, noVal, false})
				g.classes["text-lt-template"]++
			}
			g.templateNode()
		}
	}
	if rapid.IntRange(0, 9).Draw(t, "plaintext") == 0 {
		g.add(tok{html.StartTagToken, "<plaintext", "plaintext", noVal, false})
		g.closer(false, false)
		rest := rapid.SampledFrom([]string{"x", "</plaintext>", "<b>y</b>", "a </plaintext> b <!-- c"}).Draw(t, "rest")
		restTmpl := false
		if tmpl[0] != "" {
			rest = strings.ReplaceAll(rest, tmpl[0], "")
			if rapid.Bool().Draw(t, "plaintextregion") {
				rest += g.region() + " z"
				restTmpl = true
			}
		}
		g.add(tok{html.TextToken, rest, rest, noVal, restTmpl})
		g.classes["raw-plaintext"]++
	}
	return g
}

func (g *docgen) source(randomCase bool) string {
	var sb strings.Builder
	for i, k := range g.toks {
		sb.WriteString(g.pre[i])
		sb.WriteString(k.data)
	}
	return sb.String()
}

// upcase randomises the ASCII case of tag and attribute names in the source: the expectation holds the lower-cased form
func (g *docgen) upcase() string {
	t := g.t
	var sb strings.Builder
	for i, k := range g.toks {
		sb.WriteString(g.pre[i])
		d := k.data
		switch k.tt {
		case html.StartTagToken:
			d = "<" + randCase(t, d[1:])
		case html.EndTagToken:
			// only the name is case-folded
			nameEnd := 2 + len(k.text)
			if j := strings.IndexByte(k.text, ' '); j >= 0 {
				nameEnd = 2 + j // a template region follows the name
			}
			if g.tmpl[0] != "" {
				if j := strings.Index(k.text, g.tmpl[0]); j >= 0 && 2+j < nameEnd {
					nameEnd = 2 + j // directly behind the name
				}
			}
			d = "</" + randCase(t, d[2:nameEnd]) + d[nameEnd:]
		case html.AttributeToken:
			if !(k.tmpl && strings.Contains(k.text, g.tmpl[0]) && g.tmpl[0] != "") {
				// the name is the part matching k.text after the leading whitespace
				j := strings.Index(d, k.text)
				d = d[:j] + randCase(t, k.text) + d[j+len(k.text):]
			}
		case html.SVGToken, html.MathToken:
			d = "<" + randCase(t, k.text) + d[1+len(k.text):]
		}
		sb.WriteString(d)
	}
	return sb.String()
}

// twins: a second live lexer (plain and template mode) inside raw text, attributes, foreign content and template regions,
// stepped between every call on the lexer under test and the use of its results (gen.Twin)
const twinDoc = "<p Class=A b='c'>t</p><script>a</SCRIPx></script><svg A=\"1\"><g/></svg><textarea>x</TEXTAREA><a {{ x }}=y z={{ q }}>{{ if }}<style>s{{ .t }}</style>"

var twinPlain = gen.Twin{New: func() func() bool {
	l := html.NewLexer(parse.NewInputString(twinDoc))
	return func() bool { tt, _ := l.Next(); _, _ = l.Text(), l.AttrVal(); return tt != html.ErrorToken }
}}
var twinTmpl = gen.Twin{New: func() func() bool {
	l := html.NewTemplateLexer(parse.NewInputString(twinDoc), html.GoTemplate)
	return func() bool { tt, _ := l.Next(); _, _ = l.Text(), l.AttrVal(); return tt != html.ErrorToken }
}}

// supply: the document reaches the lexer in one of the ways a caller can supply it (in place, string, readers); the
// lexer lower-cases names in place, so the caller's bytes are not compared afterwards
func supply(src string) *parse.Input {
	in, _, _ := gen.Supply([]byte(src), "</script></svg>\"'-->")
	return in
}

func lex(l *html.Lexer, n int) []tok {
	var out []tok
	for i := 0; i <= n+2; i++ {
		tt, data := l.Next()
		twinPlain.Step()
		twinTmpl.Step()
		gen.Extend(data)
		_ = l.Err() // polled after every call: reading the error state must not disturb the lexer
		if tt == html.ErrorToken {
			return out
		}
		k := tok{tt, string(data), string(l.Text()), noVal, l.HasTemplate()}
		if tt == html.AttributeToken && l.AttrVal() != nil {
			k.attrVal = string(l.AttrVal())
		}
		if tt != html.AttributeToken {
			k.text = string(l.Text())
		}
		out = append(out, k)
	}
	return append(out, tok{html.ErrorToken, "does not terminate", "", noVal, false})
}

func compare(t *rapid.T, src string, got, want []tok) {
	for i := 0; i < len(want) || i < len(got); i++ {
		if i >= len(got) || i >= len(want) || got[i] != want[i] {
			var a, b string
			if i < len(got) {
				a = got[i].String()
			}
			if i < len(want) {
				b = want[i].String()
			}
			t.Fatalf("%q: token %d is %s, want %s\n got  %v\n want %v", src, i, a, b, got, want)
		}
	}
}

func classes(g *docgen) []string {
	var out []string
	for c := range g.classes {
		out = append(out, c)
	}
	return out
}

func TestProp_Document(t *testing.T) {
	ev.Describe("document", "documents of 1-8 constructs: text (no '<'+letter), comments (-->, --!>, bogus <!x> <?x> </ x>), doctype in any case, CDATA, start tags with unquoted/'/\"/valueless attributes (whitespace variants around =, values containing > /> the other quote, unquoted values with / = quotes), void and end tags, raw-text elements script/style/title/textarea/xmp/iframe with look-alike end tags (</scriptx, </ script>, < /script>, </scrip>) and the script <!-- <script> </script> --> double escape, plaintext (rest of document), end-tag look-alikes whose name goes on (</script-x>, </textarea0>), script escapes left open; svg/math subtrees generated recursively (quotes in text content, attribute values in either quote kind or unquoted incl. a trailing slash, comments and CDATA sections holding look-alike end tags and quotes, the other foreign kind, nested and self-closing elements of the same kind, a self-closing root); tag and attribute names in random ASCII case, whitespace variations; oracle: exactly one token per construct with the right type, token bytes (names lower-cased), Text()/AttrKey() lower-cased, AttrVal() verbatim, HasTemplate()==false; non-trivial = >= 3 constructs incl. a tag with attributes or a raw-text/foreign element")
	ev.Check(t, 15000, func(t *rapid.T) {
		g := genDoc(t, [2]string{})
		src := g.upcase()
		got := lex(html.NewLexer(supply(src)), len(src))
		compare(t, src, got, g.toks)
		nt := len(g.toks) >= 3 && (g.classes["attribute"] > 0 || g.classes["foreign"] > 0 || g.classes["starttag"] < len(g.toks) && hasRaw(g))
		ev.Case("document", src, nt, classes(g)...)
	})
}

func hasRaw(g *docgen) bool {
	for c := range g.classes {
		if strings.HasPrefix(c, "raw-") {
			return true
		}
	}
	return false
}

var dialects = map[string][2]string{"GoTemplate": html.GoTemplate, "HandlebarsTemplate": html.HandlebarsTemplate, "MustacheTemplate": html.MustacheTemplate, "EJSTemplate": html.EJSTemplate, "ASPTemplate": html.ASPTemplate, "PHPTemplate": html.PHPTemplate}

func TestProp_Templates(t *testing.T) {
	ev.Describe("templates", "the same construct grammar with template regions of the configured dialect (all six dialect variables: {{ }}, <% %>, <? ?>) inserted as stand-alone nodes, between text, inside attribute names, in front of / inside / behind unquoted values, anywhere in quoted values, inside raw text and script escapes, inside comments, bogus comments, CDATA, doctype, behind end tag names and anywhere in svg/math content; region contents contain the end delimiter only inside '...'/\"...\" strings with backslash escapes (also runs of escaped backslashes in front of the closing quote) and any look-alike closer of the surrounding construct (-->, ]]>, />, </svg>, </textarea>); oracle: exact token list, no region is split across tokens (each generated region lies inside one token) and HasTemplate() is true exactly for the tokens that contain a region; non-trivial = >= 1 region inside an attribute or raw text")
	ev.Check(t, 15000, func(t *rapid.T) {
		name := rapid.SampledFrom([]string{"GoTemplate", "HandlebarsTemplate", "MustacheTemplate", "EJSTemplate", "ASPTemplate", "PHPTemplate"}).Draw(t, "dialect")
		d := dialects[name]
		g := genDoc(t, d)
		src := g.upcase()
		got := lex(html.NewTemplateLexer(supply(src), d), len(src))
		compare(t, src, got, g.toks)
		inner := false
		for _, k := range g.toks {
			if k.tmpl && k.tt != html.TemplateToken {
				inner = true
			}
		}
		ev.Case("templates", name+"|"+src, inner, append(classes(g), "dialect="+name)...)
	})
}

var htmlFrags = []string{"<a", "<A", "<script", "<style", "<svg", "<math", "<title", "<plaintext", ">", "/>", "</a>", "</script>", "</svg>", "</", " b=c", " d='e'", " f=\"g\"", " h", "=", "'", "\"", "<!--", "-->", "--!>", "<!DOCTYPE", "<![CDATA[", "]]>", "<?", "text", " ", "\n", "\x00", "é", "<", "/", "{{", "}}"}

func TestProp_Structure(t *testing.T) {
	ev.Describe("structure", "arbitrary strings of 0-14 HTML fragments (tag openers incl. raw-text and foreign elements, closers, quotes, comment/doctype/CDATA delimiters, NUL), 1/10 raw bytes, plain and {{ }} template mode; oracle: AttributeToken only between a StartTag and its StartTagClose/StartTagVoid, closers only end an open tag, after the closer of a raw-text start tag the next token is a single Text token that is followed by the matching end tag or the end of input, HasTemplate() is false without configured delimiters; non-trivial = >= 1 attribute token or a raw-text element")
	ev.Check(t, 30000, func(t *rapid.T) {
		src := gen.Fragments(t, "frag", htmlFrags, 14)
		tmplMode := rapid.Bool().Draw(t, "tmpl")
		var l *html.Lexer
		if tmplMode {
			l = html.NewTemplateLexer(parse.NewInputBytes(append([]byte(nil), src...)), html.GoTemplate)
		} else {
			l = html.NewLexer(parse.NewInputBytes(append([]byte(nil), src...)))
		}
		inTag, nattr, raw := false, 0, 0
		openTag, rawPending, afterRawText := "", "", ""
		errorsInARow := 0
		for i := 0; ; i++ {
			if i > 2*len(src)+8 {
				t.Fatalf("lexer does not terminate on %q", src)
			}
			tt, data := l.Next()
			twinPlain.Step()
			twinTmpl.Step()
			gen.Extend(data)
			if tt == html.ErrorToken {
				if _, ok := l.Err().(*parse.Error); !ok || errorsInARow >= 2 {
					break // the end of the input (io.EOF, or the error that is reported from now on)
				}
				// an error inside the input (a NUL byte): the caller goes on, attribute tokens still belong to a start
				// tag that was reported and is not closed yet; what the raw text expects is void
				errorsInARow++
				afterRawText, rawPending = "", ""
				continue
			}
			errorsInARow = 0
			if !tmplMode && l.HasTemplate() {
				t.Fatalf("%q: HasTemplate() without delimiters on %v %q", src, tt, data)
			}
			if afterRawText != "" {
				// the token after a raw text token must be the matching end tag
				if tt != html.EndTagToken || string(l.Text()) != afterRawText {
					t.Fatalf("%q: the raw text of <%s> is followed by %v %q instead of its end tag", src, afterRawText, tt, data)
				}
				afterRawText = ""
			}
			switch tt {
			case html.StartTagToken:
				if inTag {
					t.Fatalf("%q: StartTag %q inside an open tag", src, data)
				}
				inTag = true
				openTag = string(l.Text())
			case html.AttributeToken:
				nattr++
				if !inTag {
					t.Fatalf("%q: AttributeToken %q outside a tag", src, data)
				}
			case html.StartTagCloseToken, html.StartTagVoidToken:
				if !inTag {
					t.Fatalf("%q: %v without an open tag", src, tt)
				}
				inTag = false
				switch openTag {
				case "script", "style", "title", "textarea", "xmp", "iframe", "plaintext":
					rawPending = openTag
					raw++
				}
				continue
			default:
				if inTag {
					t.Fatalf("%q: %v %q inside an open tag", src, tt, data)
				}
			}
			if rawPending != "" {
				if tt == html.TextToken {
					if rawPending != "plaintext" {
						afterRawText = rawPending
					}
				} else if !(tt == html.EndTagToken && string(l.Text()) == rawPending) {
					t.Fatalf("%q: the content of <%s> is tokenised as %v %q", src, rawPending, tt, data)
				}
				rawPending = ""
			}
		}
		ev.Case("structure", string(src), nattr > 0 || raw > 0, fmt.Sprintf("tmpl=%v", tmplMode))
	})
}
