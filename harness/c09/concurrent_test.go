package c09

import (
	"fmt"
	"strings"
	"testing"

	"github.com/tdewolff/parse/v2"
	"github.com/tdewolff/parse/v2/html"
	"pgregory.net/rapid"

	"verif/internal/ev"
	"verif/internal/gen"
)

func plainLex(src string, tmpl [2]string) string {
	var l *html.Lexer
	if tmpl[0] != "" {
		l = html.NewTemplateLexer(parse.NewInputString(src), tmpl)
	} else {
		l = html.NewLexer(parse.NewInputString(src))
	}
	var sb strings.Builder
	for i := 0; i <= len(src)+2; i++ {
		tt, data := l.Next()
		if tt == html.ErrorToken {
			break
		}
		fmt.Fprintf(&sb, "%v%q%q%q%v ", tt, data, l.Text(), l.AttrVal(), l.HasTemplate())
	}
	return sb.String()
}

// TestProp_Concurrent: the tokens of a document are a function of the document, also while other goroutines lex others
func TestProp_Concurrent(t *testing.T) {
	ev.Describe("concurrent", "4-12 generated documents (plain or Go-template mode, random case), each lexed 200 times over first one after the other and then by as many goroutines at once (3 rounds behind a barrier); oracle: every goroutine gets the tokens, Text(), AttrVal() and HasTemplate() that the same document gives alone; non-trivial = >= 4 goroutines")
	ev.Check(t, 60, func(t *rapid.T) {
		n := rapid.IntRange(4, 12).Draw(t, "goroutines")
		srcs := make([]string, n)
		tmpls := make([][2]string, n)
		for i := range srcs {
			if rapid.Bool().Draw(t, "tmpl") {
				tmpls[i] = html.GoTemplate
			}
			srcs[i] = genDoc(t, tmpls[i]).upcase()
		}
		bad, alone, together := gen.Concurrently(n, 3, func(i int) string {
			s := ""
			for r := 0; r < 200; r++ {
				s = plainLex(srcs[i], tmpls[i])
			}
			return s
		})
		if bad >= 0 {
			t.Fatalf("%q (with %d other goroutines at work):\nalone:    %s\ntogether: %s", srcs[bad], n-1, alone, together)
		}
		ev.Case("concurrent", strings.Join(srcs, " || "), n >= 4, fmt.Sprintf("goroutines=%d", n))
	})
}
