package c09

import (
	"testing"

	"github.com/tdewolff/parse/v2"
	"github.com/tdewolff/parse/v2/html"
)

// fixed: form feed not trimmed from the end tag name; <% %> / <? ?> templates not seen inside raw text
func TestRegress_EndTagFormFeed(t *testing.T) {
	l := html.NewLexer(parse.NewInputString("</STYLE\f>"))
	tt, _ := l.Next()
	if tt != html.EndTagToken || string(l.Text()) != "style" {
		t.Fatalf("</STYLE\\f>: %v Text()=%q", tt, l.Text())
	}
}

func TestRegress_RawTextTemplate(t *testing.T) {
	for _, d := range [][2]string{html.EJSTemplate, html.PHPTemplate, html.GoTemplate} {
		src := "<script>a" + d[0] + " '</script>' " + d[1] + "b</script>"
		l := html.NewTemplateLexer(parse.NewInputString(src), d)
		l.Next()
		l.Next()
		tt, data := l.Next()
		want := "a" + d[0] + " '</script>' " + d[1] + "b"
		if tt != html.TextToken || string(data) != want || !l.HasTemplate() {
			t.Errorf("%s: raw text token %v %q HasTemplate=%v, want %q with a template", src, tt, data, l.HasTemplate(), want)
		}
	}
}

// f0787a1: a NUL byte in svg or math content ends that content with an error; what follows is not a tag that was opened
func TestRegress_ForeignContentError(t *testing.T) {
	for _, src := range []string{"<svg a=b><g/>\x00 c=d>text<p>", "<p>x<svg>\x00</svg>y", "<math>\x00 e", "\ufeff<svg\t\x00"} {
		l := html.NewLexer(parse.NewInputString(src))
		open := false
		for i := 0; i < 2*len(src)+8; i++ {
			tt, data := l.Next()
			switch tt {
			case html.StartTagToken:
				open = true
			case html.StartTagCloseToken, html.StartTagVoidToken:
				open = false
			case html.AttributeToken:
				if !open {
					t.Errorf("%q: AttributeToken %q without a start tag", src, data)
				}
			}
		}
	}
}

// 27523d3: a template region in the end tag of svg or math content is part of the token
func TestRegress_ForeignEndTagRegion(t *testing.T) {
	for src, d := range map[string][2]string{"<svg><g/></svg {{x}}>y": html.GoTemplate, "<svg><g/></svg {{ if a > b }}x{{end}}>y": html.GoTemplate, "<math></math <%= a %>>y": html.EJSTemplate} {
		l := html.NewTemplateLexer(parse.NewInputString(src), d)
		tt, data := l.Next()
		if (tt != html.SVGToken && tt != html.MathToken) || string(data) != src[:len(src)-1] || !l.HasTemplate() {
			t.Errorf("%q: first token %v %q HasTemplate=%v, want the whole element with its region", src, tt, data, l.HasTemplate())
		}
		if tt, data := l.Next(); tt != html.TextToken || string(data) != "y" {
			t.Errorf("%q: second token %v %q, want Text \"y\"", src, tt, data)
		}
	}
}
