package c10

import (
	"bytes"
	stdjson "encoding/json"
	"fmt"
	"io"
	"strings"
	"testing"

	"github.com/tdewolff/parse/v2"
	"github.com/tdewolff/parse/v2/json"

	"verif/internal/ev"
)

// TestProp_BigStrings: string tokens of hundreds of kilobytes with an escaped quote or a run of backslashes at every
// offset next to a multiple of 65536 (the sizes of windows in which a scanner may look for the closing quote)
func TestProp_BigStrings(t *testing.T) {
	ev.Describe("bigstrings", "documents [\"aaa...a<tail>\", 1] and {\"aaa...a<tail>\": 2} with 65534..65538, 262141..262146 and 524286..524289 letters in front of a tail (an escaped quote, an escaped backslash in front of the closing quote, three backslashes and a quote, a unicode escape) so that the backslashes straddle the boundary; oracle: encoding/json accepts them, the parser accepts them and the re-joined units equal json.Compact; non-trivial = every case")
	var lens []int
	for _, base := range []int{65536, 262144, 524288} {
		for d := -3; d <= 2; d++ {
			lens = append(lens, base+d)
		}
	}
	for _, n := range lens {
		for _, tail := range []string{`\"b`, `\\`, `\\\"c`, `A`, `\\\\`, `x`} {
			for _, form := range []string{`["%s", 1]`, `{"%s": 2}`} {
				src := fmt.Sprintf(form, strings.Repeat("a", n)+tail)
				if !stdjson.Valid([]byte(src)) {
					t.Fatalf("harness: not a valid document (%d letters, tail %q)", n, tail)
				}
				p := json.NewParser(parse.NewInputString(src))
				var out bytes.Buffer
				for i := 0; i < 10; i++ {
					gt, data := p.Next()
					if gt == json.ErrorGrammar {
						break
					}
					if p.State() == json.ObjectValueState && gt == json.StringGrammar {
						out.Write(data)
						out.WriteByte(':')
						continue
					}
					if gt == json.NumberGrammar && out.Len() > 0 && out.Bytes()[out.Len()-1] != ':' {
						out.WriteByte(',')
					}
					out.Write(data)
				}
				if p.Err() != io.EOF {
					t.Fatalf("%d letters and the tail %q in a string of %s: the parser stops with %v", n, tail, form, p.Err())
				}
				var want bytes.Buffer
				stdjson.Compact(&want, []byte(src))
				if !bytes.Equal(out.Bytes(), want.Bytes()) {
					t.Fatalf("%d letters and the tail %q in a string of %s: the units re-join to %d bytes ending in %q, want %d bytes ending in %q", n, tail, form, out.Len(), out.Bytes()[out.Len()-12:], want.Len(), want.Bytes()[want.Len()-12:])
				}
				ev.Case("bigstrings", fmt.Sprintf("%d+%q %s", n, tail, form), true, fmt.Sprintf("len~%d", n/65536*65536))
			}
		}
	}
}
