package c10

import (
	"bytes"
	stdjson "encoding/json"
	"fmt"
	"io"
	"strings"
	"testing"

	"github.com/tdewolff/parse/v2"
	"github.com/tdewolff/parse/v2/json"
	"pgregory.net/rapid"

	"verif/internal/ev"
	"verif/internal/gen"
)

func TestMain(m *testing.M) { ev.Main(m, "C10") }

type tok = gen.Tok

func genDoc(t *rapid.T) *gen.JSONDoc { return gen.GenJSON(t) }

func join(toks []tok) string { return gen.JoinJSON(toks) }

// ---------- running the parser against the container-stack model

type unit struct {
	gt   json.GrammarType
	data string
}

// run drives the parser until the first ErrorGrammar, checking nesting and State() against a model stack.
// It returns the units, the re-joined document and the final error.
type fataler interface {
	Fatalf(format string, args ...any)
}

var twin = gen.Twin{New: func() func() bool {
	p := json.NewParser(parse.NewInputString(`{"a":[1,{"b":"c\\\"d"},[[]],true],"e":{"f":null},"g":-1.5e3}`))
	return func() bool { gt, _ := p.Next(); _ = p.State(); return gt != json.ErrorGrammar }
}}

const jsonTail = `,"x":[1]}]`

func run(t fataler, src string) ([]unit, string, error) {
	input, how, check := gen.Supply([]byte(src), jsonTail)
	defer func() {
		input.Restore()
		if ok, rest := check(true); !ok {
			t.Fatalf("parsing %q (%s) changed the caller's buffer: %q", src, how, rest)
		}
	}()
	p := json.NewParser(input)
	var units []unit
	var out strings.Builder
	var stack []byte // '[' or '{'
	expectKey := false
	needComma := false
	if p.State() != json.ValueState {
		t.Fatalf("initial State() = %v", p.State())
	}
	for steps := 0; ; steps++ {
		if steps > 2*len(src)+8 {
			t.Fatalf("parser does not terminate on %q", src)
		}
		gt, data := p.Next()
		twin.Step()
		gen.Extend(data)
		if gt == json.ErrorGrammar {
			err := p.Err()
			if err == io.EOF {
				// at the end of the data State() still describes the innermost container that is open
				st := p.State()
				switch {
				case len(stack) == 0 && st != json.ValueState, len(stack) > 0 && stack[len(stack)-1] == '[' && st != json.ArrayState,
					len(stack) > 0 && stack[len(stack)-1] == '{' && st != json.ObjectKeyState && st != json.ObjectValueState:
					t.Fatalf("%q (%s): State() = %v at the end of the data, the open containers are %q", src, how, st, stack)
				}
				if len(stack) > 0 {
					return units, out.String(), err // cut off inside a container: what further calls report is C01's subject
				}
				if gt2, _ := p.Next(); gt2 != json.ErrorGrammar || p.Err() != io.EOF || p.State() != st {
					t.Fatalf("%q (%s): a further Next() at the end of the data gives %v, Err() %v, State() %v (was %v)", src, how, gt2, p.Err(), p.State(), st)
				}
				// the same input once more from the start (Reset is documented to go back to the beginning)
				input.Reset()
				p2 := json.NewParser(input)
				for i := 0; ; i++ {
					gt2, data2 := p2.Next()
					if gt2 == json.ErrorGrammar {
						if i != len(units) || p2.Err() != io.EOF {
							t.Fatalf("%q (%s): a second pass over the same input behind Reset() ends after %d units with %v, the first pass gave %d units", src, how, i, p2.Err(), len(units))
						}
						break
					}
					if i >= len(units) || units[i].gt != gt2 || units[i].data != string(data2) {
						t.Fatalf("%q (%s): unit %d of a second pass behind Reset() is %v %q, the first pass gave %v", src, how, i, gt2, data2, units)
					}
				}
			}
			return units, out.String(), err
		}
		_ = p.Err() // polled after every call: reading the error state must not disturb the parser
		units = append(units, unit{gt, string(data)})
		top := byte(0)
		if len(stack) > 0 {
			top = stack[len(stack)-1]
		}
		wasKey := false
		switch gt {
		case json.StartArrayGrammar, json.StartObjectGrammar:
			if top == '{' && expectKey {
				t.Fatalf("%v emitted in the key position of an object in %q", gt, src)
			}
			if needComma {
				out.WriteByte(',')
			}
			out.Write(data)
			needComma = false
			if gt == json.StartArrayGrammar {
				stack = append(stack, '[')
				expectKey = false
			} else {
				stack = append(stack, '{')
				expectKey = true
			}
		case json.EndArrayGrammar, json.EndObjectGrammar:
			want := byte('[')
			if gt == json.EndObjectGrammar {
				want = '{'
			}
			if top != want {
				t.Fatalf("%v emitted while the innermost open container is %q in %q (units %v)", gt, top, src, units)
			}
			stack = stack[:len(stack)-1]
			out.Write(data)
			needComma = true
			expectKey = len(stack) > 0 && stack[len(stack)-1] == '{'
		case json.StringGrammar, json.NumberGrammar, json.LiteralGrammar:
			if needComma {
				out.WriteByte(',')
			}
			out.Write(data)
			if top == '{' && expectKey {
				if gt != json.StringGrammar {
					t.Fatalf("%v %q emitted as an object key in %q", gt, data, src)
				}
				wasKey = true
				expectKey = false
				needComma = false
			} else {
				needComma = true
				expectKey = top == '{'
			}
		default:
			t.Fatalf("unexpected grammar type %v in %q", gt, src)
		}
		// State() describes the innermost open container
		var wantState json.State
		switch {
		case len(stack) == 0:
			wantState = json.ValueState
		case stack[len(stack)-1] == '[':
			wantState = json.ArrayState
		case wasKey || !expectKey:
			wantState = json.ObjectValueState
		default:
			wantState = json.ObjectKeyState
		}
		if p.State() != wantState {
			t.Fatalf("State() = %v after %v %q, want %v (open containers %q) in %q", p.State(), gt, data, wantState, stack, src)
		}
		if p.State() == json.ObjectValueState {
			out.WriteByte(':')
		}
	}
}

func TestProp_Valid(t *testing.T) {
	ev.Describe("valid", "random value trees (depth <= 6, arrays/objects of 0-4 members) with strings from escape fragments (all escape forms, surrogate pairs, strings ending in \\\\ and \\\\\\\", raw UTF-8, structural characters inside strings), numbers in every RFC form, literals, whitespace at every structural position; every document is first confirmed by encoding/json.Valid; oracle: no ErrorGrammar before EOF (Err()==io.EOF), container stack/State() model, re-joined units == json.Compact(input); non-trivial = >= 2 containers or an escape or an exponent")
	ev.Check(t, 20000, func(t *rapid.T) {
		g := genDoc(t)
		src := join(g.Toks)
		if !stdjson.Valid([]byte(src)) {
			t.Fatalf("generator bug: encoding/json rejects %q", src)
		}
		units, out, err := run(t, src)
		if err != io.EOF {
			t.Fatalf("valid document %q: parser stops after %d units with %v", src, len(units), err)
		}
		var want bytes.Buffer
		if e := stdjson.Compact(&want, []byte(src)); e != nil {
			t.Fatalf("Compact: %v", e)
		}
		if out != want.String() {
			t.Fatalf("re-joined units of %q give %q, want %q", src, out, want.String())
		}
		ev.Case("valid", src, g.Contain >= 2 || g.Escapes > 0 || g.Exps > 0, fmt.Sprintf("containers=%d", min(g.Contain, 5)))
	})
}

func min(a, b int) int {
	if a < b {
		return a
	}
	return b
}

var jsonFrags = []string{"{", "}", "[", "]", ",", ":", `"a"`, `"`, `\`, `\"`, `"\\"`, "1", "-", "0", "1.5", "1e5", "1e", ".", "true", "false", "null", "nul", " ", "\n", "\x00", "é", `"k":`, `{"a":`, "[1,", "]]", "}}", "tru", "-0", "01"}

func TestProp_Any(t *testing.T) {
	ev.Describe("any", "arbitrary strings of 0-14 JSON fragments (brackets, commas, colons, strings, broken escapes, numbers, literals and their prefixes, NUL), 1/10 raw bytes; oracle up to the first ErrorGrammar: an End unit only closes the innermost open container of the same kind, State() describes the innermost open container, a non-string is never emitted as a key; whenever encoding/json.Valid accepts the input the parser must reach io.EOF and re-join to json.Compact; termination within 2*len+8 calls; non-trivial = >= 1 container opened and >= 3 units")
	ev.Check(t, 30000, func(t *rapid.T) {
		src := string(gen.Fragments(t, "frag", jsonFrags, 14))
		units, out, err := run(t, src)
		valid := stdjson.Valid([]byte(src))
		if valid {
			if err != io.EOF {
				t.Fatalf("encoding/json accepts %q but the parser stops with %v", src, err)
			}
			var want bytes.Buffer
			stdjson.Compact(&want, []byte(src))
			if out != want.String() {
				t.Fatalf("re-joined units of %q give %q, want %q", src, out, want.String())
			}
		}
		opened := false
		for _, u := range units {
			opened = opened || u.gt == json.StartArrayGrammar || u.gt == json.StartObjectGrammar
		}
		ev.Case("any", src, opened && len(units) >= 3, fmt.Sprintf("valid=%v", valid), fmt.Sprintf("eof=%v", err == io.EOF))
	})
}

// ---------- mutations that must be reported as parse errors

func unitsBefore(toks []tok, i int) int {
	n := 0
	for _, k := range toks[:i] {
		if k.Kind != ',' && k.Kind != ':' && k.Kind != 'w' {
			n++
		}
	}
	return n
}

func TestProp_Mutants(t *testing.T) {
	ev.Describe("mutants", "one mutation of a generated valid document: closing bracket swapped for the other kind, an unopened closer appended, one ',' between two values deleted, one ':' deleted, a key replaced by a number/literal/array; oracle: the stream ends with ErrorGrammar whose Err() is a *parse.Error (not io.EOF), all units before the mutation are emitted and none for the offending bracket/key or after it; non-trivial = document with >= 1 container (the mutation needs one, except the appended closer)")
	ev.Check(t, 20000, func(t *rapid.T) {
		g := genDoc(t)
		toks := append([]tok(nil), g.Toks...)
		var cands []int
		kind := rapid.SampledFrom([]string{"swap-closer", "extra-closer", "del-comma", "del-colon", "bad-key"}).Draw(t, "mutation")
		for i, k := range toks {
			switch kind {
			case "swap-closer":
				if k.Kind == ']' || k.Kind == '}' {
					cands = append(cands, i)
				}
			case "del-comma":
				if k.Kind == ',' {
					cands = append(cands, i)
				}
			case "del-colon":
				if k.Kind == ':' {
					cands = append(cands, i)
				}
			case "bad-key":
				if k.Kind == 'k' {
					cands = append(cands, i)
				}
			}
		}
		want := 0
		switch kind {
		case "extra-closer":
			// after the complete top-level value
			last := len(toks)
			for last > 0 && toks[last-1].Kind == 'w' {
				last--
			}
			want = unitsBefore(toks, last)
			closer := rapid.SampledFrom([]string{"]", "}"}).Draw(t, "closer")
			toks = append(toks[:last:last], append([]tok{{closer, closer[0]}}, toks[last:]...)...)
		default:
			if len(cands) == 0 {
				t.Skip("nothing to mutate")
			}
			i := rapid.SampledFrom(cands).Draw(t, "at")
			switch kind {
			case "swap-closer":
				want = unitsBefore(toks, i)
				if toks[i].Kind == ']' {
					toks[i] = tok{"}", '}'}
				} else {
					toks[i] = tok{"]", ']'}
				}
			case "del-comma":
				// the value after the comma is where the error is found; if whitespace separated two scalars they
				// must not merge into one token: keep a space
				want = unitsBefore(toks, i)
				toks[i] = tok{" ", 'w'}
			case "del-colon":
				// the key before the colon must not be emitted
				want = unitsBefore(toks, i) - 1
				toks[i] = tok{" ", 'w'}
			case "bad-key":
				want = unitsBefore(toks, i)
				toks[i] = tok{rapid.SampledFrom([]string{"1", "true", "null", "[]", "-0.5", "{}"}).Draw(t, "badkey"), 'v'}
			}
		}
		src := join(toks)
		if stdjson.Valid([]byte(src)) {
			t.Fatalf("generator bug: mutation %s left a valid document %q", kind, src)
		}
		units, _, err := run(t, src)
		if _, ok := err.(*parse.Error); !ok {
			t.Fatalf("%s: %q (from %q) is not reported as a parse error: %d units, Err() = %v", kind, src, join(g.Toks), len(units), err)
		}
		if len(units) != want {
			t.Fatalf("%s: %q: %d units were emitted before the error, the document has %d before the mutation (units %v)", kind, src, len(units), want, units)
		}
		ev.Case("mutants", kind+"|"+src, g.Contain >= 1, "mutation="+kind)
	})
}

func TestProp_Deep(t *testing.T) {
	ev.Describe("deep", "arrays/objects nested 10^2..10^4 deep (10^5 thorough), closed or truncated; oracle: valid ones reach io.EOF with Compact equality and the stack model, truncated ones end in io.EOF or a parse error without a mismatched End; non-trivial = every case")
	ev.Check(t, 40, func(t *rapid.T) {
		max := 10000
		if ev.Thorough() {
			max = 100000
		}
		d := rapid.IntRange(100, max).Draw(t, "depth")
		obj := rapid.Bool().Draw(t, "object")
		closed := rapid.Bool().Draw(t, "closed")
		open, close := "[", "]"
		if obj {
			open, close = `{"a":`, "}"
		}
		src := strings.Repeat(open, d) + "1"
		if closed {
			src += strings.Repeat(close, d)
		}
		units, out, err := run(t, src)
		if _, isParseErr := err.(*parse.Error); err != io.EOF && (closed || !isParseErr) {
			// a truncated document is invalid: plain EOF (lenient) and a parse error are both fine
			t.Fatalf("depth %d (object=%v closed=%v): Err() = %v after %d units", d, obj, closed, err, len(units))
		}
		if closed && out != src {
			t.Fatalf("depth %d: re-joined document differs", d)
		}
		ev.Case("deep", fmt.Sprintf("%d/%v/%v", d, obj, closed), true)
	})
}
