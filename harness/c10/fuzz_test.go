package c10

import (
	"bytes"
	stdjson "encoding/json"
	"io"
	"testing"
)

// FuzzC10_Differential: coverage-guided byte-level search with the oracle inside the target: the stack/State() model
// on every input (inside run) and, whenever encoding/json accepts the input, acceptance and Compact equality.
func FuzzC10_Differential(f *testing.F) {
	for _, s := range []string{`{"a":[1,2,{"b":null}],"c":"é\\"}`, `[1e5,-0.5,true,false,null,""]`, ` { "a" : { } , "b" : [ ] } `, `"\\\""`, `[[[[[[]]]]]]`, `{"a":1,}`, `[1 2]`, `{[]:1}`} {
		f.Add([]byte(s))
	}
	f.Fuzz(func(t *testing.T, data []byte) {
		if len(data) > 1<<16 {
			return
		}
		_, out, err := run(t, string(data))
		if stdjson.Valid(data) {
			if err != io.EOF {
				t.Fatalf("encoding/json accepts %q, parser stops with %v", data, err)
			}
			var want bytes.Buffer
			stdjson.Compact(&want, data)
			if out != want.String() {
				t.Fatalf("re-joined %q, want %q", out, want.String())
			}
		}
	})
}
