package c10

import (
	"testing"

	"verif/internal/ev"
)

// FuzzProp: coverage-guided fuzzing of this package's rapid properties (see ev.FuzzProp); thorough tier only.
func FuzzProp(f *testing.F) {
	ev.FuzzProp(f, map[string]func(*testing.T){
		"TestProp_Any":     TestProp_Any,
		"TestProp_Deep":    TestProp_Deep,
		"TestProp_Mutants": TestProp_Mutants,
		"TestProp_Valid":   TestProp_Valid,
	})
}
