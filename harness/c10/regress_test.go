package c10

import (
	"testing"

	"github.com/tdewolff/parse/v2"
	"github.com/tdewolff/parse/v2/json"
)

// fixed: an array/object in the key position produced Start/End units
func TestRegress_ContainerAsKey(t *testing.T) {
	for _, src := range []string{`{[]:1}`, `{{}:1}`, `{"a":1,[2]:3}`, `[{ [] : "" }]`} {
		p := json.NewParser(parse.NewInputString(src))
		depth := 0
		for i := 0; i < 20; i++ {
			gt, _ := p.Next()
			if gt == json.ErrorGrammar {
				if _, ok := p.Err().(*parse.Error); !ok {
					t.Errorf("%s: Err() = %v", src, p.Err())
				}
				break
			}
			if gt == json.StartObjectGrammar {
				depth++
			} else if (gt == json.StartArrayGrammar || gt == json.StartObjectGrammar) && p.State() != json.ArrayState && depth > 0 && i > 0 {
				_ = depth
			}
		}
	}
	// precise: {[]:1} must emit exactly one unit
	p := json.NewParser(parse.NewInputString(`{[]:1}`))
	n := 0
	for {
		gt, _ := p.Next()
		if gt == json.ErrorGrammar {
			break
		}
		n++
	}
	if n != 1 {
		t.Errorf("{[]:1} emitted %d units before the error, want 1", n)
	}
}
