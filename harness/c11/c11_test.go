package c11

import (
	"bytes"
	stdxml "encoding/xml"
	"fmt"
	"io"
	"strings"
	"testing"

	"github.com/tdewolff/parse/v2"
	"github.com/tdewolff/parse/v2/xml"
	"pgregory.net/rapid"

	"verif/internal/ev"
	"verif/internal/gen"
)

func TestMain(m *testing.M) { ev.Main(m, "C11") }

type fataler interface {
	Fatalf(format string, args ...any)
}

type tok struct {
	tt      xml.TokenType
	data    string
	text    string
	attrVal string // "\x00nil" when no value
}

const noVal = "\x00nil"

func (k tok) String() string {
	return fmt.Sprintf("%v(%q text=%q val=%q)", k.tt, k.data, k.text, k.attrVal)
}

type ref struct { // what a conforming reader reports
	kind  string // start end pi
	name  string
	attrs [][2]string
}

type docgen struct {
	t       *rapid.T
	toks    []tok
	refs    []ref
	noDiff  bool // holds a construct that encoding/xml itself mis-reads (the by-construction expectation still applies)
	classes map[string]bool
	nattr   int
	raw     map[int]string // source text of token i when it differs from its data (attribute values before normalisation)
	pre     map[int]string // whitespace in front of token i (a tag closer) that no token covers
}

func name(t *rapid.T) string {
	n := rapid.StringMatching(`[a-zA-Z_][a-zA-Z0-9_.-]{0,5}`).Draw(t, "name")
	if rapid.IntRange(0, 5).Draw(t, "nonascii") == 0 {
		// names may start with and contain letters beyond ASCII
		// (also letters whose last byte is 0x85 or 0xA0, the Latin-1 code points of NEL and the no-break space, at the end)
		n = rapid.SampledFrom([]string{"é", "élément", "文書", "Ωmega", "ñ", "a·b", "Ä1", "voilà", "Å", "ską", "хР", "Р", "aà", "xÅ", "ĀŅ"}).Draw(t, "nonasciiname") + rapid.StringMatching(`[a-z0-9_.-]{0,3}`).Draw(t, "nametail")
		if rapid.Bool().Draw(t, "nonasciilast") {
			n += rapid.SampledFrom([]string{"à", "Å", "ą", "Р", "х", "Š", "é"}).Draw(t, "lastletter")
		}
	}
	if rapid.IntRange(0, 4).Draw(t, "ns") == 0 {
		n = rapid.StringMatching(`[a-z]{1,3}`).Draw(t, "prefix") + ":" + n
	}
	return n
}

func wsp(t *rapid.T, min int) string {
	return rapid.StringOfN(rapid.SampledFrom([]rune(" \t\n\r")), min, 2, -1).Draw(t, "ws")
}

func normalize(s string) string {
	return strings.NewReplacer("\t", " ", "\n", " ", "\r", " ").Replace(s)
}

// attribute: name S? = S? quoted value; the value is entity-free and may contain the other quote, '>', "/>" look-alikes and whitespace
func (g *docgen) attribute(lead string, used map[string]bool) (tok, [2]string, bool) {
	t := g.t
	n := name(t)
	if used[n] {
		return tok{}, [2]string{}, false
	}
	used[n] = true
	q := rapid.SampledFrom([]string{`"`, `'`}).Draw(t, "quote")
	other := `'`
	if q == `'` {
		other = `"`
	}
	var sb strings.Builder
	for k := rapid.IntRange(0, 4).Draw(t, "vn"); k > 0; k-- {
		sb.WriteString(rapid.SampledFrom([]string{"a", "v", " ", other, ">", "/>", "?>", "\t", "\n", "\r", "é", "=", "]]", "--", "/", "x y"}).Draw(t, "vpart"))
	}
	v := strings.ReplaceAll(sb.String(), "\r\n", "\r ") // CRLF inside a value: excluded (DESIGN C11)
	v = strings.ReplaceAll(v, "]]>", "]] >")            // encoding/xml rejects ]]> also inside attribute values
	eq := wsp(t, 0) + "=" + wsp(t, 0)
	src := lead + n + eq + q + v + q
	g.nattr++
	return tok{xml.AttributeToken, normalize2(src, len(lead)+len(n)+len(eq)), n, q + normalize(v) + q}, [2]string{n, src}, true
}

// normalize2 applies the documented in-place rewrite (tab/newline -> space) to the quoted value part of the token only
func normalize2(src string, from int) string {
	return src[:from] + normalize(src[from:])
}

func (g *docgen) element(depth int) {
	t := g.t
	n := name(t)
	g.classes["element"] = true
	g.toks = append(g.toks, tok{xml.StartTagToken, "<" + n, n, noVal})
	r := ref{kind: "start", name: n}
	used := map[string]bool{}
	for k := rapid.IntRange(0, 3).Draw(t, "nattr"); k > 0; k-- {
		if a, kv, ok := g.attribute(wsp(t, 1), used); ok {
			g.raw[len(g.toks)] = kv[1]
			g.toks = append(g.toks, a)
			r.attrs = append(r.attrs, [2]string{kv[0], a.attrVal[1 : len(a.attrVal)-1]})
			g.classes["attribute"] = true
		}
	}
	g.refs = append(g.refs, r)
	tail := wsp(t, 0)
	if rapid.IntRange(0, 3).Draw(t, "empty") == 0 {
		g.classes["void"] = true
		g.toks = append(g.toks, tok{xml.StartTagCloseVoidToken, "/>", "", noVal})
		g.skip(tail)
		g.refs = append(g.refs, ref{kind: "end", name: n})
		return
	}
	g.toks = append(g.toks, tok{xml.StartTagCloseToken, ">", "", noVal})
	g.skip(tail)
	if depth < 4 {
		g.content(depth+1, rapid.IntRange(0, 3).Draw(t, "children"))
	}
	et := "</" + n + wsp(t, 0) + ">"
	g.toks = append(g.toks, tok{xml.EndTagToken, et, n, noVal})
	g.refs = append(g.refs, ref{kind: "end", name: n})
}

// skip records whitespace that precedes a tag closer and is covered by no token
// boundaryLength: one content in forty is padded to a length next to a multiple of 4096 (the sizes of blocks in which a
// scanner may search for the closing delimiter): the delimiter then starts on the last bytes of a block
func (g *docgen) boundaryLength(s string) string {
	if rapid.IntRange(0, 39).Draw(g.t, "boundarylen") != 0 {
		return s
	}
	n := rapid.SampledFrom([]int{4093, 4094, 4095, 4096, 4097, 8190, 8191, 8192, 8193, 12286, 12287}).Draw(g.t, "contentlen")
	if len(s) >= n {
		return s
	}
	g.classes["boundary-length"] = true
	return strings.Repeat("d", n-len(s)) + s
}

func (g *docgen) skip(ws string) {
	g.pre[len(g.toks)-1] = ws
}

func (g *docgen) content(depth, n int) {
	t := g.t
	lastText := false
	for i := 0; i < n; i++ {
		switch k := rapid.SampledFrom([]string{"element", "element", "text", "comment", "cdata", "pi"}).Draw(t, "construct"); k {
		case "element":
			g.element(depth)
			lastText = false
		case "text":
			if lastText {
				continue
			}
			var sb strings.Builder
			for k := rapid.IntRange(1, 4).Draw(t, "tn"); k > 0; k-- {
				// (U+FEFF inside a document is a character like any other, also at the start of a text run)
				sb.WriteString(rapid.SampledFrom([]string{"text", " ", "\n", "é", ">", "]]", "a=b", "\"", "'", "-->", "?>", "/", "\uFEFF", "\uFEFFfirst", "\u00a0", "\u2028", "中"}).Draw(t, "tpart"))
			}
			s := strings.ReplaceAll(sb.String(), "]]>", "]] >")
			g.toks = append(g.toks, tok{xml.TextToken, s, s, noVal})
			g.classes["text"] = true
			lastText = true
		case "comment":
			var sb strings.Builder
			for k := rapid.IntRange(0, 4).Draw(t, "cn"); k > 0; k-- {
				sb.WriteString(rapid.SampledFrom([]string{"c", " ", "-", ">", "<a>", "->", "\n", "é", "]]>", "<!", "?>", "'", "\""}).Draw(t, "cpart"))
			}
			s := sb.String()
			for strings.Contains(s, "--") {
				s = strings.ReplaceAll(s, "--", "- -")
			}
			if strings.HasSuffix(s, "-") {
				s += " "
			}
			s = g.boundaryLength(s)
			g.toks = append(g.toks, tok{xml.CommentToken, "<!--" + s + "-->", s, noVal})
			g.classes["comment"] = true
			lastText = false
		case "cdata":
			var sb strings.Builder
			for k := rapid.IntRange(0, 4).Draw(t, "dn"); k > 0; k-- {
				sb.WriteString(rapid.SampledFrom([]string{"d", "]", "]]", "]>", ">", "<a>", "</a>", "&", "\n", "é", "<!--", "-->"}).Draw(t, "dpart"))
			}
			s := sb.String()
			for strings.Contains(s, "]]>") {
				s = strings.ReplaceAll(s, "]]>", "]] >")
			}
			s = g.boundaryLength(s)
			g.toks = append(g.toks, tok{xml.CDATAToken, "<![CDATA[" + s + "]]>", s, noVal})
			g.classes["cdata"] = true
			lastText = false
		case "pi":
			g.pi(false)
			lastText = false
		}
	}
}

// processing instruction: target then pseudo-attributes / words (that is how the lexer models a PI by documented design)
func (g *docgen) pi(decl bool) {
	t := g.t
	target := "xml"
	if !decl {
		for {
			target = name(t)
			if rapid.IntRange(0, 4).Draw(t, "xmlprefixed") == 0 {
				// a target that begins with xml is an ordinary target (only "xml" itself is the declaration)
				target = rapid.SampledFrom([]string{"xml-stylesheet", "xml-model", "xmlfoo", "xmlx", "XML-x", "xml_"}).Draw(t, "xmltarget")
			}
			if !strings.EqualFold(target, "xml") && !strings.Contains(target, ":") {
				break
			}
		}
	}
	g.classes["pi"] = true
	g.toks = append(g.toks, tok{xml.StartTagPIToken, "<?" + target, target, noVal})
	used := map[string]bool{}
	if decl {
		q := rapid.SampledFrom([]string{`"`, `'`}).Draw(t, "dq")
		g.toks = append(g.toks, tok{xml.AttributeToken, " version=" + q + "1.0" + q, "version", q + "1.0" + q})
		if rapid.Bool().Draw(t, "enc") {
			g.toks = append(g.toks, tok{xml.AttributeToken, " encoding=" + q + "UTF-8" + q, "encoding", q + "UTF-8" + q})
		}
	} else {
		for k := rapid.IntRange(0, 2).Draw(t, "npi"); k > 0; k-- {
			if rapid.Bool().Draw(t, "word") {
				// the data of a processing instruction ends at "?>" only: > and /> are ordinary characters of it
				w := rapid.OneOf(rapid.StringMatching(`[a-z0-9.:#-]{1,5}`), rapid.SampledFrom([]string{">", "/>", "a>b", "->", "x/>", ">>", "<b>", "</b>", "?", "a?b"})).Draw(t, "piword")
				g.toks = append(g.toks, tok{xml.AttributeToken, wsp(t, 1) + w, w, noVal})
			} else if a, kv, ok := g.attribute(wsp(t, 1), used); ok {
				// "?>" inside a quoted pseudo-attribute would end the instruction for a conforming reader
				if strings.Contains(a.attrVal, "?>") {
					continue
				}
				g.raw[len(g.toks)] = kv[1]
				g.toks = append(g.toks, a)
			}
		}
	}
	openQuote := false
	if !decl && rapid.IntRange(0, 5).Draw(t, "piopenquote") == 0 {
		openQuote = true
		// a quoted pseudo-attribute value that is still open at ?>: the instruction ends there all the same
		q := rapid.SampledFrom([]string{`"`, `'`}).Draw(t, "piq")
		n, v := name(t), rapid.SampledFrom([]string{"", "x", "a>b", "<c d=", "/>"}).Draw(t, "piopenval")
		if rapid.IntRange(0, 3).Draw(t, "pilongval") == 0 {
			// a long value (a scanner may treat values beyond some hundred bytes on a path of its own)
			v = strings.Repeat("v ", rapid.SampledFrom([]int{100, 127, 128, 129, 200, 2048}).Draw(t, "pilonglen")) + v
		}
		g.toks = append(g.toks, tok{xml.AttributeToken, " " + n + "=" + q + v, n, q + v})
		g.classes["pi-open-quote"] = true
	}
	g.refs = append(g.refs, ref{kind: "pi", name: target})
	tail := ""
	if !decl && !openQuote { // (whitespace behind an open quote belongs to the value)
		tail = wsp(t, 0)
	}
	g.toks = append(g.toks, tok{xml.StartTagClosePIToken, "?>", "", noVal})
	g.skip(tail)
}

func (g *docgen) doctype() {
	t := g.t
	root := name(t)
	s := " " + root
	lit := func(label string) string {
		q := rapid.SampledFrom([]string{`"`, `'`}).Draw(t, label+"q")
		other := `'`
		if q == `'` {
			other = `"`
		}
		var sb strings.Builder
		for k := rapid.IntRange(0, 3).Draw(t, label+"n"); k > 0; k-- {
			sb.WriteString(rapid.SampledFrom([]string{"x", "http://a/b.dtd", ">", "]", "[", "]>", other, " ", "-//W3C//DTD", "<!--", "-->", "<!-- c -->", "<", "--", "<!", "<?", "?>"}).Draw(t, label))
		}
		return q + sb.String() + q
	}
	switch rapid.IntRange(0, 2).Draw(t, "extid") {
	case 1:
		s += " SYSTEM " + lit("sys")
		g.classes["doctype-system"] = true
	case 2:
		s += " PUBLIC " + lit("pub") + " " + lit("sys")
		g.classes["doctype-public"] = true
	}
	if rapid.Bool().Draw(t, "subset") {
		g.classes["doctype-subset"] = true
		s += " ["
		for k := rapid.IntRange(0, 3).Draw(t, "ndecl"); k > 0; k-- {
			switch rapid.IntRange(0, 4).Draw(t, "decl") {
			case 4:
				// a processing instruction in the internal subset: opaque up to ?>, whatever quotes and brackets it holds
				d := rapid.SampledFrom([]string{"x", "a b", "don't", "a]>b", "say \"hi", "]", ">", "[", "<!--", "<!ENTITY e 'v'>", "?", "]]>"}).Draw(t, "subsetpi")
				s += " <?" + name(t) + " " + d + "?>"
				g.classes["doctype-pi"] = true
				if strings.ContainsAny(d, "'\"<>[]") {
					g.noDiff = true
				}
			case 0:
				s += " <!ENTITY " + name(t) + " " + lit("ent") + ">"
			case 1:
				s += " <!ELEMENT " + name(t) + " (#PCDATA)>"
			case 2:
				s += " <!ATTLIST " + name(t) + " " + name(t) + " CDATA " + lit("def") + ">"
			case 3:
				c := rapid.SampledFrom([]string{" c ", " ] ", " > ", " ]> ", " ' ", " \" ", " [ "}).Draw(t, "subsetcomment")
				s += " <!--" + c + "-->"
				g.classes["doctype-comment"] = true
			}
		}
		s += " ]"
	}
	s += wsp(t, 0)
	g.toks = append(g.toks, tok{xml.DOCTYPEToken, "<!DOCTYPE" + s + ">", s, noVal})
	g.classes["doctype"] = true
}

func genDoc(t *rapid.T) *docgen {
	g := &docgen{t: t, classes: map[string]bool{}, raw: map[int]string{}, pre: map[int]string{}}
	if rapid.Bool().Draw(t, "decl") {
		g.pi(true)
	}
	misc := func() {
		for k := rapid.IntRange(0, 2).Draw(t, "misc"); k > 0; k-- {
			switch rapid.IntRange(0, 2).Draw(t, "mkind") {
			case 0:
				g.toks = append(g.toks, tok{xml.TextToken, "\n", "\n", noVal})
				if len(g.toks) >= 2 && g.toks[len(g.toks)-2].tt == xml.TextToken {
					g.toks = g.toks[:len(g.toks)-1]
				}
			case 1:
				g.toks = append(g.toks, tok{xml.CommentToken, "<!-- m -->", " m ", noVal})
			case 2:
				g.pi(false)
			}
		}
	}
	misc()
	if rapid.Bool().Draw(t, "doctype") {
		g.doctype()
		misc()
	}
	g.element(0)
	misc()
	return g
}

func (g *docgen) rawSource() string {
	var sb strings.Builder
	for i, k := range g.toks {
		sb.WriteString(g.pre[i])
		if r, ok := g.raw[i]; ok {
			sb.WriteString(r)
		} else {
			sb.WriteString(k.data)
		}
	}
	return sb.String()
}

// the source must be written with the un-normalised attribute values: keep the raw text separately
var twin = gen.Twin{New: func() func() bool {
	l := xml.NewLexer(parse.NewInputString("<?xml version='1.0'?><!DOCTYPE a [<!ENTITY e \"v\">]><a b='c\td' e=\"f\"><![CDATA[x]]]]><b/>t</a><!-- c -->"))
	return func() bool { tt, _ := l.Next(); _, _ = l.Text(), l.AttrVal(); return tt != xml.ErrorToken }
}}

func lex(t fataler, src []byte) []tok {
	// the document reaches the lexer in one of the ways a caller can supply it (in place, string, readers)
	input, _, _ := gen.Supply(src, "' x=\"1\"?>]]>--></a>")
	l := xml.NewLexer(input)
	var out []tok
	for i := 0; i <= len(src)+2; i++ {
		tt, data := l.Next()
		twin.Step()
		gen.Extend(data)
		_ = l.Err() // polled after every call: reading the error state must not disturb the lexer
		if tt == xml.ErrorToken {
			return out
		}
		k := tok{tt, string(data), string(l.Text()), noVal}
		if tt == xml.AttributeToken && l.AttrVal() != nil {
			k.attrVal = string(l.AttrVal())
		}
		if tt != xml.AttributeToken && l.AttrVal() != nil && tt != xml.StartTagCloseToken && tt != xml.StartTagCloseVoidToken && tt != xml.StartTagClosePIToken {
			// AttrVal is only defined for attribute tokens
		}
		out = append(out, k)
	}
	t.Fatalf("lexer does not terminate on %q", src)
	return nil
}

func TestProp_Document(t *testing.T) {
	ev.Describe("document", "well-formed XML documents from a grammar: optional XML declaration (both quote kinds), processing instructions with pseudo-attributes/words, DOCTYPE with SYSTEM/PUBLIC/entity literals in either quote kind containing > ] [ <!-- --> < <? and an internal subset with ENTITY/ELEMENT/ATTLIST declarations and comments containing ] >, comments without --, CDATA with ]] ]> look-alikes, elements nested to depth 5 with namespaced names, attributes in ' or \" containing the other quote, >, />, ?> and whitespace to normalise, empty-element tags, character data, whitespace variations inside tags; oracle: by-construction token list (type, token bytes, Text(), AttrVal()) and differential with encoding/xml.Decoder.RawToken (element names, attribute names, attribute values modulo tab/newline normalisation, PI targets, in document order); non-trivial = >= 3 constructs incl. an element with >= 1 attribute")
	ev.Check(t, 15000, func(t *rapid.T) {
		g := genDoc(t)
		src := g.rawSource()
		got := lex(t, []byte(src))
		want := make([]tok, len(g.toks))
		copy(want, g.toks)
		for i := 0; i < len(want) || i < len(got); i++ {
			if i >= len(got) || i >= len(want) || got[i] != want[i] {
				var a, b string
				if i < len(got) {
					a = got[i].String()
				}
				if i < len(want) {
					b = want[i].String()
				}
				t.Fatalf("%q: token %d is %s, want %s\n got  %v\n want %v", src, i, a, b, got, want)
			}
		}
		// differential: a conforming reader
		var refs []ref
		d := stdxml.NewDecoder(strings.NewReader(src))
		for !g.noDiff {
			tk, err := d.RawToken()
			if err == io.EOF {
				break
			}
			if err != nil {
				t.Fatalf("generator bug: encoding/xml rejects %q: %v", src, err)
			}
			switch e := tk.(type) {
			case stdxml.StartElement:
				r := ref{kind: "start", name: qname(e.Name)}
				for _, a := range e.Attr {
					r.attrs = append(r.attrs, [2]string{qname(a.Name), normalize(a.Value)})
				}
				refs = append(refs, r)
			case stdxml.EndElement:
				refs = append(refs, ref{kind: "end", name: qname(e.Name)})
			case stdxml.ProcInst:
				refs = append(refs, ref{kind: "pi", name: e.Target})
			}
		}
		var mine []ref
		var cur *ref
		for _, k := range got {
			switch k.tt {
			case xml.StartTagToken:
				mine = append(mine, ref{kind: "start", name: k.text})
				cur = &mine[len(mine)-1]
			case xml.StartTagPIToken:
				mine = append(mine, ref{kind: "pi", name: k.text})
				cur = nil
			case xml.AttributeToken:
				if cur != nil && len(k.attrVal) >= 2 {
					cur.attrs = append(cur.attrs, [2]string{k.text, k.attrVal[1 : len(k.attrVal)-1]})
				}
			case xml.StartTagCloseVoidToken:
				mine = append(mine, ref{kind: "end", name: cur.name})
			case xml.EndTagToken:
				mine = append(mine, ref{kind: "end", name: k.text})
			}
		}
		if !g.noDiff && fmt.Sprint(mine) != fmt.Sprint(refs) {
			t.Fatalf("%q: the lexer reports\n  %v\nencoding/xml reports\n  %v", src, mine, refs)
		}
		var cls []string
		for c := range g.classes {
			cls = append(cls, c)
		}
		ev.Case("document", src, len(g.toks) >= 6 && g.nattr > 0, cls...)
	})
}

func qname(n stdxml.Name) string {
	if n.Space != "" {
		return n.Space + ":" + n.Local
	}
	return n.Local
}

var xmlFrags = []string{"<a", "<b:c", ">", "/>", "?>", "</a>", "</a", " x='1'", " y=\"2\"", " z", "=", "'", "\"", "<!--", "-->", "--", "<![CDATA[", "]]>", "]]", "<?xml", "<?pi", "<!DOCTYPE", "[", "]", "<!ENTITY", "text", " ", "\n", "\t", "\x00", "é", "<", "&amp;", "<!", "<?", "/"}

func TestProp_Structure(t *testing.T) {
	ev.Describe("structure", "arbitrary strings of 0-14 XML fragments (tag openers/closers, quotes, comment/CDATA/DOCTYPE/PI delimiters, NUL), 1/10 raw bytes; oracle: an AttributeToken only occurs between a StartTag/StartTagPI token and its closing token, closing tokens only end an open tag, and an input with an embedded NUL ends in ErrorToken with a *parse.Error (never a silent io.EOF) no later than the token containing the NUL; inputs without NUL end in io.EOF; non-trivial = >= 1 attribute token or an embedded NUL")
	ev.Check(t, 30000, func(t *rapid.T) {
		src := gen.Fragments(t, "frag", xmlFrags, 14)
		l := xml.NewLexer(parse.NewInputBytes(append([]byte(nil), src...)))
		inTag := false
		nattr := 0
		nul := bytes.IndexByte(src, 0)
		for i := 0; ; i++ {
			if i > len(src)+2 {
				t.Fatalf("lexer does not terminate on %q", src)
			}
			tt, data := l.Next()
			if tt == xml.ErrorToken {
				_, isParseErr := l.Err().(*parse.Error)
				if nul >= 0 && !isParseErr {
					t.Fatalf("%q has a NUL byte at %d but the lexer ends with %v", src, nul, l.Err())
				}
				if nul < 0 && l.Err() != io.EOF {
					t.Fatalf("%q: lexer ends with %v", src, l.Err())
				}
				break
			}
			switch tt {
			case xml.StartTagToken, xml.StartTagPIToken:
				if inTag {
					t.Fatalf("%q: %v %q inside an open tag", src, tt, data)
				}
				inTag = true
			case xml.AttributeToken:
				nattr++
				if !inTag {
					t.Fatalf("%q: AttributeToken %q outside a tag", src, data)
				}
			case xml.StartTagCloseToken, xml.StartTagCloseVoidToken, xml.StartTagClosePIToken:
				if !inTag {
					t.Fatalf("%q: %v without an open tag", src, tt)
				}
				inTag = false
			default:
				if inTag {
					t.Fatalf("%q: %v %q inside an open tag", src, tt, data)
				}
			}
		}
		ev.Case("structure", string(src), nattr > 0 || nul >= 0, fmt.Sprintf("nul=%v", nul >= 0))
	})
}
