package c11

import (
	"testing"

	"github.com/tdewolff/parse/v2"
	"github.com/tdewolff/parse/v2/xml"
)

// D24/D25 (fixed)
func TestRegress_Doctype(t *testing.T) {
	for _, src := range []string{
		`<!DOCTYPE a SYSTEM 'x>y'><a/>`,
		`<!DOCTYPE a [ <!ENTITY e 'v]>'> ]><a/>`,
		`<!DOCTYPE a [ <!-- ] > --> ]><a/>`,
		`<!DOCTYPE a:A PUBLIC "" 'xx>'><A/>`,
		`<!DOCTYPE a [ <!-- ' --> ]><a/>`,
	} {
		l := xml.NewLexer(parse.NewInputString(src))
		tt, data := l.Next()
		tt2, _ := l.Next()
		if tt != xml.DOCTYPEToken || string(data) != src[:len(src)-4] || tt2 != xml.StartTagToken {
			t.Errorf("%s: first token %v %q, then %v", src, tt, data, tt2)
		}
	}
	// unterminated literal: must stop at the end without running past it
	for _, src := range []string{`<!DOCTYPE a 'x`, `<!DOCTYPE a [ <!-- x`, "<!DOCTYPE a 'x\x00y'>"} {
		l := xml.NewLexer(parse.NewInputString(src))
		for i := 0; i < 5; i++ {
			if tt, _ := l.Next(); tt == xml.ErrorToken {
				break
			}
		}
	}
}
