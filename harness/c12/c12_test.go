package c12

import (
	"bytes"
	"errors"
	"fmt"
	"io"
	"os"
	"strings"
	"testing"
	"unicode/utf8"

	"github.com/tdewolff/parse/v2"
	"github.com/tdewolff/parse/v2/buffer"
	"pgregory.net/rapid"

	"verif/internal/ev"
)

func TestMain(m *testing.M) { ev.Main(m, "C12") }

// cursor is the API shared by parse.Input and buffer.Lexer
type cursor interface {
	Err() error
	PeekErr(int) error
	Peek(int) byte
	PeekRune(int) (rune, int)
	Move(int)
	Pos() int
	Rewind(int)
	Lexeme() []byte
	Skip()
	Shift() []byte
	Offset() int
	Bytes() []byte
	Reset()
	Restore()
}

var errBoom = errors.New("boom")
var errWrapsEOF = fmt.Errorf("connection reset: %w", io.EOF)

// plainReader delivers data in chunks and optionally fails after failAt bytes; it has no Bytes method.
type plainReader struct {
	data     []byte
	chunk    int
	failAt   int   // -1: never
	failErr  error // the error it fails with (errBoom when nil)
	eofWith  bool
	off      int
	scribble bool // uses the rest of p as scratch space (the io.Reader contract allows that)
}

func (r *plainReader) Read(p []byte) (n int, err error) {
	if r.scribble {
		defer func() {
			for i := n; i < len(p); i++ {
				p[i] = 0xAA
			}
		}()
	}
	return r.read(p)
}

func (r *plainReader) read(p []byte) (int, error) {
	if r.failAt >= 0 && r.off >= r.failAt {
		if r.failErr != nil {
			return 0, r.failErr
		}
		return 0, errBoom
	}
	if r.off >= len(r.data) {
		return 0, io.EOF
	}
	n := r.chunk
	if n > len(p) {
		n = len(p)
	}
	if n > len(r.data)-r.off {
		n = len(r.data) - r.off
	}
	if r.failAt >= 0 && r.off+n > r.failAt {
		n = r.failAt - r.off
	}
	copy(p, r.data[r.off:r.off+n])
	r.off += n
	if r.eofWith && r.off == len(r.data) && (r.failAt < 0 || r.failAt > len(r.data)) {
		return n, io.EOF
	}
	return n, nil
}

// bytesReader has a Bytes method that hands out its slice (with whatever capacity it has)
type bytesReader struct{ b []byte }

func (r *bytesReader) Read(p []byte) (int, error) { return 0, io.EOF }
func (r *bytesReader) Bytes() []byte              { return r.b }

var frags = []string{
	"a", "b", "<", " ", "\n", "\x00", "\x00\x00", "é", "ß", "€", "中", " ", "😀", "\U00010000",
	"\xC3", "\xE2", "\xE2\x82", "\xF0", "\xF0\x9F", "\xF0\x9F\x98", "\x80", "\xBF", "\xC0", "\xFF", "\xF8", "\xED\xA0\x80",
	"ab", "x=1", "\xE2\x00", "\xF0\x00\x00",
}

func genData(t *rapid.T) []byte {
	n := rapid.IntRange(0, 12).Draw(t, "nfrag")
	var b []byte
	if rapid.IntRange(0, 9).Draw(t, "bomfirst") == 0 {
		// the first bytes are a byte order mark (or the beginning of one): bytes of the input like any others
		b = append(b, rapid.SampledFrom([]string{"\xef\xbb\xbf", "\xef\xbb", "\xfe\xff", "\xff\xfe", "#!"}).Draw(t, "bom")...)
	}
	for i := 0; i < n; i++ {
		if rapid.IntRange(0, 9).Draw(t, "raw") == 0 {
			b = append(b, rapid.Byte().Draw(t, "byte"))
		} else {
			b = append(b, rapid.SampledFrom(frags).Draw(t, "frag")...)
		}
	}
	return b
}

type subject struct {
	c        cursor
	in       *parse.Input // nil for buffer.Lexer
	data     []byte       // what the cursor must present
	err      error        // reader's own error (then data is empty)
	backing  []byte       // caller's array incl. spare capacity (nil when the library owns the bytes)
	snapshot []byte
	n        int // len of the caller's slice within backing
	borrowed bool
	kind     string
}

func build(t *rapid.T, data []byte) *subject {
	useInput := rapid.Bool().Draw(t, "useInput")
	ctor := rapid.SampledFrom([]string{"bytes-exact", "bytes-spare", "string", "reader-plain", "reader-bytes", "reader-fail", "reader-nil", "reader-plain", "reader-bytes", "bytes-spare", "reader-file"}).Draw(t, "ctor")
	s := &subject{kind: ctor}
	mk := func(b []byte) cursor {
		if useInput {
			s.in = parse.NewInputBytes(b)
			return s.in
		}
		return buffer.NewLexerBytes(b)
	}
	mkr := func(r io.Reader) cursor {
		if useInput {
			s.in = parse.NewInput(r)
			return s.in
		}
		return buffer.NewLexer(r)
	}
	if useInput {
		s.kind = "Input/" + ctor
	} else {
		s.kind = "Lexer/" + ctor
	}
	switch ctor {
	case "bytes-exact", "bytes-spare", "reader-bytes":
		spare := 0
		if ctor != "bytes-exact" {
			spare = rapid.IntRange(1, 4).Draw(t, "spare")
		} else if rapid.Bool().Draw(t, "rbexact") {
			spare = 0
		}
		s.backing = make([]byte, len(data)+spare)
		copy(s.backing, data)
		for i := len(data); i < len(s.backing); i++ {
			s.backing[i] = 0xAA + byte(i-len(data))
		}
		s.snapshot = append([]byte(nil), s.backing...)
		s.n = len(data)
		s.borrowed = spare > 0 && len(data) > 0
		b := s.backing[: len(data) : len(data)+spare]
		if ctor == "reader-bytes" {
			s.c = mkr(&bytesReader{b})
		} else {
			s.c = mk(b)
		}
		s.data = data
	case "string":
		if useInput {
			s.in = parse.NewInputString(string(data))
			s.c = s.in
		} else {
			s.c = buffer.NewLexerBytes([]byte(string(data)))
		}
		s.data = data
	case "reader-plain":
		r := &plainReader{data: data, chunk: rapid.IntRange(1, 8).Draw(t, "chunk"), failAt: -1, eofWith: rapid.Bool().Draw(t, "eofWith"), scribble: rapid.Bool().Draw(t, "scribble")}
		s.c = mkr(r)
		s.data = data
	case "reader-fail":
		r := &plainReader{data: data, chunk: rapid.IntRange(1, 8).Draw(t, "chunk"), failAt: rapid.IntRange(0, len(data)).Draw(t, "failAt"), scribble: rapid.Bool().Draw(t, "scribble")}
		// the reader's own error, whatever it is: also one that wraps io.EOF or looks like an early end
		r.failErr = rapid.SampledFrom([]error{errBoom, errWrapsEOF, io.ErrUnexpectedEOF, io.ErrClosedPipe}).Draw(t, "failErr")
		s.c = mkr(r)
		s.data = nil
		s.err = r.failErr
	case "reader-file":
		// a file the caller has read a header from: the input is what the reader still delivers
		f, err := os.CreateTemp("", "c12-*")
		if err != nil {
			t.Fatalf("harness: %v", err)
		}
		header := rapid.SampledFrom([]string{"", "HEADER\n", strings.Repeat("h", 600)}).Draw(t, "header")
		f.Write([]byte(header))
		f.Write(data)
		f.Seek(int64(len(header)), io.SeekStart)
		os.Remove(f.Name()) // (the open file stays readable; nothing is left behind whatever happens next)
		s.c = mkr(f)
		f.Close()
		s.data = data
	case "reader-nil":
		s.c = mkr(nil)
		s.data = nil
	}
	return s
}

// checkBacking: the caller's array equals its snapshot except the single borrowed byte after the slice
func (s *subject) checkBacking(t *rapid.T, restored bool) {
	if s.backing == nil {
		return
	}
	for i := range s.backing {
		if s.backing[i] != s.snapshot[i] {
			if i == s.n && s.borrowed && !restored && s.backing[i] == 0 {
				continue
			}
			t.Fatalf("%s: caller's backing array modified at index %d (len %d): %#x, was %#x (restored=%v)", s.kind, i, s.n, s.backing[i], s.snapshot[i], restored)
		}
	}
}

func TestProp_Cursor(t *testing.T) {
	ev.Describe("cursor", "stateful (rapid t.Repeat): subject in {parse.Input, buffer.Lexer} x constructor {bytes cap==len, bytes with spare capacity (guard bytes 0xAA..), string, plain reader (chunked, (n,EOF) or (0,EOF)), reader with Bytes(), reader failing after k bytes with its own error (also one that wraps io.EOF), *os.File behind a header that was read, nil reader} over fragment data rich in multi-byte/truncated runes and NUL; actions Peek/PeekRune/PeekErr/Err/Move/MoveRune/Pos/Rewind/Lexeme/Skip/Shift/Offset/Bytes/Len/Reset within the documented contract, Restore last, then two more inputs are read and every slice handed out is compared again; oracle: flat model (data,start,pos), utf8.DecodeRune on valid positions, backing-array snapshot; non-trivial = data of >= 2 bytes, >= 8 actions incl. a Rewind or Shift and a PeekRune/MoveRune within 3 bytes of the end")
	ev.Check(t, 20000, func(t *rapid.T) {
		data := genData(t)
		s := build(t, data)
		c := s.c
		d := s.data
		L := len(d)
		start, pos := 0, 0
		nact, sawRewShift, sawRuneEnd := 0, false, false
		var hist []string
		peekAt := func(i int) byte {
			if i < L {
				return d[i]
			}
			return 0
		}
		wantErr := func(i int) error {
			if s.err != nil {
				return s.err
			}
			if pos+i >= L {
				return io.EOF
			}
			return nil
		}
		type heldSlice struct {
			name  string
			b, cp []byte
		}
		var helds []heldSlice
		checkSlice := func(name string, got []byte, a, b int) {
			helds = append(helds, heldSlice{name, got, append([]byte(nil), got...)})
			if !bytes.Equal(got, d[a:b]) {
				t.Fatalf("%s: %s = %q, want %q (start %d pos %d) after %v", s.kind, name, got, d[a:b], a, b, hist)
			}
			if cap(got) != len(got) {
				t.Fatalf("%s: %s has cap %d > len %d: appending to it would overwrite the input", s.kind, name, cap(got), len(got))
			}
		}
		t.Repeat(map[string]func(*rapid.T){
			"Peek": func(t *rapid.T) {
				i := rapid.IntRange(0, L-pos).Draw(t, "i")
				hist = append(hist, fmt.Sprintf("Peek(%d)", i))
				if got := c.Peek(i); got != peekAt(pos+i) {
					t.Fatalf("%s: Peek(%d) at pos %d = %#x, want %#x", s.kind, i, pos, got, peekAt(pos+i))
				}
			},
			"PeekRune": func(t *rapid.T) {
				i := rapid.IntRange(0, L-pos).Draw(t, "i")
				hist = append(hist, fmt.Sprintf("PeekRune(%d)", i))
				remaining := L - pos - i
				if remaining <= 3 {
					sawRuneEnd = true
				}
				r, n := c.PeekRune(i)
				max := remaining
				if max < 1 {
					max = 1
				}
				if n < 1 || n > max {
					t.Fatalf("%s: PeekRune(%d) at pos %d of %q reports length %d with %d bytes remaining", s.kind, i, pos, d, n, remaining)
				}
				if remaining > 0 {
					wr, wn := utf8.DecodeRune(d[pos+i:])
					if !(wr == utf8.RuneError && wn == 1) && !(wr == 0) {
						if r != wr || n != wn {
							t.Fatalf("%s: PeekRune(%d) at pos %d of %q = (%U,%d), utf8.DecodeRune gives (%U,%d)", s.kind, i, pos, d, r, n, wr, wn)
						}
					}
				} else if r != 0 {
					t.Fatalf("%s: PeekRune at the end = %U", s.kind, r)
				}
			},
			"PeekErr": func(t *rapid.T) {
				i := rapid.IntRange(0, L-pos+2).Draw(t, "i")
				hist = append(hist, fmt.Sprintf("PeekErr(%d)", i))
				if got := c.PeekErr(i); got != wantErr(i) {
					t.Fatalf("%s: PeekErr(%d) at pos %d/%d = %v, want %v", s.kind, i, pos, L, got, wantErr(i))
				}
			},
			"Err": func(t *rapid.T) {
				hist = append(hist, "Err")
				if got := c.Err(); got != wantErr(0) {
					t.Fatalf("%s: Err() at pos %d/%d = %v, want %v", s.kind, pos, L, got, wantErr(0))
				}
			},
			"Move": func(t *rapid.T) {
				n := rapid.IntRange(start-pos, L-pos).Draw(t, "n")
				hist = append(hist, fmt.Sprintf("Move(%d)", n))
				c.Move(n)
				pos += n
			},
			"MoveRune": func(t *rapid.T) {
				if s.in == nil || pos >= L {
					t.Skip("no MoveRune")
				}
				hist = append(hist, "MoveRune")
				if L-pos <= 3 {
					sawRuneEnd = true
				}
				s.in.MoveRune()
				n := s.in.Offset() - pos
				if n < 1 || n > L-pos {
					t.Fatalf("%s: MoveRune at pos %d of %q moved %d with %d remaining", s.kind, pos, d, n, L-pos)
				}
				wr, wn := utf8.DecodeRune(d[pos:])
				if !(wr == utf8.RuneError && wn == 1) && n != wn {
					t.Fatalf("%s: MoveRune at pos %d of %q moved %d, rune length is %d", s.kind, pos, d, n, wn)
				}
				pos += n
			},
			"Pos": func(t *rapid.T) {
				hist = append(hist, "Pos")
				if got := c.Pos(); got != pos-start {
					t.Fatalf("%s: Pos() = %d, want %d", s.kind, got, pos-start)
				}
			},
			"Rewind": func(t *rapid.T) {
				m := rapid.IntRange(0, L-start).Draw(t, "mark")
				hist = append(hist, fmt.Sprintf("Rewind(%d)", m))
				c.Rewind(m)
				pos = start + m
				sawRewShift = true
			},
			"Lexeme": func(t *rapid.T) {
				hist = append(hist, "Lexeme")
				checkSlice("Lexeme()", c.Lexeme(), start, pos)
			},
			"Skip": func(t *rapid.T) {
				hist = append(hist, "Skip")
				c.Skip()
				start = pos
			},
			"Shift": func(t *rapid.T) {
				hist = append(hist, "Shift")
				checkSlice("Shift()", c.Shift(), start, pos)
				start = pos
				sawRewShift = true
			},
			"Offset": func(t *rapid.T) {
				hist = append(hist, "Offset")
				if got := c.Offset(); got != pos {
					t.Fatalf("%s: Offset() = %d, want %d", s.kind, got, pos)
				}
			},
			"ErrorHere": func(t *rapid.T) {
				// a second entry point on the same input: an error is built (and positioned) for the current offset while
				// the input stays in use; it must leave the cursor, the terminator and the caller's bytes as they are
				if s.in == nil {
					t.Skip("buffer.Lexer has no NewErrorLexer")
				}
				hist = append(hist, "NewErrorLexer")
				e := parse.NewErrorLexer(s.in, "probe %d", pos)
				if e == nil || e.Line < 1 || e.Column < 1 {
					t.Fatalf("%s: NewErrorLexer at offset %d gives %+v", s.kind, pos, e)
				}
				if got := c.Peek(L - pos); got != 0 {
					t.Fatalf("%s: Peek at the end = %#x after NewErrorLexer, want 0 (history %v)", s.kind, got, hist)
				}
			},
			"Bytes": func(t *rapid.T) {
				hist = append(hist, "Bytes")
				b := c.Bytes()
				if !bytes.Equal(b, d) {
					t.Fatalf("%s: Bytes() = %q, want %q", s.kind, b, d)
				}
				if cap(b) != len(b) {
					t.Fatalf("%s: Bytes() has spare capacity %d", s.kind, cap(b)-len(b))
				}
				if s.in != nil && s.in.Len() != L {
					t.Fatalf("%s: Len() = %d, want %d", s.kind, s.in.Len(), L)
				}
			},
			"Reset": func(t *rapid.T) {
				hist = append(hist, "Reset")
				c.Reset()
				start, pos = 0, 0
			},
			"": func(t *rapid.T) {
				nact++
				s.checkBacking(t, false)
			},
		})
		c.Restore()
		s.checkBacking(t, true)
		c.Restore() // idempotent
		s.checkBacking(t, true)
		// after Restore the caller's bytes are the caller's again: calls that only move or report the cursor (they read
		// nothing) must leave them alone
		// ... and the error state is a matter of positions, not of the terminator: it is what it was. The byte that was
		// borrowed is the caller's again and may hold something new, which a further Restore must not touch.
		for k := rapid.IntRange(0, 4).Draw(t, "afterRestore"); k > 0; k-- {
			switch op := rapid.SampledFrom([]string{"Reset", "Pos", "Offset", "Rewind0", "Skip", "Restore", "Err", "PeekErr", "reuse"}).Draw(t, "afterop"); op {
			case "Err":
				if got := c.Err(); got != wantErr(0) {
					t.Fatalf("%s: Err() at pos %d/%d after Restore = %v, want %v (history %v)", s.kind, pos, L, got, wantErr(0), hist)
				}
			case "PeekErr":
				i := rapid.IntRange(0, L-pos+2).Draw(t, "i")
				if got := c.PeekErr(i); got != wantErr(i) {
					t.Fatalf("%s: PeekErr(%d) at pos %d/%d after Restore = %v, want %v", s.kind, i, pos, L, got, wantErr(i))
				}
			case "reuse":
				if s.backing != nil && s.n < len(s.backing) {
					v := rapid.Byte().Draw(t, "reused")
					s.backing[s.n], s.snapshot[s.n] = v, v
				}
			case "Reset":
				c.Reset()
				start, pos = 0, 0
			case "Pos":
				c.Pos()
			case "Offset":
				c.Offset()
			case "Rewind0":
				c.Rewind(0)
				pos = start
			case "Skip":
				c.Skip()
				start = pos
			case "Restore":
				c.Restore()
			}
			s.checkBacking(t, true)
		}
		// what the input handed out stays what it was when the input is given back and other inputs are read afterwards
		other := bytes.Repeat([]byte("#"), len(d)+9)
		o1 := parse.NewInput(&plainReader{data: other, chunk: 4096, failAt: -1})
		o2 := buffer.NewLexer(&plainReader{data: other, chunk: 7, failAt: -1})
		for _, h := range helds {
			if !bytes.Equal(h.b, h.cp) {
				t.Fatalf("%s: the slice %q returned by %s reads %q after Restore and two later inputs (history %v)", s.kind, h.cp, h.name, h.b, hist)
			}
		}
		o1.Restore()
		o2.Restore()
		ev.Case("cursor", s.kind+"|"+string(d)+"|"+strings.Join(hist, ","), nact >= 8 && sawRewShift && sawRuneEnd && len(d) >= 2, s.kind)
	})
}

// ---------- library functions that build an Input of their own over the caller's bytes

func TestProp_InternalInputs(t *testing.T) {
	ev.Describe("internal-inputs", "parse.Position and parse.NewError (which build an Input themselves and drop it) on a reader that exposes the caller's bytes (buffer.Reader over a sub-slice of a larger buffer, bytes.Buffer): fragment data, every offset; oracle: the caller's whole buffer is unchanged afterwards (the borrowed terminator byte is put back: the caller has no handle to call Restore on); non-trivial = the sub-slice has spare capacity with a non-zero byte behind it")
	ev.Check(t, 4000, func(t *rapid.T) {
		data := genData(t)
		tail := rapid.SampledFrom([]string{"", "x", "}\n;", "\xAA\xAA"}).Draw(t, "tail")
		whole := append(append(make([]byte, 0, len(data)+len(tail)), data...), tail...)
		snap := append([]byte(nil), whole...)
		in := whole[:len(data)]
		off := rapid.IntRange(0, len(data)).Draw(t, "offset")
		switch rapid.IntRange(0, 2).Draw(t, "fn") {
		case 0:
			parse.Position(buffer.NewReader(in), off)
		case 1:
			_ = parse.NewError(buffer.NewReader(in), off, "message").Error()
		case 2:
			parse.Position(bytes.NewBuffer(in), off)
		}
		if !bytes.Equal(whole, snap) {
			t.Fatalf("the caller's buffer %q reads %q after Position/NewError on its first %d bytes", snap, whole, len(data))
		}
		ev.Case("internal-inputs", fmt.Sprintf("%q+%q@%d", data, tail, off), len(tail) > 0)
	})
}
