package c12

import (
	"runtime"
	"testing"
	"time"

	"github.com/tdewolff/parse/v2"
	"github.com/tdewolff/parse/v2/buffer"
	"pgregory.net/rapid"

	"verif/internal/ev"
)

// useAndDrop builds a cursor over b, moves it about and drops it without Restore (the caller may do so: Restore is only
// needed by a caller that wants the borrowed byte back)
func useAndDrop(b []byte, useInput bool, moves int) {
	if useInput {
		z := parse.NewInputBytes(b)
		for i := 0; i < moves && z.Peek(0) != 0; i++ {
			z.Move(1)
		}
		z.Shift()
		return
	}
	z := buffer.NewLexerBytes(b)
	for i := 0; i < moves && z.Peek(0) != 0; i++ {
		z.Move(1)
	}
	z.Shift()
}

// TestProp_Dropped: an input that was dropped never writes to the caller's bytes again
func TestProp_Dropped(t *testing.T) {
	ev.Describe("dropped", "parse.Input / buffer.Lexer over bytes with 1-4 bytes of spare capacity, used and then dropped without Restore; the caller takes the byte behind its data into use again (writes to it), the garbage collector runs twice and finalizers get time to run; oracle: the caller's array is what the caller wrote, for good; non-trivial = every case")
	ev.Check(t, 60, func(t *rapid.T) {
		data := genData(t)
		if len(data) == 0 {
			data = []byte("x")
		}
		spare := rapid.IntRange(1, 4).Draw(t, "spare")
		backing := make([]byte, len(data)+spare)
		copy(backing, data)
		useInput := rapid.Bool().Draw(t, "useInput")
		useAndDrop(backing[:len(data):len(backing)], useInput, rapid.IntRange(0, len(data)).Draw(t, "moves"))
		for i := len(data); i < len(backing); i++ {
			backing[i] = 0x5A
		}
		runtime.GC()
		time.Sleep(time.Millisecond)
		runtime.GC()
		time.Sleep(time.Millisecond)
		for i := len(data); i < len(backing); i++ {
			if backing[i] != 0x5A {
				t.Fatalf("the byte at %d behind the data %q, which the caller set to 0x5A after it had dropped the input, reads %#x after a garbage collection", i-len(data), data, backing[i])
			}
		}
		ev.Case("dropped", string(data), true, map[bool]string{true: "Input", false: "Lexer"}[useInput])
	})
}
