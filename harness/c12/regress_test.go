package c12

import (
	"testing"

	"github.com/tdewolff/parse/v2"
)

// D5 (fixed): Input.PeekRune ignored the peek position in its end-of-input guard.
func TestRegress_PeekRune(t *testing.T) {
	for _, c := range []struct {
		s   string
		pos int
	}{{"ab\xF0", 2}, {"a\xE2", 1}, {"\x00\xf0\x00", 1}, {"€😀\x00\xc3", 8}, {"x\xF0\x9F\x98", 1}} {
		func() {
			defer func() {
				if r := recover(); r != nil {
					t.Errorf("PeekRune(%d) on %q panics: %v", c.pos, c.s, r)
				}
			}()
			z := parse.NewInputString(c.s)
			_, n := z.PeekRune(c.pos)
			if rem := len(c.s) - c.pos; n < 1 || n > rem {
				t.Errorf("PeekRune(%d) on %q reports length %d with %d bytes remaining", c.pos, c.s, n, rem)
			}
		}()
	}
}
