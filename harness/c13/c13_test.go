package c13

import (
	"bytes"
	"errors"
	"fmt"
	"io"
	"runtime"
	"strings"
	"testing"
	"unicode/utf8"

	"github.com/tdewolff/parse/v2/buffer"
	"pgregory.net/rapid"

	"verif/internal/ev"
)

func TestMain(m *testing.M) { ev.Main(m, "C13") }

var errBoom = errors.New("boom")

// schedReader is the reader "schedule": chunk sizes (0 = zero-length read), how the end is delivered, optional failure.
type schedReader struct {
	scribble bool
	data     []byte
	chunks   []int
	ci       int
	off      int
	eofWith  bool // deliver io.EOF together with the last bytes
	failAt   int  // -1 never; otherwise errBoom once off reaches failAt (data[failAt:] is never delivered)
	errWith  bool // deliver errBoom together with the last bytes before failAt
	calls    int
	done     error // the error this reader has returned (sticky)
}

func (r *schedReader) limit() int {
	if r.failAt >= 0 && r.failAt < len(r.data) {
		return r.failAt
	}
	return len(r.data)
}

func (r *schedReader) final() error {
	if r.failAt >= 0 && r.failAt <= len(r.data) {
		return errBoom
	}
	return io.EOF
}

func (r *schedReader) Read(p []byte) (n int, err error) {
	if r.scribble {
		// the rest of p is scratch space for the reader (io.Reader contract)
		defer func() {
			for i := n; i < len(p); i++ {
				p[i] = 0xAA
			}
		}()
	}
	return r.read(p)
}

func (r *schedReader) read(p []byte) (int, error) {
	r.calls++
	if r.done != nil {
		return 0, r.done
	}
	lim := r.limit()
	if r.off >= lim {
		r.done = r.final()
		return 0, r.done
	}
	n := 1
	if len(r.chunks) > 0 {
		n = r.chunks[r.ci%len(r.chunks)]
		r.ci++
	}
	if n > len(p) {
		n = len(p)
	}
	if n > lim-r.off {
		n = lim - r.off
	}
	copy(p, r.data[r.off:r.off+n])
	r.off += n
	if r.off == lim && n > 0 {
		fin := r.final()
		if (fin == io.EOF && r.eofWith) || (fin == errBoom && r.errWith) {
			r.done = fin
			return n, fin
		}
	}
	return n, nil
}

type bytesReader struct{ b []byte }

func (r *bytesReader) Read(p []byte) (int, error) { return 0, io.EOF }
func (r *bytesReader) Bytes() []byte              { return r.b }

var frags = []string{"a", "b", "ab", "xyz", " ", "\n", "<", "é", "€", "😀", "\x00", "0123456789", "tokentoken"}

func genData(t *rapid.T, maxFrag int) []byte {
	n := rapid.IntRange(0, maxFrag).Draw(t, "nfrag")
	var b []byte
	for i := 0; i < n; i++ {
		b = append(b, rapid.SampledFrom(frags).Draw(t, "frag")...)
	}
	return b
}

// frameLenReader: a schedReader with a Len method that reports the bytes left in the chunk ("frame") it is delivering
type frameLenReader struct{ *schedReader }

func (r frameLenReader) Len() int {
	if r.ci < len(r.chunks) && r.off < r.limit() {
		if n := r.chunks[r.ci%len(r.chunks)]; n < r.limit()-r.off {
			return n % 3 // (0 now and then: nothing left of this frame)
		}
	}
	return 0
}

func genReader(t *rapid.T, data []byte, allowFail bool) *schedReader {
	r := &schedReader{data: data, failAt: -1}
	r.chunks = rapid.SliceOfN(rapid.OneOf(rapid.IntRange(0, 4), rapid.IntRange(0, 40), rapid.Just(1), rapid.Just(100000)), 1, 8).Draw(t, "chunks")
	nonzero := false
	for _, c := range r.chunks {
		nonzero = nonzero || c > 0
	}
	if !nonzero {
		r.chunks = append(r.chunks, 1) // a reader that never delivers anything is not a legal io.Reader schedule
	}
	r.eofWith = rapid.Bool().Draw(t, "eofWith")
	r.scribble = rapid.Bool().Draw(t, "scribble")
	if allowFail && rapid.IntRange(0, 3).Draw(t, "fail") == 0 {
		r.failAt = rapid.IntRange(0, len(data)).Draw(t, "failAt")
		r.errWith = rapid.Bool().Draw(t, "errWith")
	}
	return r
}

var sizes = []int{0, 1, 2, 3, 7, 8, 64, 4096}

type held struct {
	b      []byte
	cp     []byte
	end    int  // absolute offset of the slice's end
	lexeme bool // came from Lexeme (else Shift)
}

// model-based check of one history
func TestProp_History(t *testing.T) {
	ev.Describe("history", "stateful (rapid t.Repeat): data from fragments (ASCII, multi-byte runes, NUL) x reader schedule (chunk sizes incl. 0-length reads and over-long, EOF with or after the last bytes, failure errBoom at any offset with or after data, reader with Bytes()) x initial size {0,1,2,3,7,8,64,4096} x actions Peek/PeekRune(valid UTF-8)/Move/Rewind/Lexeme/Skip/Shift/Pos/Err/ShiftLen/Free(n <= shifted-freed) and Move-beyond-peeked+Shift; oracle: flat cursor over the bytes the reader delivers, Err rules of the statement, held Shift/Lexeme slices unchanged while freed < their end, ShiftLen == shifted+skipped since last call; non-trivial = >= 1 refill while a token is held and >= 1 token straddling a chunk boundary")
	ev.Check(t, 15000, func(t *rapid.T) {
		data := genData(t, 14)
		size := rapid.SampledFrom(sizes).Draw(t, "size")
		var z *buffer.StreamLexer
		var r *schedReader
		inMemory := rapid.IntRange(0, 9).Draw(t, "inMemory") == 0
		if inMemory {
			z = buffer.NewStreamLexerSize(&bytesReader{append([]byte(nil), data...)}, size)
		} else {
			r = genReader(t, data, true)
			var rd io.Reader = r
			if rapid.IntRange(0, 3).Draw(t, "framelen") == 0 {
				// a reader that also has a Len method, which tells how much of the current frame is left (0 between two
				// frames): what the reader delivers is the data, whatever else it can tell
				rd = frameLenReader{r}
			}
			if size == 4096 {
				z = buffer.NewStreamLexer(rd) // the constructor without a size: 4096
			} else {
				z = buffer.NewStreamLexerSize(rd, size)
			}
		}
		L := len(data)
		if r != nil {
			L = r.limit()
		}
		d := data[:L]
		start, pos, peeked, freed, shiftLenPrev := 0, 0, 0, 0, 0
		var helds []held
		var hist []string
		lastCalls := 0
		refillWhileHeld, straddle := false, false
		readerErr := func() error {
			if inMemory {
				return io.EOF
			}
			return r.done
		}
		checkErr := func() {
			got := z.Err()
			re := readerErr()
			switch {
			case re == nil:
				if got != nil {
					t.Fatalf("Err() = %v although the reader has not failed or ended (pos %d/%d) after %v", got, pos, L, hist)
				}
			case re == io.EOF:
				if pos < L && got != nil {
					t.Fatalf("Err() = %v while unread data remain (pos %d/%d) after %v", got, pos, L, hist)
				}
				if pos >= L && got != io.EOF {
					t.Fatalf("Err() = %v at the end of the data, want io.EOF after %v", got, hist)
				}
			default:
				if got == io.EOF || (got != nil && got != re) {
					t.Fatalf("Err() = %v, the reader failed with %v after %v", got, re, hist)
				}
				if pos >= L && got != re {
					t.Fatalf("Err() = %v at the end of the delivered data, the reader failed with %v after %v", got, re, hist)
				}
			}
		}
		expect := func(name string, got []byte, a, b int) {
			if !bytes.Equal(got, d[a:b]) {
				t.Fatalf("%s = %q, want %q (bytes %d:%d of %q) after %v", name, got, d[a:b], a, b, d, hist)
			}
		}
		peek := func(i int) {
			got := z.Peek(i)
			var want byte
			if pos+i < L {
				want = d[pos+i]
			}
			if got != want {
				t.Fatalf("Peek(%d) at pos %d = %q, want %q (data %q) after %v", i, pos, got, want, d, hist)
			}
			if pos+i+1 > peeked {
				peeked = pos + i + 1
				if peeked > L {
					peeked = L
				}
			}
		}
		t.Repeat(map[string]func(*rapid.T){
			"Peek": func(t *rapid.T) {
				hi := L - pos
				if hi > 12 {
					hi = 12
				}
				i := rapid.IntRange(0, hi).Draw(t, "i")
				hist = append(hist, fmt.Sprintf("Peek(%d)", i))
				peek(i)
			},
			"PeekMove": func(t *rapid.T) { // what a lexer does: look at a byte, step over it
				k := rapid.IntRange(1, 12).Draw(t, "k")
				hist = append(hist, fmt.Sprintf("PeekMove*%d", k))
				for ; k > 0 && pos < L; k-- {
					peek(0)
					z.Move(1)
					pos++
				}
			},
			"PeekRune": func(t *rapid.T) {
				hi := L - pos
				if hi > 6 {
					hi = 6
				}
				i := rapid.IntRange(0, hi).Draw(t, "i")
				var wr rune
				wn := 1
				if pos+i < L {
					wr, wn = utf8.DecodeRune(d[pos+i:])
					if wr == utf8.RuneError && wn == 1 {
						t.Skip("not valid UTF-8 here")
					}
				}
				hist = append(hist, fmt.Sprintf("PeekRune(%d)", i))
				gr, gn := z.PeekRune(i)
				if gr != wr || gn != wn {
					t.Fatalf("PeekRune(%d) at pos %d = (%U,%d), want (%U,%d) after %v", i, pos, gr, gn, wr, wn, hist)
				}
				if pos+i+wn > peeked && pos+i < L {
					peeked = pos + i + wn
				}
			},
			"Move": func(t *rapid.T) {
				n := rapid.IntRange(start-pos, peeked-pos).Draw(t, "n")
				hist = append(hist, fmt.Sprintf("Move(%d)", n))
				z.Move(n)
				pos += n
			},
			"MoveShift": func(t *rapid.T) { // Shift documents: "make sure we peeked at least as much as we shift"
				hi := L - pos
				if hi > 20 {
					hi = 20
				}
				n := rapid.IntRange(0, hi).Draw(t, "n")
				hist = append(hist, fmt.Sprintf("Move(%d)+Shift", n))
				z.Move(n)
				pos += n
				b := z.Shift()
				expect("Shift()", b, start, pos)
				helds = append(helds, held{b, append([]byte(nil), b...), pos, false})
				start = pos
				if pos > peeked {
					peeked = pos
				}
			},
			"Rewind": func(t *rapid.T) {
				m := rapid.IntRange(0, peeked-start).Draw(t, "mark")
				hist = append(hist, fmt.Sprintf("Rewind(%d)", m))
				z.Rewind(m)
				pos = start + m
			},
			"Pos": func(t *rapid.T) {
				if got := z.Pos(); got != pos-start {
					t.Fatalf("Pos() = %d, want %d after %v", got, pos-start, hist)
				}
			},
			"Lexeme": func(t *rapid.T) {
				hist = append(hist, "Lexeme")
				b := z.Lexeme()
				expect("Lexeme()", b, start, pos)
				helds = append(helds, held{b, append([]byte(nil), b...), pos, true})
			},
			"Skip": func(t *rapid.T) {
				hist = append(hist, "Skip")
				z.Skip()
				start = pos
			},
			"Shift": func(t *rapid.T) {
				hist = append(hist, "Shift")
				b := z.Shift()
				expect("Shift()", b, start, pos)
				helds = append(helds, held{b, append([]byte(nil), b...), pos, false})
				start = pos
			},
			"ShiftLen": func(t *rapid.T) {
				hist = append(hist, "ShiftLen")
				if got := z.ShiftLen(); got != start-shiftLenPrev {
					t.Fatalf("ShiftLen() = %d, want %d (shifted/skipped since the previous call) after %v", got, start-shiftLenPrev, hist)
				}
				shiftLenPrev = start
			},
			"Free": func(t *rapid.T) {
				if freed >= start {
					t.Skip("nothing to free")
				}
				n := rapid.IntRange(1, start-freed).Draw(t, "n")
				hist = append(hist, fmt.Sprintf("Free(%d)", n))
				z.Free(n)
				freed += n
			},
			"Err": func(t *rapid.T) {
				hist = append(hist, "Err")
				checkErr()
			},
			"": func(t *rapid.T) {
				if r != nil && r.calls != lastCalls {
					lastCalls = r.calls
					// a refill happened
					kept := helds[:0]
					for _, h := range helds {
						if h.end > freed {
							refillWhileHeld = true
						}
						kept = append(kept, h)
					}
					helds = kept
					if r.off > 0 && r.off < L && start < r.off && peeked >= r.off {
						straddle = true
					}
				}
				for _, h := range helds {
					if h.end > freed && !bytes.Equal(h.b, h.cp) {
						kind := "Shift"
						if h.lexeme {
							kind = "Lexeme"
						}
						t.Fatalf("a slice returned by %s changed from %q to %q although only %d bytes were freed and it ends at offset %d; data %q size %d after %v", kind, h.cp, h.b, freed, h.end, d, size, hist)
					}
				}
			},
		})
		// all delivered bytes stay readable, also after a reader failure
		for pos < L {
			peek(0)
			z.Move(1)
			pos++
		}
		peek(0)
		checkErr()
		cls := "reader"
		if inMemory {
			cls = "in-memory"
		} else if r.failAt >= 0 {
			cls = "failing-reader"
		}
		ev.Case("history", fmt.Sprintf("%q|%d|%v|%s", d, size, r, strings.Join(hist, ",")), refillWhileHeld && straddle, cls, fmt.Sprintf("size=%d", size))
	})
}

// tokenizer-style run over longer data: tokens of drawn lengths, each peeked byte by byte, with a Free discipline
func TestProp_Tokens(t *testing.T) {
	ev.Describe("tokens", "the whole stream (<= 4 KiB quick, <= 256 KiB thorough; never-free only <= 4 KiB) is cut into tokens of drawn lengths (1..3*size+40), each peeked byte by byte, Shift or Skip, Free discipline in {never, immediately Free(ShiftLen()), delayed by 1-3 tokens, random legal}; oracle: every token equals the corresponding bytes, all unfreed tokens stay intact, ShiftLen sums match, Err/EOF rules; non-trivial = >= 3 refills and a token straddling a chunk boundary")
	ev.Check(t, 3000, func(t *rapid.T) {
		maxLen := 4096
		discipline := rapid.SampledFrom([]string{"never", "immediate", "delayed", "random"}).Draw(t, "free")
		if ev.Thorough() && discipline != "never" && rapid.IntRange(0, 19).Draw(t, "big") == 0 {
			maxLen = 256 << 10
		}
		n := rapid.IntRange(0, maxLen).Draw(t, "len")
		seedByte := rapid.Byte().Draw(t, "seed")
		data := make([]byte, n)
		x := uint32(seedByte) + 1
		for i := range data {
			x = x*1664525 + 1013904223
			data[i] = "abcdefghijklmnopqrstuvwxyz\x00é"[x>>24%28]
		}
		size := rapid.SampledFrom(sizes).Draw(t, "size")
		r := genReader(t, data, true)
		z := buffer.NewStreamLexerSize(r, size)
		L := r.limit()
		d := data[:L]
		maxTok := rapid.IntRange(1, 3*size+40).Draw(t, "maxTok")
		delay := rapid.IntRange(1, 3).Draw(t, "delay")
		toks := rapid.SliceOfN(rapid.IntRange(0, maxTok), 1, 64).Draw(t, "toks")
		var helds []held
		var pending []int
		pos, freed, shiftSum := 0, 0, 0
		refills, lastCalls, straddle := 0, 0, false
		for ti := 0; pos < L; ti++ {
			tl := toks[ti%len(toks)]
			if tl == 0 && ti%len(toks) == len(toks)-1 {
				tl = 1
			}
			if tl > L-pos {
				tl = L - pos
			}
			before := r.off
			for i := 0; i < tl; i++ {
				if c := z.Peek(0); c != d[pos+i] {
					t.Fatalf("Peek(0) at offset %d = %q, want %q", pos+i, c, d[pos+i])
				}
				z.Move(1)
			}
			if r.off != before && before > pos && before < pos+tl {
				straddle = true
			}
			if z.Err() != nil && pos+tl < L && r.done != errBoom {
				t.Fatalf("Err() = %v at offset %d of %d", z.Err(), pos+tl, L)
			}
			if ti%7 == 6 {
				z.Skip()
			} else {
				b := z.Shift()
				if !bytes.Equal(b, d[pos:pos+tl]) {
					t.Fatalf("token at %d = %q, want %q", pos, b, d[pos:pos+tl])
				}
				if discipline != "never" || len(helds) < 64 {
					helds = append(helds, held{b, append([]byte(nil), b...), pos + tl, false})
				}
			}
			pos += tl
			sl := z.ShiftLen()
			shiftSum += sl
			if shiftSum != pos {
				t.Fatalf("ShiftLen() sums to %d after shifting %d bytes", shiftSum, pos)
			}
			switch discipline {
			case "immediate":
				z.Free(sl)
				freed += sl
			case "delayed":
				pending = append(pending, sl)
				if len(pending) > delay {
					z.Free(pending[0])
					freed += pending[0]
					pending = pending[1:]
				}
			case "random":
				if pos > freed {
					k := int(x>>8) % (pos - freed + 1)
					x = x*1664525 + 1013904223
					z.Free(k)
					freed += k
				}
			}
			if r.calls != lastCalls {
				lastCalls = r.calls
				refills++
			}
			kept := helds[:0]
			for _, h := range helds {
				if h.end <= freed {
					continue
				}
				if !bytes.Equal(h.b, h.cp) {
					t.Fatalf("token ending at offset %d changed from %q to %q with %d bytes freed (size %d, discipline %s)", h.end, h.cp, h.b, freed, size, discipline)
				}
				kept = append(kept, h)
			}
			helds = kept
		}
		if c := z.Peek(0); c != 0 {
			t.Fatalf("Peek(0) at the end = %q", c)
		}
		if want := r.final(); z.Err() != want {
			t.Fatalf("Err() at the end = %v, want %v", z.Err(), want)
		}
		ev.Case("tokens", fmt.Sprintf("%d|%d|%d|%s|%v|%v|%d|%v", n, seedByte, size, discipline, r.chunks, toks, r.failAt, r.eofWith), refills >= 3 && straddle, "free="+discipline, fmt.Sprintf("size=%d", size))
	})
}

type zeroAllocReader struct {
	n, off, chunk int
}

func (r *zeroAllocReader) Read(p []byte) (int, error) {
	if r.off >= r.n {
		return 0, io.EOF
	}
	n := r.chunk
	if n > len(p) {
		n = len(p)
	}
	if n > r.n-r.off {
		n = r.n - r.off
	}
	for i := 0; i < n; i++ {
		p[i] = 'a' + byte((r.off+i)%26)
	}
	r.off += n
	return n, nil
}

// lenReader: the stream with a Len method that tells how much is left
type lenReader struct{ *zeroAllocReader }

func (r lenReader) Len() int { return r.n - r.off }

// heldBytes runs a stream of n bytes in tokens of length T, freeing every token (immediately or delayed), and returns the
// live heap (after GC, lexer still reachable) attributable to the lexer.
// lexeme: the token is looked at with Lexeme() half way and just before it is shifted (a refill that follows keeps the
// bytes handed out alive until they are freed: that bookkeeping must not leak either)
var lexemeMode bool

func heldBytes(n, B, T, chunk, delay int) (uint64, error) {
	lexeme := lexemeMode
	r := &zeroAllocReader{n: n, chunk: chunk}
	var rd io.Reader = r
	if (n+B+T+chunk+delay)%2 == 0 {
		rd = lenReader{r} // a reader that knows how much is left, like strings.Reader
	}
	var m0, m1 runtime.MemStats
	runtime.GC()
	runtime.ReadMemStats(&m0)
	z := buffer.NewStreamLexerSize(rd, B)
	pendingBuf := [4]int{}
	np := 0
	off := 0
	for {
		i := 0
		for ; i < T; i++ {
			c := z.Peek(0)
			if c == 0 {
				break
			}
			if c != 'a'+byte((off+i)%26) {
				return 0, fmt.Errorf("wrong byte at %d", off+i)
			}
			z.Move(1)
			if lexeme && (i == T/2 || i == T-1) {
				if l := z.Lexeme(); len(l) != i+1 {
					return 0, fmt.Errorf("Lexeme() has %d bytes after %d moves", len(l), i+1)
				}
			}
		}
		if i == 0 {
			break
		}
		z.Shift()
		off += i
		sl := z.ShiftLen()
		if delay == 0 {
			z.Free(sl)
		} else {
			if np == delay {
				z.Free(pendingBuf[0])
				copy(pendingBuf[:], pendingBuf[1:np])
				np--
			}
			pendingBuf[np] = sl
			np++
		}
	}
	if off != n {
		return 0, fmt.Errorf("stream ended at %d of %d", off, n)
	}
	runtime.GC()
	runtime.ReadMemStats(&m1)
	runtime.KeepAlive(z)
	if m1.HeapAlloc < m0.HeapAlloc {
		return 0, nil
	}
	return m1.HeapAlloc - m0.HeapAlloc, nil
}

func TestProp_Memory(t *testing.T) {
	ev.Describe("memory", "streams of N >= 2 MiB (N >= 256*(B+T)) in tokens of length T, every shifted token freed (immediately or delayed by <= 3 tokens), buffer size B in {0,1,16,64,4096,65536}, T in 1..20000, reader chunk in {1..100000}; oracle: live heap after GC with the lexer still reachable minus the baseline <= 16*(delay+1)*(B+T) + 256 KiB (bounded by buffer size plus the unfreed tokens, not by the stream: a retained stream would be >= 2 MiB and >= 128*(B+T)), and in a quarter of the cases with chunk >= 13 the same run over a 4 times longer stream holds at most 25% + 64 KiB + 2*(delay+2)*(B+T) more (the phase of the block cycle at the end); non-trivial = every case (distinct by parameters)")
	ev.Check(t, 60, func(t *rapid.T) {
		B := rapid.SampledFrom([]int{0, 1, 16, 64, 4096, 65536}).Draw(t, "B")
		T := rapid.OneOf(rapid.IntRange(1, 16), rapid.IntRange(1, 300), rapid.IntRange(1000, 20000)).Draw(t, "T")
		chunk := rapid.SampledFrom([]int{1, 3, 13, 512, 4096, 100000}).Draw(t, "chunk")
		delay := rapid.IntRange(0, 3).Draw(t, "delay")
		lexemeMode = rapid.Bool().Draw(t, "lexeme")
		defer func() { lexemeMode = false }()
		n := 2 << 20
		if m := 256 * (B + T); m > n {
			n = m
		}
		if chunk < 13 {
			// one-byte reads: keep the run short, but well above the bound below
			n = 2 << 20
			if m := 128 * (B + T); m > n {
				n = m
			}
		}
		got, err := heldBytes(n, B, T, chunk, delay)
		if err != nil {
			t.Fatalf("B=%d T=%d chunk=%d delay=%d: %v", B, T, chunk, delay, err)
		}
		// up to delay+1 tokens are unfreed at any time and every block may have grown to a small multiple of the token:
		// measured on the pinned tree <= 7.5*(delay+1)*(B+T); the factor 16 leaves room, a retained stream does not fit
		bound := uint64(16*(delay+1)*(B+T) + 256<<10)
		if got > bound {
			t.Fatalf("B=%d T=%d chunk=%d delay=%d: %d bytes are held after a stream of %d bytes with every token freed; bound 16*(delay+1)*(B+T)+256KiB = %d", B, T, chunk, delay, got, n, bound)
		}
		if chunk >= 13 && rapid.IntRange(0, 3).Draw(t, "growth") == 0 {
			// the defining clause: what is held does not grow with the stream
			got4, err := heldBytes(4*n, B, T, chunk, delay)
			if err != nil {
				t.Fatalf("B=%d T=%d chunk=%d delay=%d: %v", B, T, chunk, delay, err)
			}
			// what is held at the end also depends on where in its block cycle the lexer stops: up to delay+2 blocks more or less
			if got4 > got+got/4+64<<10+uint64(2*(delay+2)*(B+T)) {
				t.Fatalf("B=%d T=%d chunk=%d delay=%d: %d bytes held after %d bytes of stream, %d after %d bytes: grows with the stream", B, T, chunk, delay, got, n, got4, 4*n)
			}
			ev.Count("memory", "growth-compared", 1)
		}
		ev.Case("memory", fmt.Sprintf("B=%d T=%d chunk=%d delay=%d", B, T, chunk, delay), true, fmt.Sprintf("B=%d", B))
	})
}
