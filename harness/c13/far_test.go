package c13

import (
	"bytes"
	"fmt"
	"io"
	"testing"

	"github.com/tdewolff/parse/v2/buffer"
	"pgregory.net/rapid"

	"verif/internal/ev"
)

type patternReader struct {
	data  []byte
	off   int
	chunk int
}

func (r *patternReader) Read(p []byte) (int, error) {
	if r.off >= len(r.data) {
		return 0, io.EOF
	}
	n := len(p)
	if n > r.chunk {
		n = r.chunk
	}
	n = copy(p[:n], r.data[r.off:])
	r.off += n
	return n, nil
}

// TestProp_FarLookahead: look-ahead and tokens of hundreds of kilobytes, over buffers that start large or have grown
func TestProp_FarLookahead(t *testing.T) {
	ev.Describe("far", "streams of 150-600 KB x initial buffer size {0, 4096, 65536, 65537, 100000, 131072} x reader chunks {4096, 65536, 99991, everything}; 1-6 steps of Peek(k) with k up to the end of the stream (far beyond the buffer), optionally followed by Move(k+1), Shift and Free; oracle: flat cursor over the stream (Peek(k) is the byte k positions ahead, Err()==nil while data remain, the shifted token is exactly the bytes moved over); non-trivial = a Peek more than 1.5 x the buffer capacity + 4096 ahead")
	ev.Check(t, 120, func(t *rapid.T) {
		n := rapid.SampledFrom([]int{150000, 300000, 450000, 600000}).Draw(t, "n") + rapid.IntRange(0, 17).Draw(t, "nplus")
		data := make([]byte, n)
		for i := range data {
			data[i] = 'a' + byte((i*7+i/251)%26)
		}
		size := rapid.SampledFrom([]int{0, 4096, 65536, 65537, 100000, 131072}).Draw(t, "size")
		chunk := rapid.SampledFrom([]int{4096, 65536, 99991, n}).Draw(t, "chunk")
		z := buffer.NewStreamLexerSize(&patternReader{data: data, chunk: chunk}, size)
		start := 0
		far := false
		var hist []string
		for steps := rapid.IntRange(1, 6).Draw(t, "steps"); steps > 0 && start < n-1; steps-- {
			rem := n - start - 1
			k := rapid.IntRange(0, rem).Draw(t, "k")
			switch rapid.IntRange(0, 3).Draw(t, "kkind") {
			case 0:
				k = rem // the last byte of the stream
			case 1:
				if rem > 70000 {
					k = 70000 + rapid.IntRange(-2, 2).Draw(t, "kd")
				}
			}
			hist = append(hist, fmt.Sprintf("Peek(%d)@%d", k, start))
			if got := z.Peek(k); got != data[start+k] {
				t.Fatalf("size %d chunk %d: Peek(%d) at offset %d of %d = %#x, want %#x (Err() = %v; %v)", size, chunk, k, start, n, got, data[start+k], z.Err(), hist)
			}
			if z.Err() != nil {
				t.Fatalf("size %d chunk %d: Err() = %v with the position at %d of %d (%v)", size, chunk, z.Err(), start, n, hist)
			}
			far = far || k > size+size/2+4096
			if rapid.Bool().Draw(t, "shift") {
				z.Move(k + 1)
				tok := z.Shift()
				hist = append(hist, "Move+Shift")
				if !bytes.Equal(tok, data[start:start+k+1]) {
					t.Fatalf("size %d chunk %d: Shift() after Move(%d) at offset %d returns %d bytes that differ from the stream (%v)", size, chunk, k+1, start, len(tok), hist)
				}
				start += k + 1
				z.Free(z.ShiftLen())
			}
		}
		ev.Case("far", fmt.Sprintf("n=%d size=%d chunk=%d %v", n, size, chunk, hist), far, fmt.Sprintf("size=%d", size))
	})
}
