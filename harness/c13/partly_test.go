package c13

import (
	"bytes"
	"fmt"
	"testing"

	"github.com/tdewolff/parse/v2/buffer"
	"pgregory.net/rapid"

	"verif/internal/ev"
)

// TestProp_PartlyRead: a StreamLexer over a buffer.Reader (or bytes.Buffer, strings.Reader behind a few Reads) from which
// the caller has already read k bytes. Whether the lexer goes on at the read position or presents the whole slice of a
// reader with Bytes() is not the statement's subject; that ShiftLen counts what was shifted, and nothing else, is
func TestProp_PartlyRead(t *testing.T) {
	ev.Describe("partlyread", "a *buffer.Reader / *bytes.Buffer / *bytes.Reader over fragment data from which the caller has read k bytes, then NewStreamLexerSize on it, tokens of drawn lengths shifted or skipped; oracle: every ShiftLen() is exactly the number of bytes shifted or skipped since the previous call, every token is the next piece of the data from one fixed start (0 or k), Err() is io.EOF at the end only; non-trivial = k > 0")
	ev.Check(t, 3000, func(t *rapid.T) {
		data := genData(t, 14)
		if len(data) < 2 {
			data = []byte("abcdefgh")
		}
		k := rapid.IntRange(0, len(data)-1).Draw(t, "k")
		kind := rapid.SampledFrom([]string{"buffer.Reader", "bytes.Buffer", "bytes.Reader"}).Draw(t, "kind")
		var z *buffer.StreamLexer
		size := rapid.SampledFrom(sizes).Draw(t, "size")
		head := make([]byte, k)
		switch kind {
		case "buffer.Reader":
			r := buffer.NewReader(append([]byte(nil), data...))
			r.Read(head)
			z = buffer.NewStreamLexerSize(r, size)
		case "bytes.Buffer":
			r := bytes.NewBuffer(append([]byte(nil), data...))
			r.Read(head)
			z = buffer.NewStreamLexerSize(r, size)
		default:
			r := bytes.NewReader(append([]byte(nil), data...))
			r.Read(head)
			z = buffer.NewStreamLexerSize(r, size)
		}
		var all []byte // the tokens in a row: the data from one fixed start (0 or k)
		pos := 0
		for steps := 0; steps < 40; steps++ {
			n := rapid.IntRange(1, 6).Draw(t, "toklen")
			got := 0
			for i := 0; i < n && z.Peek(0) != 0; i++ {
				z.Move(1)
				got++
			}
			if got == 0 {
				break
			}
			tok := z.Shift()
			all = append(all, tok...)
			pos += got
			if sl := z.ShiftLen(); sl != got {
				t.Fatalf("%s of %q behind %d bytes read: ShiftLen() = %d after a token of %d bytes (%d bytes in)", kind, data, k, sl, got, pos-got)
			}
			z.Free(got)
		}
		if !(bytes.HasPrefix(data, all) || bytes.HasPrefix(data[k:], all)) {
			t.Fatalf("%s of %q behind %d bytes read: the tokens in a row are %q, neither the data from 0 nor from %d", kind, data, k, all, k)
		}
		ev.Case("partlyread", fmt.Sprintf("%s %q k=%d", kind, data, k), k > 0, kind)
	})
}
