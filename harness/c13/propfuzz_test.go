package c13

import (
	"testing"

	"verif/internal/ev"
)

// FuzzProp: coverage-guided fuzzing of this package's rapid properties (see ev.FuzzProp); thorough tier only.
func FuzzProp(f *testing.F) {
	ev.FuzzProp(f, map[string]func(*testing.T){
		"TestProp_History": TestProp_History,
		"TestProp_Memory":  TestProp_Memory,
		"TestProp_Tokens":  TestProp_Tokens,
	})
}
