package c13

import (
	"bytes"
	"testing"

	"github.com/tdewolff/parse/v2/buffer"
)

// fixed by 204142d (was known finding K-C13-1): replay of exactly the recorded history.
func lexemeTailOverwritten() (bool, string) {
	r := &schedReader{data: []byte("aab"), chunks: []int{1}, failAt: -1}
	z := buffer.NewStreamLexerSize(r, 0)
	z.Peek(0)
	z.Peek(1)
	z.Peek(2)
	z.Move(3)
	lex := z.Lexeme()
	cp := append([]byte(nil), lex...)
	z.Rewind(2)
	z.Shift()
	z.Free(2)
	z.Peek(1)
	return !bytes.Equal(lex, cp), string(cp) + " -> " + string(lex)
}

func TestRegress_LexemeTail(t *testing.T) {
	if bad, what := lexemeTailOverwritten(); bad {
		t.Fatalf("Lexeme() slice overwritten by a refill with 2 of 3 bytes freed: %s", what)
	}
}

// D6 (fixed)
func TestRegress_ShiftLen(t *testing.T) {
	r := &schedReader{data: []byte("aa"), chunks: []int{1}, failAt: -1}
	z := buffer.NewStreamLexerSize(r, 0)
	z.Move(1)
	z.Shift()
	z.Move(1)
	z.Shift()
	if n := z.ShiftLen(); n != 2 {
		t.Fatalf("ShiftLen() = %d after shifting 2 bytes", n)
	}
}

// fixed: empty blocks kept alive in the pool (memory quadratic in the token length with delayed Free and small chunks)
func TestRegress_PoolEmptyBlocks(t *testing.T) {
	got, err := heldBytes(1<<20, 0, 2000, 1, 3)
	if err != nil {
		t.Fatal(err)
	}
	if bound := uint64(16*2000 + 256<<10); got > bound {
		t.Fatalf("%d bytes held after a 1 MiB stream of 2000-byte tokens read byte by byte with Free delayed by 3 tokens; bound %d", got, bound)
	}
}
