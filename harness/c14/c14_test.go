package c14

import (
	"bytes"
	"errors"
	"fmt"
	"math"
	"math/big"
	"regexp"
	stdstrconv "strconv"
	"strings"
	"testing"
	"unicode/utf8"

	"github.com/tdewolff/parse/v2/strconv"
	"pgregory.net/rapid"

	"verif/internal/ev"
)

func TestMain(m *testing.M) { ev.Main(m, "C14") }

var (
	intRe      = regexp.MustCompile(`^[+-]?[0-9]+`)
	uintRe     = regexp.MustCompile(`^[0-9]+`)
	floatRe    = regexp.MustCompile(`^[+-]?([0-9]+\.?[0-9]*|\.[0-9]+)([eE][+-]?[0-9]+)?`)
	decRe      = regexp.MustCompile(`^-?[0-9]*\.?[0-9]*`)
	outFloatRe = regexp.MustCompile(`^-?([0-9]+\.?[0-9]*|\.[0-9]+)(e-?[0-9]+)?$`)
	outDecRe   = regexp.MustCompile(`^-?[0-9]+(\.[0-9]*[1-9])?$`)
)

// ---------- generators

var limits = []string{
	"9223372036854775807", "9223372036854775808", "9223372036854775809", "9223372036854775806",
	"18446744073709551615", "18446744073709551616", "18446744073709551614", "18446744073709551617",
	"922337203685477580", "1844674407370955161", "99999999999999999999", "10000000000000000000",
	"0", "00", "000000000000000000000000001",
}

// numeric string over the numeric alphabet, biased to 17-21 digits and the limits
func numString() *rapid.Generator[string] {
	frag := rapid.OneOf(
		rapid.SampledFrom([]string{"+", "-", ".", "e", "E", "x", " ", "e+", "e-", "E-", "0", "00", "1", "9", "..", "--", "+-",
			// the characters next to the digits in ASCII and those that share bits with them
			"/", ":", ";", "<", "=", ">", "?", "@", "\x10", "\x19", "p", "y", "\xb0", "\xb9", "٣", "３"}),
		rapid.StringOfN(rapid.SampledFrom([]rune("0123456789")), 1, 6, -1),
		rapid.StringOfN(rapid.SampledFrom([]rune("0123456789")), 15, 22, -1),
		rapid.SampledFrom(limits),
	)
	return rapid.Custom(func(t *rapid.T) string {
		n := rapid.IntRange(0, 6).Draw(t, "n")
		var sb strings.Builder
		for i := 0; i < n; i++ {
			sb.WriteString(frag.Draw(t, "f"))
		}
		return sb.String()
	})
}

func digits(min, max int) *rapid.Generator[string] {
	return rapid.StringOfN(rapid.SampledFrom([]rune("0123456789")), min, max, -1)
}

// a float literal by construction, then optional junk
func floatLiteral() *rapid.Generator[string] {
	return rapid.Custom(func(t *rapid.T) string {
		var sb strings.Builder
		sb.WriteString(rapid.SampledFrom([]string{"", "", "+", "-"}).Draw(t, "sign"))
		if rapid.IntRange(0, 7).Draw(t, "compensated") == 0 {
			// a long run of zeros in the mantissa compensated by a large written exponent: the value is ordinary
			k := rapid.OneOf(rapid.IntRange(0, 40), rapid.IntRange(290, 340), rapid.IntRange(500, 530), rapid.IntRange(600, 700), rapid.IntRange(1000, 1100)).Draw(t, "zeros")
			d := rapid.IntRange(-25, 25).Draw(t, "offset")
			m := digits(1, 20).Draw(t, "mant")
			if rapid.Bool().Draw(t, "small") {
				sb.WriteString("0." + strings.Repeat("0", k) + m + "e" + stdstrconv.Itoa(k+d))
			} else {
				sb.WriteString(m + strings.Repeat("0", k) + rapid.SampledFrom([]string{"", ".", ".0"}).Draw(t, "dot") + "e" + stdstrconv.Itoa(-k+d))
			}
			sb.WriteString(rapid.SampledFrom([]string{"", "", "x", " "}).Draw(t, "junk"))
			return sb.String()
		}
		if rapid.IntRange(0, 15).Draw(t, "limits") == 0 {
			// around the limits of float64: the largest float, the smallest normal and the smallest subnormal, the last
			// digits perturbed, the decimal point anywhere (compensated by the exponent)
			lim := rapid.SampledFrom([]struct {
				m string
				e int // exponent of the first digit
			}{{"17976931348623157", 308}, {"179769313486231570814527423731704357", 308}, {"17976931348623158", 308}, {"1797693134862315807", 308},
				{"22250738585072014", -308}, {"2225073858507201383090232717332404", -308}, {"49406564584124654", -324}, {"24703282292062327", -324}, {"1", 308}, {"9999999999999999", 307}}).Draw(t, "lim")
			m := []byte(lim.m)
			if k := rapid.IntRange(-3, 3).Draw(t, "tweak"); k != 0 && len(m) > 3 {
				// add k to the last digits (as a decimal string operation, carries kept inside the last 3 digits)
				tail, _ := stdstrconv.Atoi(string(m[len(m)-3:]))
				if tail+k >= 0 && tail+k <= 999 {
					copy(m[len(m)-3:], []byte(fmt.Sprintf("%03d", tail+k)))
				}
			}
			pt := rapid.IntRange(-25, len(m)+25).Draw(t, "point") // digits in front of the decimal point
			var lit string
			switch {
			case pt <= 0:
				lit = "0." + strings.Repeat("0", -pt) + string(m)
			case pt >= len(m):
				lit = string(m) + strings.Repeat("0", pt-len(m)) + rapid.SampledFrom([]string{"", ".", ".0"}).Draw(t, "dot")
			default:
				lit = string(m[:pt]) + "." + string(m[pt:])
			}
			sb.WriteString(lit + rapid.SampledFrom([]string{"e", "E", "e+"}).Draw(t, "e") + stdstrconv.Itoa(lim.e+1-pt))
			if strings.HasSuffix(sb.String(), "e+"+stdstrconv.Itoa(lim.e+1-pt)) && lim.e+1-pt < 0 {
				return strings.Replace(sb.String(), "e+-", "e-", 1)
			}
			return sb.String()
		}
		switch rapid.IntRange(0, 3).Draw(t, "form") {
		case 0:
			sb.WriteString(digits(1, 40).Draw(t, "int"))
		case 1:
			sb.WriteString(digits(1, 25).Draw(t, "int"))
			sb.WriteString(".")
			sb.WriteString(digits(0, 25).Draw(t, "frac"))
		case 2:
			sb.WriteString(".")
			sb.WriteString(digits(1, 40).Draw(t, "frac"))
		case 3:
			sb.WriteString(strings.Repeat("0", rapid.IntRange(0, 30).Draw(t, "z")))
			sb.WriteString(".")
			sb.WriteString(strings.Repeat("0", rapid.IntRange(0, 30).Draw(t, "z2")))
			sb.WriteString(digits(0, 20).Draw(t, "frac"))
		}
		if rapid.Bool().Draw(t, "hasexp") {
			sb.WriteString(rapid.SampledFrom([]string{"e", "E"}).Draw(t, "e"))
			sb.WriteString(rapid.SampledFrom([]string{"", "+", "-"}).Draw(t, "esign"))
			if k := rapid.IntRange(0, 19).Draw(t, "ebig"); k == 0 {
				sb.WriteString(digits(1, 18).Draw(t, "exp"))
			} else if k == 1 {
				// next to the limits of int64
				sb.WriteString(rapid.SampledFrom([]string{"9223372036854775807", "9223372036854775806", "9223372036854775808", "9223372036854775000", "4611686018427387904", "09223372036854775807", "18446744073709551616", "99999999999999999999", "100000000000000000000000000", "0000000000000000000000000012"}).Draw(t, "explimit"))
			} else {
				sb.WriteString(stdstrconv.Itoa(rapid.IntRange(0, 400).Draw(t, "exp")))
			}
		}
		sb.WriteString(rapid.SampledFrom([]string{"", "", "", "x", ".", "e", "e+", "-", " ", ".5", "e5", ":", "/", "?", ";1"}).Draw(t, "junk"))
		return sb.String()
	})
}

func anyInt64() *rapid.Generator[int64] {
	return rapid.OneOf(
		rapid.Int64(),
		rapid.Custom(func(t *rapid.T) int64 {
			k := rapid.IntRange(0, 18).Draw(t, "k")
			p := int64(1)
			for i := 0; i < k; i++ {
				p *= 10
			}
			p += int64(rapid.IntRange(-2, 2).Draw(t, "d"))
			if rapid.Bool().Draw(t, "neg") {
				p = -p
			}
			return p
		}),
		rapid.SampledFrom([]int64{0, 1, -1, math.MaxInt64, math.MinInt64, math.MaxInt64 - 1, math.MinInt64 + 1, math.MaxInt32, math.MinInt32}),
		rapid.Int64Range(-1000, 1000),
	)
}

func finiteFloat() *rapid.Generator[float64] {
	return rapid.OneOf(
		rapid.Float64(),
		rapid.Custom(func(t *rapid.T) float64 { return math.Float64frombits(rapid.Uint64().Draw(t, "bits")) }),
		rapid.Custom(func(t *rapid.T) float64 { // power of ten +- ulps
			f := math.Pow10(rapid.IntRange(-323, 308).Draw(t, "e"))
			u := rapid.IntRange(-2, 2).Draw(t, "ulp")
			for ; u > 0; u-- {
				f = math.Nextafter(f, math.Inf(1))
			}
			for ; u < 0; u++ {
				f = math.Nextafter(f, 0)
			}
			if rapid.Bool().Draw(t, "neg") {
				f = -f
			}
			return f
		}),
		rapid.Custom(func(t *rapid.T) float64 { // short decimals k / 10^d
			k := rapid.Int64Range(-100000000, 100000000).Draw(t, "k")
			d := rapid.IntRange(0, 12).Draw(t, "d")
			return float64(k) / math.Pow10(d)
		}),
		rapid.Custom(func(t *rapid.T) float64 { // integers and powers of two
			if rapid.Bool().Draw(t, "pow2") {
				return math.Ldexp(1, rapid.IntRange(-1074, 1023).Draw(t, "e2"))
			}
			return float64(rapid.Int64Range(-1<<53, 1<<53).Draw(t, "i"))
		}),
		rapid.SampledFrom([]float64{0, math.Copysign(0, -1), 1, -1, 0.5, 99, 123, 214.4, 8388608, 0.1, 1e21, 1e22, 1e23, math.MaxFloat64, math.SmallestNonzeroFloat64, 5e-324, 1e-291, 1e-300}),
	)
}

func prefix(t *rapid.T) []byte {
	p := rapid.SliceOfN(rapid.Byte(), 0, 5).Draw(t, "prefix")
	spare := rapid.IntRange(0, 40).Draw(t, "spare")
	b := make([]byte, len(p), len(p)+spare)
	copy(b, p)
	// poison the spare capacity so that stale bytes would show up
	for i := range b[len(p):cap(b)] {
		b[len(p):cap(b)][i] = 0xAA
	}
	return b
}

func checkPrefix(t *rapid.T, pre, out []byte) []byte {
	if len(out) < len(pre) || !bytes.Equal(out[:len(pre)], pre) {
		t.Fatalf("destination prefix %q not preserved: %q", pre, out)
	}
	// the result is the caller's: it is taken down and then overwritten, which changes nothing for later calls
	res := append([]byte(nil), out[len(pre):]...)
	for i := range out {
		out[i] = '#'
	}
	return res
}

// ---------- parsers

func TestProp_ParseInt(t *testing.T) {
	ev.Describe("ParseInt", "strings over [0-9+-.eEx ] incl. 15-22 digit runs and the int64/uint64 limits +-2; oracle: longest prefix [+-]?[0-9]+ evaluated by math/big, (0,0) on overflow/no digits; non-trivial = the prefix has >= 17 digits or a sign or is followed by junk")
	ev.Check(t, 20000, func(t *rapid.T) {
		s := numString().Draw(t, "s")
		in := []byte(s)
		got, n := strconv.ParseInt(in)
		if string(in) != s {
			t.Fatalf("input modified")
		}
		m := intRe.FindString(s)
		cls := "nomatch"
		if m == "" {
			if got != 0 || n != 0 {
				t.Fatalf("ParseInt(%q) = %d,%d want 0,0", s, got, n)
			}
		} else {
			v, _ := new(big.Int).SetString(m, 10)
			if v.IsInt64() {
				cls = "value"
				if got != v.Int64() || n != len(m) {
					t.Fatalf("ParseInt(%q) = %d,%d want %d,%d", s, got, n, v.Int64(), len(m))
				}
			} else {
				cls = "overflow"
				if got != 0 || n != 0 {
					t.Fatalf("ParseInt(%q) = %d,%d want 0,0 (overflow)", s, got, n)
				}
			}
		}
		ev.Case("ParseInt", s, len(m) >= 17 || (m != "" && (m[0] == '+' || m[0] == '-' || len(m) < len(s))), cls)
	})
}

func TestProp_ParseUint(t *testing.T) {
	ev.Describe("ParseUint", "same strings; oracle: longest prefix [0-9]+ by math/big, (0,0) on overflow/no digits; non-trivial = >= 17 digits or trailing junk")
	ev.Check(t, 20000, func(t *rapid.T) {
		s := numString().Draw(t, "s")
		got, n := strconv.ParseUint([]byte(s))
		m := uintRe.FindString(s)
		cls := "nomatch"
		if m == "" {
			if got != 0 || n != 0 {
				t.Fatalf("ParseUint(%q) = %d,%d want 0,0", s, got, n)
			}
		} else {
			v, _ := new(big.Int).SetString(m, 10)
			if v.IsUint64() {
				cls = "value"
				if got != v.Uint64() || n != len(m) {
					t.Fatalf("ParseUint(%q) = %d,%d want %d,%d", s, got, n, v.Uint64(), len(m))
				}
			} else {
				cls = "overflow"
				if got != 0 || n != 0 {
					t.Fatalf("ParseUint(%q) = %d,%d want 0,0 (overflow)", s, got, n)
				}
			}
		}
		ev.Case("ParseUint", s, len(m) >= 17 || (m != "" && len(m) < len(s)), cls)
	})
}

func relClose(got, want, tol float64) bool {
	if got == want {
		return true
	}
	if math.IsInf(want, 0) || math.IsInf(got, 0) || math.IsNaN(got) {
		return false
	}
	return math.Abs(got-want) <= tol*math.Abs(want)
}

// a fifth of the smallest subnormal
var underflowEdge, _, _ = big.ParseFloat("9.9e-325", 10, 128, big.ToNearestEven)

func checkParseFloat(t *rapid.T, s string) (string, bool) {
	got, n := strconv.ParseFloat([]byte(s))
	m := floatRe.FindString(s)
	if m == "" {
		if got != 0 || n != 0 {
			t.Fatalf("ParseFloat(%q) = %v,%d want 0,0", s, got, n)
		}
		return "nomatch", false
	}
	if i := strings.IndexAny(m, "eE"); i >= 0 {
		e, _ := new(big.Int).SetString(strings.TrimPrefix(m[i+1:], "+"), 10)
		if e.CmpAbs(big.NewInt(100000)) > 0 {
			// an exponent (of any number of digits: it need not fit an int64) that is far outside the range of float64:
			// zero or infinity, whatever the mantissa (of at most a few thousand digits) is
			if n != len(m) {
				t.Fatalf("ParseFloat(%q) consumed %d bytes, the longest numeric prefix %q has %d", s, n, m, len(m))
			}
			zeroMant := strings.Trim(m[:i], "+-0.") == ""
			neg := strings.HasPrefix(m, "-")
			switch {
			case zeroMant || e.Sign() < 0:
				if got != 0 {
					t.Fatalf("ParseFloat(%q) = %v, want 0", s, got)
				}
			case !math.IsInf(got, 1) && !neg || !math.IsInf(got, -1) && neg:
				t.Fatalf("ParseFloat(%q) = %v, want the infinity", s, got)
			}
			return "int64exp", true
		}
	}
	want, _ := stdstrconv.ParseFloat(m, 64)
	if digits := strings.IndexAny(m+"e", "eE"); digits > 700 {
		// the standard library keeps only 800 mantissa digits and then misplaces the decimal point of longer integers
		// ("1"+1000 zeros+"e-1000" is 1e-201 there): for long mantissas the reference is math/big
		if bf, _, err := new(big.Float).SetPrec(8192).Parse(m, 10); err == nil {
			want, _ = bf.Float64()
		}
	}
	if n != len(m) {
		t.Fatalf("ParseFloat(%q) consumed %d bytes, the longest numeric prefix %q has %d (value %v)", s, n, m, len(m), got)
	}
	cls := "finite"
	if math.IsInf(want, 0) {
		cls = "overflow"
		// the overflow edge: a decimal value within 1e-14 relative of the largest float may be returned as that float
		// (the statement's tolerance) or as infinity (what correct rounding gives beyond MaxFloat64 + 1/2 ulp)
		if bf, _, err := new(big.Float).SetPrec(8192).Parse(m, 10); err == nil {
			edge := new(big.Float).SetPrec(8192).Mul(big.NewFloat(math.MaxFloat64), big.NewFloat(1+1e-14))
			if new(big.Float).Abs(bf).Cmp(edge) <= 0 && (got == want || got == math.Copysign(math.MaxFloat64, want)) {
				return "overflow-edge", true
			}
		}
	} else if want == 0 {
		cls = "zero"
		// the underflow edge, like the subnormals below: a value of at least a fifth of the smallest subnormal may
		// come back as that subnormal (one subnormal ulp off); anything smaller must be zero
		if bf, _, err := new(big.Float).SetPrec(8192).Parse(m, 10); err == nil && got != 0 {
			if new(big.Float).Abs(bf).Cmp(underflowEdge) >= 0 && math.Abs(got) <= 5e-324 && math.Signbit(got) == (bf.Sign() < 0) {
				return "underflow-edge", true
			}
		}
	} else if math.Abs(want) < 2.3e-308 {
		// subnormal results carry fewer than 53 bits: 1e-14 relative cannot be demanded of any implementation
		// that scales in more than one step; demand closeness to within 2 subnormal ulps instead
		if math.Abs(got-want) > 1e-323 {
			t.Fatalf("ParseFloat(%q) = %v, want %v (subnormal)", s, got, want)
		}
		return "subnormal", true
	}
	if !relClose(got, want, 1e-14) {
		t.Fatalf("ParseFloat(%q) = %v, want %v", s, got, want)
	}
	if want != 0 && math.Signbit(got) != math.Signbit(want) {
		t.Fatalf("ParseFloat(%q) = %v: wrong sign", s, got)
	}
	return cls, true
}

func TestProp_ParseFloat(t *testing.T) {
	ev.Describe("ParseFloat", "float literals by construction (mantissa 1-40 digits, leading/trailing zero runs, exponent in [-400,400] or up to 18 digits; zero runs of up to 1100 digits compensated by the written exponent) + trailing junk, and raw numeric-alphabet strings; oracle: longest prefix of the documented syntax by regexp, value vs strconv.ParseFloat within 1e-14 relative, Inf/0 must match; non-trivial = a literal matched")
	ev.Check(t, 30000, func(t *rapid.T) {
		var s string
		if rapid.IntRange(0, 3).Draw(t, "raw") == 0 {
			s = numString().Draw(t, "s")
		} else {
			s = floatLiteral().Draw(t, "s")
		}
		cls, nt := checkParseFloat(t, s)
		ev.Case("ParseFloat", s, nt, cls)
	})
}

func TestProp_ParseDecimal(t *testing.T) {
	ev.Describe("ParseDecimal", "inputs that begin with -?digits[.digits] containing a digit (an eighth of them with 0-400 zeros in front of or behind the dot: numbers near the limits of float64), then junk; oracle: n == length of that prefix, value within 1e-14 relative of strconv.ParseFloat of it; non-trivial = has a dot or > 17 digits or junk")
	ev.Check(t, 20000, func(t *rapid.T) {
		var sb strings.Builder
		sb.WriteString(rapid.SampledFrom([]string{"", "-"}).Draw(t, "sign"))
		a := digits(0, 30).Draw(t, "int")
		hasDot := rapid.Bool().Draw(t, "dot")
		b := ""
		if hasDot {
			b = digits(0, 30).Draw(t, "frac")
		}
		if rapid.IntRange(0, 7).Draw(t, "long") == 0 {
			// numbers near the limits of float64 written without an exponent: long runs of zeros behind or in front of the dot
			k := rapid.OneOf(rapid.IntRange(280, 345), rapid.IntRange(0, 400)).Draw(t, "zeros")
			if rapid.Bool().Draw(t, "tiny") {
				a, hasDot, b = rapid.SampledFrom([]string{"", "0", "00"}).Draw(t, "lead"), true, strings.Repeat("0", k)+digits(1, 20).Draw(t, "sig")
			} else {
				a += strings.Repeat("0", k)
			}
		}
		if a == "" && b == "" {
			a = "0"
		}
		sb.WriteString(a)
		if hasDot {
			sb.WriteString(".")
		}
		sb.WriteString(b)
		m := sb.String()
		junk := rapid.SampledFrom([]string{"", "", "x", ".", ".5", "e5", "-", " ", "e"}).Draw(t, "junk")
		if junk != "" && junk[0] == '.' && !hasDot {
			junk = "x"
		}
		s := m + junk
		got, n := strconv.ParseDecimal([]byte(s))
		if n != len(m) {
			t.Fatalf("ParseDecimal(%q) consumed %d, want %d", s, n, len(m))
		}
		lit := m
		if strings.HasSuffix(lit, ".") {
			lit += "0"
		}
		if strings.HasPrefix(lit, ".") || strings.HasPrefix(lit, "-.") {
			lit = strings.Replace(lit, ".", "0.", 1)
		}
		want, err := stdstrconv.ParseFloat(lit, 64)
		if err != nil && !errors.Is(err, stdstrconv.ErrRange) { // (out of range: want is the infinity)
			t.Fatalf("reference cannot parse %q: %v", lit, err)
		}
		if want != 0 && math.Abs(want) < 2.3e-308 || want == 0 && got != 0 && math.Abs(got) <= 5e-324 {
			// subnormal results and the underflow edge: as for ParseFloat, two subnormal ulps
			if math.Abs(got-want) > 1e-323 {
				t.Fatalf("ParseDecimal(%q) = %v want %v (subnormal)", s, got, want)
			}
		} else if math.IsInf(want, 0) && math.Abs(got) == math.MaxFloat64 && math.Signbit(got) == math.Signbit(want) {
			// the overflow edge: within 1e-14 of the largest float (see checkParseFloat)
			if bf, _, err := new(big.Float).SetPrec(8192).Parse(lit, 10); err != nil || new(big.Float).Abs(bf).Cmp(new(big.Float).SetPrec(8192).Mul(big.NewFloat(math.MaxFloat64), big.NewFloat(1+1e-14))) > 0 {
				t.Fatalf("ParseDecimal(%q) = %v want %v", s, got, want)
			}
		} else if !relClose(got, want, 1e-14) {
			t.Fatalf("ParseDecimal(%q) = %v want %v", s, got, want)
		}
		ev.Case("ParseDecimal", s, hasDot || len(a) > 17 || junk != "", fmt.Sprintf("dot=%v", hasDot))
	})
}

// ---------- AppendInt / LenInt

func TestProp_AppendInt(t *testing.T) {
	ev.Describe("AppendInt", "int64 from {uniform, +-10^k+-2, limits, small}; oracle: byte-identical to strconv.AppendInt, LenInt == its length, destination prefix (random bytes, random spare capacity) preserved; non-trivial = |num| >= 10")
	ev.Check(t, 30000, func(t *rapid.T) {
		num := anyInt64().Draw(t, "num")
		pre := prefix(t)
		keep := append([]byte(nil), pre...)
		out := strconv.AppendInt(pre, num)
		got := checkPrefix(t, keep, out)
		want := stdstrconv.AppendInt(nil, num, 10)
		if !bytes.Equal(got, want) {
			t.Fatalf("AppendInt(%d) = %q want %q", num, got, want)
		}
		if l := strconv.LenInt(num); l != len(want) {
			t.Fatalf("LenInt(%d) = %d want %d", num, l, len(want))
		}
		ev.Case("AppendInt", string(want), num >= 10 || num <= -10, fmt.Sprintf("len=%d", len(want)))
	})
}

// ---------- AppendFloat

func TestProp_AppendFloat(t *testing.T) {
	ev.Describe("AppendFloat", "finite float64 from {rapid.Float64, random bit patterns, 10^k +- ulps, k/10^d, integers, powers of two, constants} x prec -1..18; oracle: output matches -?(d+.?d*|.d+)(e-?d+)?, has the sign of f or is 0, parses back (strconv.ParseFloat) to b with |b| <= |f|(1+4eps) and |f-b| < 10^(floor(log10|f|)-p) + 4eps|f| (f truncated to p+1 significant digits, p capped at 15); NaN/Inf append nothing; prefix preserved; non-trivial = f != 0 and finite")
	ev.Check(t, 40000, func(t *rapid.T) {
		f := finiteFloat().Draw(t, "f")
		prec := rapid.IntRange(-1, 18).Draw(t, "prec")
		pre := prefix(t)
		keep := append([]byte(nil), pre...)
		out := strconv.AppendFloat(pre, f, prec)
		got := string(checkPrefix(t, keep, out))
		if math.IsNaN(f) || math.IsInf(f, 0) {
			if got != "" {
				t.Fatalf("AppendFloat(%v,%d) appended %q", f, prec, got)
			}
			ev.Case("AppendFloat", fmt.Sprint(f, prec), false, "naninf")
			return
		}
		checkAppendFloat(t, f, prec, got)
		cls := "normal"
		if a := math.Abs(f); a != 0 && a < 2.3e-308 {
			cls = "subnormal"
		} else if a == 0 {
			cls = "zero"
		}
		ev.Case("AppendFloat", fmt.Sprintf("%v/%d", f, prec), f != 0, cls, fmt.Sprintf("prec=%d", prec))
	})
}

type fataler interface {
	Fatalf(format string, args ...any)
}

func checkAppendFloat(t fataler, f float64, prec int, got string) {
	if !outFloatRe.MatchString(got) {
		t.Fatalf("AppendFloat(%v,%d) = %q: not a well-formed literal", f, prec, got)
	}
	// exact value of the literal (no second rounding by a float parser)
	lit, _, err := big.ParseFloat(got, 10, 2000, big.ToNearestEven)
	if err != nil {
		t.Fatalf("AppendFloat(%v,%d) = %q: %v", f, prec, got, err)
	}
	if f == 0 {
		if lit.Sign() != 0 {
			t.Fatalf("AppendFloat(%v,%d) = %q", f, prec, got)
		}
		return
	}
	if lit.Sign() != 0 && (lit.Sign() < 0) != math.Signbit(f) {
		t.Fatalf("AppendFloat(%v,%d) = %q: wrong sign", f, prec, got)
	}
	if lit.Sign() == 0 && strings.HasPrefix(got, "-") {
		t.Fatalf("AppendFloat(%v,%d) = %q: negative zero literal", f, prec, got)
	}
	p := prec
	if p < 0 || p > 17 {
		p = 17
	}
	if p > 15 {
		p = 15
	}
	a := math.Abs(f)
	const eps = 2.220446049250313e-16
	e10 := int(math.Floor(math.Log10(a)))
	A := new(big.Float).SetPrec(2000).SetFloat64(a)
	pow10 := func(e int) *big.Float {
		x := new(big.Float).SetPrec(2000).SetInt(new(big.Int).Exp(big.NewInt(10), big.NewInt(int64(abs(e))), nil))
		if e < 0 {
			x.Quo(big.NewFloat(1).SetPrec(2000), x)
		}
		return x
	}
	// guard the floor against log10 rounding at exact powers of ten
	slack := new(big.Float).SetPrec(2000).Mul(A, big.NewFloat(4*eps))
	slack.Add(slack, big.NewFloat(1e-323)) // two subnormal ulps: subnormal arguments have no relative slack
	// the decimal exponent is the exact one of the argument
	if pow10(e10+1).Cmp(A) <= 0 {
		e10++
	} else if pow10(e10).Cmp(A) > 0 {
		e10--
	}
	L := new(big.Float).SetPrec(2000).Abs(lit)
	if L.Cmp(new(big.Float).SetPrec(2000).Add(A, slack)) > 0 {
		t.Fatalf("AppendFloat(%v,%d) = %q: magnitude exceeds the argument (truncation expected)", f, prec, got)
	}
	// a literal within the float slack of the argument is the argument (a float64 a fraction of an ulp below a power of
	// ten, 1e35 is 9.9999999999999996e34, may be written as that power of ten); otherwise it is the argument truncated
	// to p+1 significant digits
	tol := new(big.Float).SetPrec(2000).Add(pow10(e10-p), slack)
	if d := new(big.Float).SetPrec(2000).Sub(A, L); d.Cmp(slack) > 0 && d.Cmp(tol) >= 0 {
		t.Fatalf("AppendFloat(%v,%d) = %q: off by %s, allowed < %s (%d significant digits)", f, prec, got, d.Text('g', 6), tol.Text('g', 6), p+1)
	}
}

func abs(i int) int {
	if i < 0 {
		return -i
	}
	return i
}

// ---------- AppendDecimal

func TestProp_AppendDecimal(t *testing.T) {
	ev.Describe("AppendDecimal", "finite float64 (half of them |f| <= 1e6 incl. k/10^d and exact binary ties) x dec -1..18; oracle (math/big, exact): output matches -?d+(.d*[1-9])? with at most dec decimals, no -0, correct sign, |literal - f| <= 0.5*10^-dec + 2^-52|f| (no second term when dec is 0), exact ties round away from zero; from |f| >= 9e18 on any well-formed literal within that bound; NaN/Inf append nothing; prefix preserved; non-trivial = f != 0")
	ev.Check(t, 40000, func(t *rapid.T) {
		var f float64
		if rapid.Bool().Draw(t, "small") {
			f = rapid.OneOf(rapid.Float64Range(-1e6, 1e6), rapid.Float64Range(-2, 2), rapid.Custom(func(t *rapid.T) float64 {
				k := rapid.Int64Range(-100000000, 100000000).Draw(t, "k")
				d := rapid.IntRange(0, 12).Draw(t, "d")
				return float64(k) / math.Pow10(d)
			}), rapid.Custom(func(t *rapid.T) float64 { // the neighbours of a rounding boundary: k + 0.5 -+ a few ulps
				x := float64(rapid.Int64Range(-1000, 1000).Draw(t, "kh")) + 0.5
				for n := rapid.IntRange(-3, 3).Draw(t, "ulps"); n != 0; {
					if n > 0 {
						x = math.Nextafter(x, math.Inf(1))
						n--
					} else {
						x = math.Nextafter(x, math.Inf(-1))
						n++
					}
				}
				return x
			}), rapid.Custom(func(t *rapid.T) float64 { // integers beyond 2^52: every one of them is exact
				return math.Ldexp(1, rapid.IntRange(52, 62).Draw(t, "p2")) + float64(rapid.Int64Range(-1000, 1000).Draw(t, "off"))
			}), rapid.Custom(func(t *rapid.T) float64 { // binary fractions: exact ties at dec < j
				return math.Ldexp(float64(rapid.Int64Range(-4000, 4000).Draw(t, "m")), -rapid.IntRange(1, 8).Draw(t, "j"))
			})).Draw(t, "f")
		} else {
			f = finiteFloat().Draw(t, "f")
		}
		dec := rapid.IntRange(-1, 18).Draw(t, "dec")
		pre := prefix(t)
		keep := append([]byte(nil), pre...)
		out := strconv.AppendDecimal(pre, f, dec)
		got := string(checkPrefix(t, keep, out))
		if math.IsNaN(f) || math.IsInf(f, 0) {
			if got != "" {
				t.Fatalf("AppendDecimal(%v,%d) appended %q", f, dec, got)
			}
			ev.Case("AppendDecimal", fmt.Sprint(f, dec), false, "naninf")
			return
		}
		cls := checkAppendDecimal(t, f, dec, got)
		ev.Case("AppendDecimal", fmt.Sprintf("%v/%d", f, dec), f != 0, cls, fmt.Sprintf("dec=%d", dec))
	})
}

func bf(x float64) *big.Float { return new(big.Float).SetPrec(2000).SetFloat64(x) }

// checkAppendDecimal: with d the effective number of decimals (17 when dec is outside 0..17), L the exact value of the
// literal and F the exact argument: |L-F| <= 0.5*10^-d + 2|F|*2^-52 (nearest multiple of 10^-d up to the float
// noise of scaling in float64); an exact tie that float64 represents exactly must round away from zero; at most d
// decimals, none of them a trailing zero; no negative zero. When |f|*10^d does not fit an int64 the value has more
// digits than a float64 carries: fewer decimals (or, from 9e18 on, the AppendFloat form with an exponent) are accepted
// by the same inequality.
func checkAppendDecimal(t fataler, f float64, dec int, got string) string {
	d := dec
	if d < 0 || d > 17 {
		d = 17
	}
	F := bf(f)
	p10 := new(big.Float).SetPrec(2000).SetInt(new(big.Int).Exp(big.NewInt(10), big.NewInt(int64(d)), nil))
	S := new(big.Float).SetPrec(2000).Mul(F, p10) // exact f*10^d
	cls := "value"
	if math.Abs(f) >= 9e18 {
		cls = "beyond-int64"
		if !outFloatRe.MatchString(got) {
			t.Fatalf("AppendDecimal(%v,%d) = %q: not a well-formed literal", f, dec, got)
		}
	} else {
		if new(big.Float).Abs(S).Cmp(bf(9e18)) >= 0 {
			cls = "scaled-beyond-int64"
		}
		if !outDecRe.MatchString(got) {
			t.Fatalf("AppendDecimal(%v,%d) = %q: not a well-formed decimal without trailing zeros", f, dec, got)
		}
		if i := strings.IndexByte(got, '.'); i >= 0 && len(got)-i-1 > d {
			t.Fatalf("AppendDecimal(%v,%d) = %q: more than %d decimals", f, dec, got, d)
		}
	}
	L, _, err := big.ParseFloat(got, 10, 2000, big.ToNearestEven)
	if err != nil {
		t.Fatalf("AppendDecimal(%v,%d) = %q: %v", f, dec, got, err)
	}
	if strings.HasPrefix(got, "-") && L.Sign() == 0 {
		t.Fatalf("AppendDecimal(%v,%d) = %q: negative zero", f, dec, got)
	}
	if L.Sign() != 0 && (L.Sign() < 0) != (f < 0) {
		t.Fatalf("AppendDecimal(%v,%d) = %q: wrong sign", f, dec, got)
	}
	tol := new(big.Float).SetPrec(2000).Quo(bf(0.5), p10)
	// the scaling f*10^d rounds once (at most half an ulp of the scaled number, 2^-53 relative; 2^-52 allowed); without
	// scaling (d == 0) nothing is rounded before the rounding that is asked for
	// (from 9e18 on the number is written by AppendFloat with 18 digits: 2^-51)
	if big9e18 := new(big.Float).Abs(S).Cmp(bf(9e18)) >= 0; d > 0 || big9e18 {
		e := -52
		if big9e18 {
			e = -51
		}
		noise := new(big.Float).SetPrec(2000).Mul(new(big.Float).Abs(F), bf(math.Ldexp(1, e)))
		tol.Add(tol, noise)
	}
	diff := new(big.Float).SetPrec(2000).Sub(L, F)
	if diff.Abs(diff).Cmp(tol) > 0 {
		t.Fatalf("AppendDecimal(%v,%d) = %q: differs from the argument by %s, allowed %s", f, dec, got, diff.Text('g', 6), tol.Text('g', 6))
	}
	// exact ties
	if S.MantExp(nil) < 50 && !S.IsInt() {
		twice := new(big.Float).SetPrec(2000).Mul(S, bf(2))
		if twice.IsInt() {
			cls = "exact-tie"
			want := new(big.Float).SetPrec(2000)
			if S.Sign() > 0 {
				want.Add(S, bf(0.5))
			} else {
				want.Sub(S, bf(0.5))
			}
			want.Quo(want, p10)
			if want.Cmp(L) != 0 {
				t.Fatalf("AppendDecimal(%v,%d) = %q: a tie must be rounded away from zero (%s)", f, dec, got, want.Text('f', 20))
			}
		}
	}
	if L.Sign() == 0 && f != 0 {
		return "rounds-to-zero"
	}
	return cls
}

// ---------- AppendNumber / ParseNumber

var symbols = []rune{'.', ',', '\'', ' ', '_', ' ', '٫', '٬', ' ', '€', '\U0001F600', '\U00010000', 'x',
	// the ends of the UTF-8 length classes and the runes that decoders treat specially
	'\u007f', '\u0080', '\u07ff', '\u0800', '\ufffc', '\ufffd', '\ufffe', '\uffff', '\U0010ffff', '\u2028', '\ufeff', '\u00ad',
	// Latin-1 symbols whose code point equals the first byte of another symbol's encoding (U+00E2 and E2 80 AF), and those others
	'\u00c2', '\u00c3', '\u00e0', '\u00e2', '\u00ef', '\u00f0', '\u00f4', '\u00a0', '\u202f', '\u00c0', '\U000f0000'}

func TestProp_Number(t *testing.T) {
	ev.Describe("Number", "int64 x dec 0..18 (one in ten: 19..70) x groupSize 0..6 x distinct group/decimal symbols of 1-4 UTF-8 bytes; oracle: ParseNumber(AppendNumber(..)) == (num, dec, len), no NUL/stale byte in the output, digits grouped from the right in groups of groupSize, prefix preserved; non-trivial = >= 4 integer digits or dec > 0")
	ev.Check(t, 40000, func(t *rapid.T) {
		num := anyInt64().Draw(t, "num")
		dec := rapid.IntRange(0, 18).Draw(t, "dec")
		if rapid.IntRange(0, 9).Draw(t, "manydec") == 0 {
			dec = rapid.IntRange(19, 70).Draw(t, "decbig") // more decimals than the number has digits: zeros behind the decimal symbol
		}
		gs := rapid.IntRange(0, 6).Draw(t, "gs")
		g := rapid.SampledFrom(symbols).Draw(t, "g")
		d := rapid.SampledFrom(symbols).Draw(t, "d")
		if g == d {
			d = symbols[(indexOf(symbols, g)+1)%len(symbols)]
		}
		pre := prefix(t)
		keep := append([]byte(nil), pre...)
		out := strconv.AppendNumber(pre, num, dec, gs, g, d)
		got := checkPrefix(t, keep, out)
		desc := fmt.Sprintf("AppendNumber(%d, dec=%d, group=%d, %q, %q) = %q", num, dec, gs, g, d, got)
		if bytes.IndexByte(got, 0) >= 0 || bytes.IndexByte(got, 0xAA) >= 0 || !utf8.Valid(got) {
			t.Fatalf("%s: output contains bytes that were never written", desc)
		}
		n2, dec2, l := strconv.ParseNumber(got, g, d)
		if n2 != num || dec2 != dec || l != len(got) {
			t.Fatalf("%s; ParseNumber gives (%d, %d, %d), want (%d, %d, %d)", desc, n2, dec2, l, num, dec, len(got))
		}
		// structure: -? groups decSym decimals
		s := string(got)
		s = strings.TrimPrefix(s, "-")
		intPart := s
		if dec > 0 {
			i := strings.LastIndex(s, string(d))
			if i < 0 {
				t.Fatalf("%s: no decimal symbol", desc)
			}
			intPart = s[:i]
			if len(s[i+len(string(d)):]) != dec {
				t.Fatalf("%s: wrong number of decimals", desc)
			}
		}
		groups := []string{intPart}
		if gs > 0 {
			groups = strings.Split(intPart, string(g))
		}
		ndig := 0
		for i, grp := range groups {
			if grp == "" || strings.Trim(grp, "0123456789") != "" {
				t.Fatalf("%s: bad group %q", desc, grp)
			}
			if gs > 0 && ((i > 0 && len(grp) != gs) || len(grp) > gs) && len(groups) > 1 {
				t.Fatalf("%s: group %q does not have %d digits", desc, grp, gs)
			}
			if gs > 0 && len(groups) == 1 && len(grp) > gs {
				t.Fatalf("%s: %d digits without group symbol", desc, len(grp))
			}
			ndig += len(grp)
		}
		ev.Case("Number", fmt.Sprintf("%d/%d/%d/%c/%c", num, dec, gs, g, d), ndig >= 4 || dec > 0,
			fmt.Sprintf("symlen=%d+%d", utf8.RuneLen(g), utf8.RuneLen(d)), fmt.Sprintf("groupsize=%d", gs))
	})
}

func indexOf(rs []rune, r rune) int {
	for i, x := range rs {
		if x == r {
			return i
		}
	}
	return 0
}
