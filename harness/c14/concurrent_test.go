package c14

import (
	"fmt"
	"strings"
	"testing"

	"github.com/tdewolff/parse/v2/strconv"
	"pgregory.net/rapid"

	"verif/internal/ev"
	"verif/internal/gen"
)

// TestProp_Concurrent: the conversions are functions of their arguments, also while other goroutines convert other
// values with other symbols
func TestProp_Concurrent(t *testing.T) {
	ev.Describe("concurrent", "4-12 argument sets (int64, float64, decimals, group size, two symbols, a numeric text), each run 300 times through AppendNumber+ParseNumber, AppendFloat, AppendDecimal, AppendInt, ParseFloat, ParseDecimal, ParseInt, ParseUint, first one after the other and then by as many goroutines at once (3 rounds behind a barrier); oracle: every goroutine gets what the same calls return alone; non-trivial = >= 4 goroutines with different symbols")
	ev.Check(t, 150, func(t *rapid.T) {
		n := rapid.IntRange(4, 12).Draw(t, "goroutines")
		type args struct {
			num    int64
			f      float64
			dec    int
			gs     int
			g, d   rune
			text   string
			prefix []byte
		}
		as := make([]args, n)
		var key []string
		for i := range as {
			a := args{num: anyInt64().Draw(t, "num"), f: finiteFloat().Draw(t, "f"), dec: rapid.IntRange(0, 18).Draw(t, "dec"), gs: rapid.IntRange(0, 6).Draw(t, "gs"), text: floatLiteral().Draw(t, "text")}
			a.g = rapid.SampledFrom(symbols).Draw(t, "g")
			a.d = rapid.SampledFrom(symbols).Draw(t, "d")
			if a.g == a.d {
				a.d = symbols[(indexOf(symbols, a.g)+1)%len(symbols)]
			}
			as[i] = a
			key = append(key, fmt.Sprintf("%d/%v/%d/%d/%c/%c/%s", a.num, a.f, a.dec, a.gs, a.g, a.d, a.text))
		}
		bad, alone, together := gen.Concurrently(n, 3, func(i int) string {
			a := as[i]
			var sb strings.Builder
			for r := 0; r < 300; r++ {
				sb.Reset()
				out := strconv.AppendNumber(nil, a.num, a.dec, a.gs, a.g, a.d)
				n2, dec2, l := strconv.ParseNumber(out, a.g, a.d)
				fmt.Fprintf(&sb, "%q %d %d %d|", out, n2, dec2, l)
				fmt.Fprintf(&sb, "%q %q %q|", strconv.AppendFloat(nil, a.f, a.dec), strconv.AppendDecimal(nil, a.f, a.dec), strconv.AppendInt(nil, a.num))
				pf, pn := strconv.ParseFloat([]byte(a.text))
				pd, pdn := strconv.ParseDecimal([]byte(a.text))
				pi, pin := strconv.ParseInt([]byte(a.text))
				pu, pun := strconv.ParseUint([]byte(a.text))
				fmt.Fprintf(&sb, "%x %d %x %d %d %d %d %d", pf, pn, pd, pdn, pi, pin, pu, pun)
			}
			return sb.String()
		})
		if bad >= 0 {
			t.Fatalf("%s (with %d other goroutines at work):\nalone:    %s\ntogether: %s", key[bad], n-1, alone, together)
		}
		ev.Case("concurrent", strings.Join(key, " || "), n >= 4, fmt.Sprintf("goroutines=%d", n))
	})
}
