package c14

import (
	"testing"

	"verif/internal/ev"
)

// FuzzProp: coverage-guided fuzzing of this package's rapid properties (see ev.FuzzProp); thorough tier only.
func FuzzProp(f *testing.F) {
	ev.FuzzProp(f, map[string]func(*testing.T){
		"TestProp_AppendDecimal": TestProp_AppendDecimal,
		"TestProp_AppendFloat":   TestProp_AppendFloat,
		"TestProp_AppendInt":     TestProp_AppendInt,
		"TestProp_Number":        TestProp_Number,
		"TestProp_ParseDecimal":  TestProp_ParseDecimal,
		"TestProp_ParseFloat":    TestProp_ParseFloat,
		"TestProp_ParseInt":      TestProp_ParseInt,
		"TestProp_ParseUint":     TestProp_ParseUint,
	})
}
