package c14

import (
	"math"
	"testing"

	"github.com/tdewolff/parse/v2/strconv"
)

// Shrunk failures found by the generated checks on the pinned tree, replayed without the library.
// They are fixed by "fix:" commits in /repo (see KNOWN_FINDINGS.txt); if one returns, this fails.

type tfatal struct{ t *testing.T }

func (f tfatal) Fatalf(format string, args ...any) { f.t.Errorf(format, args...) }

func TestRegress_AppendFloat(t *testing.T) {
	for _, c := range []struct {
		f    float64
		prec int
	}{
		{123, 1}, {214.4, 1}, // D11: zeros appended behind a dot
		{99, 0}, {8388608, 2}, {0.09, 0}, {0.5, 0}, // D12: one significant digit lost
		{5e-324, 1}, {1e-300, 3}, {2.2e-308, 17}, // D13: Pow10 overflow
		{math.MaxFloat64, 18}, {1e35, 5},
	} {
		checkAppendFloat(tfatal{t}, c.f, c.prec, string(strconv.AppendFloat(nil, c.f, c.prec)))
	}
}

func TestRegress_AppendDecimal(t *testing.T) {
	for _, c := range []struct {
		f   float64
		dec int
	}{
		{-0.096, 6}, {-0.0625, 2}, {-0.001, 2}, // D8
		{1e300, 2}, {9.3e18, 0}, {-9.3e18, 0}, {1.4412841796875, -1}, {123456789012.345678, 17}, // D9
		{0.5, 0}, {2.5, 0}, {-0.125, 2},
	} {
		checkAppendDecimal(tfatal{t}, c.f, c.dec, string(strconv.AppendDecimal(nil, c.f, c.dec)))
	}
}

func TestRegress_AppendNumber(t *testing.T) {
	// D10
	got := strconv.AppendNumber(nil, 10, 0, 2, ' ', '.')
	if string(got) != "10" {
		t.Errorf("AppendNumber(10,0,2,NBSP,'.') = %q", got)
	}
	got = strconv.AppendNumber(nil, 123456, 0, 3, '٬', '٫')
	if string(got) != "123٬456" {
		t.Errorf("AppendNumber(123456,0,3) = %q", got)
	}
}

// 2d66a88: values that round to the largest float
func TestRegress_ParseFloatMax(t *testing.T) {
	for _, s := range []string{"1.7976931348623158e308", "-1.7976931348623158e308", "17976931348623158e292", "0.00017976931348623158e312", "1.7976931348623157e308"} {
		got, n := strconv.ParseFloat([]byte(s))
		if n != len(s) || math.Abs(got) != math.MaxFloat64 || (s[0] == '-') != (got < 0) {
			t.Errorf("ParseFloat(%q) = %v, %d", s, got, n)
		}
	}
	for _, s := range []string{"1.8e308", "1e309", "1.7977e308"} {
		if got, _ := strconv.ParseFloat([]byte(s)); !math.IsInf(got, 1) {
			t.Errorf("ParseFloat(%q) = %v, want +Inf", s, got)
		}
	}
}

func TestRegress_ParseFloat(t *testing.T) {
	for _, s := range []string{"41000e-321", "41000e-310", "5e-324", "9e-324", "1e-400", "123456789e-320"} {
		got, n := strconv.ParseFloat([]byte(s))
		if n != len(s) {
			t.Errorf("ParseFloat(%q) n=%d", s, n)
		}
		want := map[string]float64{"41000e-321": 4.1e-317, "41000e-310": 4.1e-306, "5e-324": 5e-324, "9e-324": 1e-323, "1e-400": 0, "123456789e-320": 1.23456789e-312}[s]
		if math.Abs(got-want) > 1e-14*math.Abs(want)+1e-323 {
			t.Errorf("ParseFloat(%q) = %v want %v", s, got, want)
		}
	}
}

// 1f93aef: an exponent of more digits than an int64 holds is an exponent
func TestRegress_ParseFloatHugeExponent(t *testing.T) {
	for _, c := range []struct {
		s    string
		want float64
		n    int
	}{
		{"1e99999999999999999999", math.Inf(1), 22}, {"2.5E+9223372036854775808", math.Inf(1), 24}, {"-3e+99999999999999999999", math.Inf(-1), 24},
		{"1e-99999999999999999999x", 0, 23}, {"0e99999999999999999999", 0, 22}, {"1e+", 1, 1},
	} {
		if got, n := strconv.ParseFloat([]byte(c.s)); got != c.want || n != c.n {
			t.Errorf("ParseFloat(%q) = %v, %d, want %v, %d", c.s, got, n, c.want, c.n)
		}
	}
}
