package c15

import (
	"bytes"
	"fmt"
	"io"
	"regexp"
	"strings"
	"testing"
	"testing/iotest"
	"unicode"
	"unicode/utf8"

	"github.com/tdewolff/parse/v2"
	"github.com/tdewolff/parse/v2/css"
	"github.com/tdewolff/parse/v2/html"
	"github.com/tdewolff/parse/v2/js"
	"github.com/tdewolff/parse/v2/json"
	"github.com/tdewolff/parse/v2/xml"
	"pgregory.net/rapid"

	"verif/internal/ev"
	"verif/internal/gen"
)

func TestMain(m *testing.M) { ev.Main(m, "C15") }

type fataler interface {
	Fatalf(format string, args ...any)
}

// ---------- reference: direct restatement of the property

// refPosition returns line, column, the runes of the line (up to \n, \r, U+2028, U+2029 or the end) counted from the
// line start, and whether the offset character exists on that line.
func refPosition(text []byte, offset int) (line, col int, lineRunes []rune) {
	if offset < 0 {
		offset = 0
	}
	if offset > len(text) {
		offset = len(text)
	}
	line = 1
	lineStart := 0
	i := 0
	for i < offset {
		r, n := utf8.DecodeRune(text[i:])
		isBreak := false
		if r == '\r' && i+1 < len(text) && text[i+1] == '\n' {
			n = 2
			isBreak = true
		} else if r == '\n' || r == '\r' || r == ' ' || r == ' ' {
			isBreak = true
		}
		if i+n > offset {
			break // the offset lies inside this character: it denotes the character
		}
		i += n
		if isBreak {
			line++
			lineStart = i
		}
	}
	col = utf8.RuneCount(text[lineStart:i]) + 1
	end := i
	for end < len(text) && text[end] != '\n' && text[end] != '\r' && !bytes.HasPrefix(text[end:], []byte("\u2028")) && !bytes.HasPrefix(text[end:], []byte("\u2029")) {
		end++
	}
	lineRunes = []rune(string(text[lineStart:end]))
	return
}

func mapRune(r rune) rune {
	if !unicode.IsGraphic(r) {
		return '·'
	}
	return r
}

// checkContext validates the two context lines against the property (relationally: any elision that keeps the
// offset character inside a window of roughly 60 characters, with the caret exactly under it, is accepted).
func checkContext(t fataler, desc string, line, col int, lineRunes []rune, context string) {
	parts := strings.Split(context, "\n")
	if len(parts) != 2 {
		t.Fatalf("%s: context does not have two lines: %q", desc, context)
	}
	prefix := fmt.Sprintf("%5d: ", line)
	if !strings.HasPrefix(parts[0], prefix) {
		t.Fatalf("%s: context %q does not start with %q", desc, parts[0], prefix)
	}
	S := []rune(parts[0][len(prefix):])
	caret := []rune(parts[1])
	if len(caret) == 0 || caret[len(caret)-1] != '^' || strings.Trim(string(caret[:len(caret)-1]), " ") != "" {
		t.Fatalf("%s: second context line is not spaces followed by a caret: %q", desc, parts[1])
	}
	idx := len(caret) - 1 - utf8.RuneCountInString(prefix) // rune index of the caret inside S
	mapped := make([]rune, len(lineRunes))
	for i, r := range lineRunes {
		mapped[i] = mapRune(r)
	}
	n := len(mapped)
	eq := func(a, b []rune) bool { return string(a) == string(b) }
	try := func(a, b int, front, rear bool) bool {
		if a < 0 || b > n || a > b {
			return false
		}
		want := []rune{}
		if front {
			want = append(want, []rune("...")...)
		}
		want = append(want, mapped[a:b]...)
		if rear {
			want = append(want, []rune("...")...)
		}
		if !eq(want, S) {
			return false
		}
		if front != (a > 0) || rear != (b < n) {
			return false
		}
		// the caret is exactly under the offset character (or just past the line when the offset is at its end)
		off := 0
		if front {
			off = 3
		}
		if idx != off+(col-1-a) {
			return false
		}
		if col-1 < a || col-1 > b || (col-1 == b && b < n) {
			return false
		}
		// elided "around the column": some context is kept on both sides
		left, right := col-1-a, b-col
		wantLeft, wantRight := col-1, n-col
		if wantLeft > 10 {
			wantLeft = 10
		}
		if wantRight > 10 {
			wantRight = 10
		}
		if left < wantLeft || right < wantRight {
			return false
		}
		if (front || rear) && (n <= 40 || len(S) > 66) {
			return false // short lines are shown whole; an elided line has roughly 60 characters
		}
		if !front && !rear && n > 80 {
			return false
		}
		return true
	}
	L := len(S)
	ok := try(0, n, false, false) || try(n-(L-3), n, true, false) || try(0, L-3, false, true)
	if !ok {
		a := 3 + col - 1 - idx
		ok = try(a, a+L-6, true, true)
	}
	if !ok {
		t.Fatalf("%s: context\n%s\ndoes not show the line %q (mapped %q) with the caret under column %d (caret at rune %d of %q)", desc, context, string(lineRunes), string(mapped), col, idx, string(S))
	}
}

// ---------- generator

var textFrags = []string{
	"a", "b", "word", " ", "\t", "x = 1;", "é", "ß", "€", "中", "😀", "é", " ", "​", "\x00", "\x01", "\x7f", "\u0085", "·", "...", "^",
	"\n", "\r", "\r\n", " ", " ", "\n\n", "\r\r\n", "\n\r", "\r\n\r\n",
}

func genText(t *rapid.T) []byte {
	var b []byte
	nl := rapid.IntRange(0, 5).Draw(t, "nlines")
	for i := 0; i <= nl; i++ {
		// a line of a length class around the elision thresholds
		target := rapid.SampledFrom([]int{0, 1, 5, 20, 38, 39, 40, 41, 42, 57, 58, 59, 60, 61, 62, 63, 64, 65, 80, 81, 120, 200}).Draw(t, "linelen")
		n := 0
		for n < target {
			f := rapid.SampledFrom(textFrags[:21]).Draw(t, "frag")
			b = append(b, f...)
			n += utf8.RuneCountInString(f)
		}
		if i < nl {
			b = append(b, rapid.SampledFrom(textFrags[21:]).Draw(t, "break")...)
		}
	}
	return b
}

func TestProp_Position(t *testing.T) {
	ev.Describe("position", "(the text is handed to Position through bytes.Reader, strings.Reader, bytes.Buffer, or readers that deliver one byte, 7 bytes or the last bytes together with io.EOF) valid-UTF-8 texts of 1-6 lines built from fragments (ASCII, 2-4 byte runes, combining marks, tabs, control characters, NUL) with line lengths drawn around the elision thresholds (0,1,38-42,57-65,80,81,120,200 runes) and all five break kinds in all adjacencies; offset in [-1, len+1] incl. every mid-rune and mid-CRLF offset; oracle: line/column by direct restatement of the property, context validated relationally (line prefix, window of the physical line containing the offset character, ellipses exactly where cut, middle dot for non-graphic runes, caret exactly under the character); non-trivial = >= 2 lines, or a multi-byte rune before the offset, or a line longer than 60")
	ev.Check(t, 30000, func(t *rapid.T) {
		text := genText(t)
		var offset int
		if rapid.IntRange(0, 9).Draw(t, "edge") == 0 {
			offset = rapid.SampledFrom([]int{-1, 0, len(text) - 1, len(text), len(text) + 1}).Draw(t, "edgeoff")
		} else {
			offset = rapid.IntRange(-1, len(text)+1).Draw(t, "offset")
		}
		var rd io.Reader = bytes.NewReader(text)
		how := rapid.SampledFrom([]string{"bytes.Reader", "bytes.Reader", "data+EOF", "one byte", "7 bytes", "bytes.Buffer", "strings.Reader"}).Draw(t, "reader")
		switch how {
		case "data+EOF":
			rd = iotest.DataErrReader(bytes.NewReader(text))
		case "one byte":
			rd = iotest.OneByteReader(bytes.NewReader(text))
		case "7 bytes":
			rd = &chunkReader{b: text, n: 7}
		case "bytes.Buffer":
			rd = bytes.NewBuffer(append([]byte(nil), text...))
		case "strings.Reader":
			rd = strings.NewReader(string(text))
		}
		line, col, context := parse.Position(rd, offset)
		wl, wc, lr := refPosition(text, offset)
		desc := fmt.Sprintf("Position(%q through %s, %d)", text, how, offset)
		if line != wl || col != wc {
			t.Fatalf("%s = line %d column %d, want line %d column %d", desc, line, col, wl, wc)
		}
		checkContext(t, desc, line, col, lr, context)
		o := offset
		if o < 0 {
			o = 0
		}
		if o > len(text) {
			o = len(text)
		}
		nt := wl >= 2 || len(lr) > 60 || utf8.RuneCount(text[:o]) != o
		ev.Case("position", fmt.Sprintf("%q@%d", text, offset), nt, fmt.Sprintf("lines=%d", min(wl, 4)), fmt.Sprintf("long=%v", len(lr) > 60))
	})
}

// chunkReader delivers n bytes per call and the last ones together with io.EOF
type chunkReader struct {
	b []byte
	n int
}

func (r *chunkReader) Read(p []byte) (int, error) {
	if len(r.b) == 0 {
		return 0, io.EOF
	}
	n := r.n
	if n > len(p) {
		n = len(p)
	}
	if n > len(r.b) {
		n = len(r.b)
	}
	copy(p, r.b[:n])
	r.b = r.b[n:]
	if len(r.b) == 0 {
		return n, io.EOF
	}
	return n, nil
}

func min(a, b int) int {
	if a < b {
		return a
	}
	return b
}

func TestProp_ManyLines(t *testing.T) {
	ev.Describe("manylines", "texts with 99990..100010 leading line breaks (the line number gets six digits) followed by a short line; oracle as for position; non-trivial = every case")
	ev.Check(t, 6, func(t *rapid.T) {
		n := rapid.IntRange(99990, 100010).Draw(t, "breaks")
		br := rapid.SampledFrom([]string{"\n", "\r\n", "\r"}).Draw(t, "break")
		text := []byte(strings.Repeat(br, n) + "abc def")
		offset := len(text) - rapid.IntRange(0, 7).Draw(t, "back")
		line, col, context := parse.Position(bytes.NewReader(text), offset)
		wl, wc, lr := refPosition(text, offset)
		desc := fmt.Sprintf("Position(%d x %q + \"abc def\", %d)", n, br, offset)
		if line != wl || col != wc {
			t.Fatalf("%s = line %d column %d, want line %d column %d", desc, line, col, wl, wc)
		}
		checkContext(t, desc, line, col, lr, context)
		ev.Case("manylines", fmt.Sprintf("%d/%q/%d", n, br, offset), true)
	})
}

// ---------- errors of the parsers are self-consistent and inside the input

func checkError(t fataler, who string, input []byte, err error) bool {
	return checkErrorIn(t, who, input, err, 0, len(input))
}

// checkErrorIn: the error's line, column and context are those of some offset inside [lo, hi] (the bytes the failing call
// worked on): an error that is self-consistent but belongs to another place of the input is wrong as well
func checkErrorIn(t fataler, who string, input []byte, err error, lo, hi int) bool {
	return checkErrorAt(t, who, input, err, lo, hi, nil)
}

// checkErrorAt: starts, when given, are the offsets at which a token that is not whitespace or a comment starts or ends
// (and the end of the input): the parser stops in front of or behind a token, not inside one nor inside the whitespace
// or comments between two
func checkErrorAt(t fataler, who string, input []byte, err error, lo, hi int, starts map[int]bool) bool {
	pe, ok := err.(*parse.Error)
	if !ok {
		return false
	}
	// the documented accessors give the same triple: Position() "returns the line, column, and context of the error",
	// Error() is "the error string, containing the context and line + column number"
	if l, c, ctx := pe.Position(); l != pe.Line || c != pe.Column || ctx != pe.Context {
		t.Fatalf("%s on %q: Error.Position() = (%d, %d, %q), the fields are (%d, %d, %q)", who, input, l, c, ctx, pe.Line, pe.Column, pe.Context)
	}
	if s := pe.Error(); !strings.Contains(s, pe.Message) || !strings.Contains(s, pe.Context) || !strings.Contains(s, fmt.Sprintf("line %d ", pe.Line)) || !strings.Contains(s, fmt.Sprintf("column %d\n", pe.Column)) {
		t.Fatalf("%s on %q: Error() = %q does not contain the message %q, line %d, column %d and the context %q", who, input, s, pe.Message, pe.Line, pe.Column, pe.Context)
	}
	found := -1
	for o := 0; o <= len(input); o++ {
		l, c, ctx := parse.Position(bytes.NewReader(input), o)
		if l == pe.Line && c == pe.Column && ctx == pe.Context {
			found = o
			if o >= lo && o <= hi && (starts == nil || starts[o]) {
				return true
			}
		}
		if l > pe.Line {
			break
		}
	}
	if found >= 0 {
		t.Fatalf("%s on %q: error %q carries line %d column %d, the position of offset %d, but the failing call worked on the bytes [%d,%d]", who, input, pe.Message, pe.Line, pe.Column, found, lo, hi)
	}
	t.Fatalf("%s on %q: error %q carries line %d column %d context %q, which Position computes for no offset inside the input", who, input, pe.Message, pe.Line, pe.Column, pe.Context)
	return true
}

// errorOffset: the smallest offset of input for which Position gives the line, column and context of the error (-1: none)
func errorOffset(input []byte, pe *parse.Error) int {
	for o := 0; o <= len(input); o++ {
		l, c, ctx := parse.Position(bytes.NewReader(input), o)
		if l == pe.Line && c == pe.Column && ctx == pe.Context {
			return o
		}
		if l > pe.Line {
			break
		}
	}
	return -1
}

func cssTokenStarts(input []byte) map[int]bool {
	starts := map[int]bool{len(input): true}
	l := css.NewLexer(parse.NewInputBytes(append([]byte(nil), input...)))
	off := 0 // the css tokens tile the input
	for {
		tt, data := l.Next()
		if tt == css.ErrorToken {
			return starts
		}
		if tt != css.WhitespaceToken && tt != css.CommentToken {
			starts[off] = true
			starts[off+len(data)] = true // ("unexpected ending" is reported behind the token)
		}
		off += len(data)
	}
}

var errFrags = map[string][]string{
	"css":  {"a", "{", "}", ":", ";", "(", ")", "[", "]", "@media", "@x", "b:c", "\n", " ", "/*", "*/", "*", "* ", "*\n\n  ", "*/*c*/", ";;", "\"", "'", "url(", "\\", "é", "#", ",", "!important", "\x00", "--x", "<!--", "@MEDIA", "@Supports ", "@Font-Face", "COLOR:", "DIV", "A"},
	"json": {"{", "}", "[", "]", ",", ":", `"a"`, `"`, "1", "-", "true", "nul", " ", "\n", "\x00", "é", "x", "@", "\r\n"},
	"xml":  {" b='c\nd'", " e=\"f\tg\r\nh\"", "<a", ">", "/>", "</a>", " b='c'", " b=\"c\"", "<!--", "-->", "<![CDATA[", "]]>", "<?xml", "?>", "<!DOCTYPE", "[", "]", "text", "\n", "\x00", "é", " "},
	"html": {"<DIV", " CLASS=x", "</Svg>", "<SVG>", "<a", ">", "/>", "</a>", " b=c", "<svg>", "</svg>", "<math>", "</math>", "<script>", "</script>", "\"", "text", "\n", "\x00", "é", "<!--", "-->", "<xml>", "</xml>"},
	"js": {"a", "=", "1", ";", "(", ")", "{", "}", "[", "]", "\n", " ", "@", "#", "\\", "`", "${", "'", "\"", "/", "/*", "*/", "//", "0x", "1n", "1a", "é", " ", "§", "\x01", "let", "function", "=>", "...", "?.", "~=", "class", "\x00", "\r\n", "if",
		// the errors that are raised with a message of their own (redeclaration, restricted productions, arrow parameters)
		"let a;", "let a", "const a=1;", "class a{}", "var a;", "throw\n", "if(x)let[", "(a+b)=>", "(1)=>", "function a(){}", "{", "}", "x=>"},
}

func TestProp_ParserErrors(t *testing.T) {
	ev.Describe("parsererrors", "valid-UTF-8 fragment strings per language (css, json, xml, html, js lexer, js parser x Options) incl. NUL, multi-byte runes and all line breaks; every *parse.Error obtained (css.Parser.Err, json.Parser.Err, xml/html Lexer.Err, js Lexer.Err, js.Parse) must equal Position(input, o) in line, column and context for some o in [0,len], for the css parser and the js lexer (which go on after an error) for some o inside the bytes that the failing call (css: and, because of the one-token look-ahead, the call before it) consumed; non-trivial = a *parse.Error was produced on an input with >= 2 lines or a multi-byte rune")
	_, k15 := ev.KnownFindings("C15")["K-C15-1"]
	ev.Check(t, 20000, func(t *rapid.T) {
		lang := rapid.SampledFrom([]string{"css", "json", "xml", "html", "js", "jsparse"}).Draw(t, "lang")
		fr := errFrags[lang]
		if lang == "jsparse" {
			fr = errFrags["js"]
		}
		n := rapid.IntRange(0, 14).Draw(t, "n")
		var input []byte
		for i := 0; i < n; i++ {
			input = append(input, rapid.SampledFrom(fr).Draw(t, "frag")...)
		}
		got := false
		// the input reaches the library in one of the ways a caller can supply it: in place inside a larger buffer that
		// goes on with other text, as a string, through readers
		in := func() *parse.Input {
			i, _, _ := gen.Supply(input, "@#<{\"'`\\")
			return i
		}
		budget := 4*len(input) + 16
		switch lang {
		case "css":
			p := css.NewParser(in(), rapid.Bool().Draw(t, "inline"))
			before, before2 := 0, 0
			for i := 0; i < budget; i++ {
				// the parser reads one token ahead: the unit that fails starts with a token read during the previous call
				before2, before = before, p.Offset()
				gt, _, _ := p.Next()
				if gt == css.ErrorGrammar {
					// every error is fetched, also a second one with the same message: it must be located in the unit that failed
					got = checkErrorAt(t, "css.Parser", input, p.Err(), before2, p.Offset(), cssTokenStarts(input)) || got
					if _, ok := p.Err().(*parse.Error); !ok {
						break
					}
				}
			}
		case "json":
			p := json.NewParser(in())
			for i := 0; i < budget; i++ {
				if gt, _ := p.Next(); gt == json.ErrorGrammar {
					got = checkError(t, "json.Parser", input, p.Err())
					break
				}
			}
		case "xml":
			xin := in()
			l := xml.NewLexer(xin)
			for i := 0; i < budget; i++ {
				if tt, _ := l.Next(); tt == xml.ErrorToken {
					if k15 && !bytes.Equal(xin.Bytes(), input) {
						// K-C15-1: the lexer has normalised attribute values in its buffer, the error is positioned on that
						ev.Excluded("parsererrors", "K-C15-1")
						break
					}
					got = checkError(t, "xml.Lexer", input, l.Err())
					break
				}
			}
		case "html":
			hin := in()
			l := html.NewLexer(hin)
			for i := 0; i < budget; i++ {
				if tt, _ := l.Next(); tt == html.ErrorToken {
					if k15 && !bytes.Equal(hin.Bytes(), input) {
						// K-C15-1: the lexer has lower-cased names in its buffer, the context shows that
						ev.Excluded("parsererrors", "K-C15-1")
						break
					}
					got = checkError(t, "html.Lexer", input, l.Err())
					break
				}
			}
		case "js":
			l := js.NewLexer(in())
			jin := in()
			l = js.NewLexer(jin)
			for i := 0; i < budget; i++ {
				before := jin.Offset()
				tt, data := l.Next()
				if tt == js.ErrorToken {
					got = checkErrorIn(t, "js.Lexer", input, l.Err(), before, jin.Offset()) || got
					if data == nil {
						break
					}
				}
			}
		case "jsparse":
			o := js.Options{WhileToFor: rapid.Bool().Draw(t, "w2f"), Inline: rapid.Bool().Draw(t, "inline")}
			_, err := js.Parse(in(), o)
			if err != nil {
				got = checkError(t, "js.Parse", input, err)
				// metamorphic: behind a harmless statement and some lines the same error is reported that much further
				// down (an error that carries no position of its own, or a stale one, stays where it was)
				prefix := rapid.SampledFrom([]string{"x;\n", ";\n\n  ", "y = 1;\r\n\t", "z;\u2028"}).Draw(t, "prefix")
				if pe, ok := err.(*parse.Error); ok && !bytes.HasPrefix(input, []byte("#!")) {
					_, err2 := js.Parse(parse.NewInputBytes(append([]byte(prefix), input...)), o)
					if pe2, ok := err2.(*parse.Error); ok && pe2.Message == pe.Message {
						o1, o2 := errorOffset(input, pe), errorOffset(append([]byte(prefix), input...), pe2)
						if o1 >= 0 && o2 != o1+len(prefix) {
							t.Fatalf("js.Parse on %q: %q is reported at offset %d (line %d column %d); with %q in front of the input it is reported at offset %d (line %d column %d), not %d further", input, pe.Message, o1, pe.Line, pe.Column, prefix, o2, pe2.Line, pe2.Column, len(prefix))
						}
					}
				}
			}
		}
		multi := bytes.ContainsAny(input, "\n\r") || utf8.RuneCount(input) != len(input)
		ev.Case("parsererrors", lang+"|"+string(input), got && multi, "lang="+lang, fmt.Sprintf("error=%v", got))
	})
}

// ---------- a single illegal character inserted between two tokens is located exactly

var jsStatements = [][]string{
	{"var", "a", "=", "1", ";"},
	{"let", "b", "=", "a", "+", "2", "*", "(", "c", "-", "3", ")", ";"},
	{"if", "(", "a", ")", "{", "b", "(", ")", ";", "}", "else", "{", "c", "=", "[", "1", ",", "2", "]", ";", "}"},
	{"function", "f", "(", "x", ",", "y", ")", "{", "return", "x", ";", "}"},
	{"for", "(", "var", "i", "=", "0", ";", "i", "<", "3", ";", "i", "++", ")", "{", "a", "(", "i", ")", ";", "}"},
	{"x", "=", "{", "a", ":", "1", ",", "b", ":", "\"s\"", "}", ";"},
	{"a", "=", "b", "?", "c", ":", "d", ";"},
	{"class", "A", "{", "m", "(", ")", "{", "}", "}"},
	{"x", "=", "y", "=>", "y", ";"},
	{"while", "(", "a", ")", "{", "break", ";", "}"},
	{"try", "{", "a", "(", ")", ";", "}", "catch", "(", "e", ")", "{", "}", "finally", "{", "}"},
	{"a", "=", "`t${", "b", "}u`", ";"},
	{"a", ".", "b", "[", "c", "]", "(", "d", ")", ";"},
	{"a", "=", "/re/g", ";"},
	{"é", "=", "'中'", ";"},
	{"do", "{", "a", "--", ";", "}", "while", "(", "a", ">", "0", ")", ";"},
	{"switch", "(", "a", ")", "{", "case", "1", ":", "b", ";", "default", ":", "c", ";", "}"},
	{"a", "=", "async", "function", "*", "(", ")", "{", "yield", "1", ";", "}", ";"},
	{"a", "?.", "b", "??", "c", ";"},
	{"label", ":", "for", "(", "const", "k", "of", "a", ")", "{", "continue", "label", ";", "}"},
}

var escapeStart = regexp.MustCompile(`^u([0-9a-fA-F]{4}|\{)`)

func TestProp_Insertion(t *testing.T) {
	ev.Describe("insertion", "JS programs assembled from 1-5 statements of a 20-row token table (separators space/tab/newline/U+2028/comment between tokens) and JSON documents from the grammar generator, (identifiers optionally renamed to u-names such as ucfirst, ud, u8) with one illegal character from {@, U+0001, section sign, backslash+space, #+space, a bare backslash directly in front of the token} (JS) / {@, #, ', x, U+0001, section sign, U+FEFF (not at the start), U+00A0, U+2028, U+2029, FF, VT, U+0085, U+3000, U+200B} (JSON) inserted at a token boundary outside literals and comments; oracle: the first error's (Line, Column) == Position(text, insertion offset) computed by the harness reference; non-trivial = insertion not at offset 0 and text with >= 2 lines or a multi-byte rune before the insertion")
	ev.Check(t, 10000, func(t *rapid.T) {
		var pieces []string // tokens and separators; insertion happens before pieces[at] where that is a token
		var tokenIdx []int
		isJS := rapid.Bool().Draw(t, "js")
		if isJS {
			ns := rapid.IntRange(1, 5).Draw(t, "nstmt")
			order := rapid.Permutation(jsStatements).Draw(t, "stmts") // each row at most once: no duplicate declarations
			// identifiers that look like the start of a unicode escape when a backslash lands in front of them
			rename := map[string]string{}
			if rapid.Bool().Draw(t, "unames") {
				rename = map[string]string{"a": "ucfirst", "b": "ud", "c": "u8", "x": "uab", "y": "u", "d": "ufa1", "i": "u_", "f": "uF"}
			}
			for s := 0; s < ns; s++ {
				st := order[s]
				for i, tok := range st {
					if r, ok := rename[tok]; ok {
						tok = r
					}
					if i > 0 || s > 0 {
						sep := rapid.SampledFrom([]string{" ", " ", "\t", "  ", " /*c*/ ", "\n", " ", "\r\n"}).Draw(t, "sep")
						// line terminators are only safe where ASI cannot strike: keep them between statements
						if i > 0 && (sep == "\n" || sep == " " || sep == "\r\n") {
							sep = " "
						}
						pieces = append(pieces, sep)
					}
					tokenIdx = append(tokenIdx, len(pieces))
					pieces = append(pieces, tok)
				}
			}
		} else {
			g := gen.GenJSON(t)
			for _, k := range g.Toks {
				if k.Kind != 'w' {
					tokenIdx = append(tokenIdx, len(pieces))
				}
				pieces = append(pieces, k.Text)
			}
		}
		at := rapid.SampledFrom(tokenIdx).Draw(t, "at")
		var bad string
		if isJS {
			bad = rapid.SampledFrom([]string{"@", "\x01", "§", "\\ ", "# ", "\\", "\\"}).Draw(t, "bad")
			if bad == "\\" && escapeStart.MatchString(pieces[at]) {
				bad = "\\ " // a backslash in front of uXXXX or u{ would be a (possibly legal) unicode escape
			}
			// a template continuation token must directly follow its substitution: no insertion in front of it
			if strings.HasPrefix(pieces[at], "}") && strings.HasSuffix(pieces[at], "`") {
				t.Skip("inside a template literal")
			}
		} else {
			// also the characters that are white space in other languages (JSON knows space, tab, LF and CR only)
			bad = rapid.SampledFrom([]string{"@", "#", "'", "x", "\x01", "§", "\ufeff", "\u00a0", "\u2028", "\u2029", "\f", "\v", "\u0085", "\u3000", "\u200b"}).Draw(t, "bad")
			if bad == "\ufeff" && at == tokenIdx[0] {
				bad = "\u00a0" // a byte order mark at the very start of a text is not an illegal character
			}
		}
		var sb strings.Builder
		off := 0
		for i, p := range pieces {
			if i == at {
				off = sb.Len()
				sb.WriteString(bad)
			}
			sb.WriteString(p)
		}
		text := []byte(sb.String())
		var err error
		if isJS {
			_, err = js.Parse(parse.NewInputBytes(append([]byte(nil), text...)), js.Options{Inline: rapid.Bool().Draw(t, "inline")})
		} else {
			p := json.NewParser(parse.NewInputBytes(append([]byte(nil), text...)))
			for i := 0; i < 2*len(text)+8; i++ {
				if gt, _ := p.Next(); gt == json.ErrorGrammar {
					err = p.Err()
					break
				}
			}
		}
		pe, ok := err.(*parse.Error)
		if !ok {
			t.Fatalf("%q with %q inserted at %d: no parse error (err = %v)", text, bad, off, err)
		}
		wl, wc, _ := refPosition(text, off)
		if pe.Line != wl || pe.Column != wc {
			t.Fatalf("%q with %q inserted at offset %d (line %d column %d): the error %q is reported at line %d column %d\n%s", text, bad, off, wl, wc, pe.Message, pe.Line, pe.Column, pe.Context)
		}
		multi := bytes.ContainsAny(text[:off], "\n\r") || bytes.Contains(text[:off], []byte(" ")) || utf8.RuneCount(text[:off]) != off
		ev.Case("insertion", string(text), off > 0 && multi, fmt.Sprintf("js=%v", isJS), "bad="+fmt.Sprintf("%q", bad))
	})
}
