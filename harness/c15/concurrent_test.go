package c15

import (
	"bytes"
	"fmt"
	"strings"
	"testing"

	"github.com/tdewolff/parse/v2"
	"pgregory.net/rapid"

	"verif/internal/ev"
	"verif/internal/gen"
)

// TestProp_Concurrent: Position is a function of the text and the offset, also while other goroutines ask for other positions
func TestProp_Concurrent(t *testing.T) {
	ev.Describe("concurrent", "4-12 generated texts with an offset each, Position and NewError called 300 times over first one after the other and then by as many goroutines at once (3 rounds behind a barrier); oracle: every goroutine gets the line, column and context that the same call returns alone; non-trivial = >= 4 goroutines")
	ev.Check(t, 150, func(t *rapid.T) {
		n := rapid.IntRange(4, 12).Draw(t, "goroutines")
		texts := make([][]byte, n)
		offs := make([]int, n)
		var key []string
		for i := range texts {
			texts[i] = genText(t)
			offs[i] = rapid.IntRange(0, len(texts[i])).Draw(t, "offset")
			key = append(key, fmt.Sprintf("%q@%d", texts[i], offs[i]))
		}
		bad, alone, together := gen.Concurrently(n, 3, func(i int) string {
			s := ""
			for r := 0; r < 300; r++ {
				l, c, ctx := parse.Position(bytes.NewReader(texts[i]), offs[i])
				e := parse.NewError(bytes.NewReader(texts[i]), offs[i], "m%d", i)
				s = fmt.Sprintf("%d:%d %q | %s", l, c, ctx, e.Error())
			}
			return s
		})
		if bad >= 0 {
			t.Fatalf("%s (with %d other goroutines at work):\nalone:    %s\ntogether: %s", key[bad], n-1, alone, together)
		}
		ev.Case("concurrent", strings.Join(key, " || "), n >= 4, fmt.Sprintf("goroutines=%d", n))
	})
}
