package c15

import (
	"strings"
	"testing"

	"github.com/tdewolff/parse/v2"
	"github.com/tdewolff/parse/v2/html"
	"github.com/tdewolff/parse/v2/xml"

	"verif/internal/ev"
)

// K-C15-1 (KNOWN_FINDINGS.txt): the xml and html lexers normalise the text in their buffer (tab, CR and LF inside quoted
// attribute values become spaces; tag and attribute names are lower-cased) and position their errors on that buffer: the
// line is counted without the line breaks that were overwritten, the context shows the changed text
func TestKnown_ErrorsOnNormalisedBuffer(t *testing.T) {
	src := "<a b=\"x\ny\">\x00</a>"
	l := xml.NewLexer(parse.NewInputString(src))
	var pe *parse.Error
	for i := 0; i < 10; i++ {
		if tt, _ := l.Next(); tt == xml.ErrorToken {
			pe, _ = l.Err().(*parse.Error)
			break
		}
	}
	hsrc := "<DIV CLASS=x><svg>\x00"
	hl := html.NewLexer(parse.NewInputString(hsrc))
	var hpe *parse.Error
	for i := 0; i < 10; i++ {
		if tt, _ := hl.Next(); tt == html.ErrorToken {
			hpe, _ = hl.Err().(*parse.Error)
			break
		}
	}
	wl, wc, _ := parse.Position(strings.NewReader(src), 12)
	_, _, hctx := parse.Position(strings.NewReader(hsrc), 18)
	bad := pe != nil && (pe.Line != wl || pe.Column != wc) || hpe != nil && hpe.Context != hctx
	if !bad {
		return // repaired
	}
	if _, listed := ev.KnownFindings("C15")["K-C15-1"]; listed {
		ev.ReportKnown("C15", "K-C15-1", "the NUL in \"<a b=\\\"x\\ny\\\">\\x00</a>\" (line 2 column 4) is reported by the xml lexer at line 1 column 12, the context of the html lexer's error in \"<DIV CLASS=x><svg>\\x00\" shows <div class=x>: errors are positioned on the buffer the lexer has normalised")
	} else {
		t.Errorf("K-C15-1: xml error at %d:%d (want %d:%d), html context %q (want %q)", pe.Line, pe.Column, wl, wc, hpe.Context, hctx)
	}
}
