package c15

import (
	"testing"

	"verif/internal/ev"
)

// FuzzProp: coverage-guided fuzzing of this package's rapid properties (see ev.FuzzProp); thorough tier only.
func FuzzProp(f *testing.F) {
	ev.FuzzProp(f, map[string]func(*testing.T){
		"TestProp_Insertion":    TestProp_Insertion,
		"TestProp_ManyLines":    TestProp_ManyLines,
		"TestProp_ParserErrors": TestProp_ParserErrors,
		"TestProp_Position":     TestProp_Position,
	})
}
