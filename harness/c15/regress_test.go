package c15

import (
	"bytes"
	"strings"
	"testing"

	"github.com/tdewolff/parse/v2"
	"github.com/tdewolff/parse/v2/js"
)

type tf struct{ t *testing.T }

func (f tf) Fatalf(format string, args ...any) { f.t.Errorf(format, args...) }

// D22 (fixed): caret one column off from line 100000 on
func TestRegress_SixDigitLine(t *testing.T) {
	text := []byte(strings.Repeat("\n", 99999) + "abc def")
	off := len(text) - 1
	line, col, ctx := parse.Position(bytes.NewReader(text), off)
	wl, wc, lr := refPosition(text, off)
	if line != wl || col != wc {
		t.Fatalf("line %d col %d, want %d %d", line, col, wl, wc)
	}
	checkContext(tf{t}, "six-digit line", line, col, lr, ctx)
}

// D23 (fixed with D1): '#' between tokens was reported one character late
func TestRegress_HashPosition(t *testing.T) {
	text := "var a = 1 ; # x = 2 ;"
	_, err := js.Parse(parse.NewInputString(text), js.Options{})
	pe, ok := err.(*parse.Error)
	if !ok {
		t.Fatalf("no parse error: %v", err)
	}
	if pe.Line != 1 || pe.Column != strings.Index(text, "#")+1 {
		t.Fatalf("'#' at column %d reported at line %d column %d", strings.Index(text, "#")+1, pe.Line, pe.Column)
	}
}
