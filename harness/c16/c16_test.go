package c16

import (
	"bytes"
	"encoding/base64"
	"fmt"
	"mime"
	"net/url"
	"regexp"
	"strings"
	"testing"

	"github.com/tdewolff/parse/v2"
	"github.com/tdewolff/parse/v2/css"
	"github.com/tdewolff/parse/v2/html"
	"pgregory.net/rapid"

	"verif/internal/ev"
	"verif/internal/gen"
)

func TestMain(m *testing.M) { ev.Main(m, "C16") }

var (
	numberRe = regexp.MustCompile(`^[+-]?([0-9]+(\.[0-9]+)?|\.[0-9]+)([eE][+-]?[0-9]+)?`)
	unitRe   = regexp.MustCompile(`^(%|[A-Za-z]+)`)
)

func init() { numberRe.Longest(); unitRe.Longest() }

var numFrags = []string{"0", "1", "9", "12", "007", "+", "-", ".", "..", "e", "E", "e+", "e-", "E+", "%", "px", "em", "e1", "x", " ", "1.", ".5", "1e", "1e+", "1.5e-3", "é", "\x00"}

func TestProp_NumberDimension(t *testing.T) {
	ev.Describe("number", "strings of 0-8 fragments around the number syntax boundaries (signs, dots, dangling e/E, units, %), 1/10 raw bytes; oracle: Number == length of the longest prefix matching the documented regexp (regexp.Longest), Dimension == (that, length of a following % or [A-Za-z]+), input unchanged; non-trivial = a number is matched and followed by something, or a boundary fragment (dangling . or e) is present")
	ev.Check(t, 40000, func(t *rapid.T) {
		b := gen.Fragments(t, "frag", numFrags, 8)
		if rapid.Bool().Draw(t, "lead") {
			b = append([]byte(rapid.SampledFrom([]string{"1", "-1", "+.5", "12.5", "3e", "0.", "7e+", "1e5", "-.0e-0"}).Draw(t, "num")), b...)
		}
		in, backing := gen.WithSpare(t, b)
		snap := append([]byte(nil), backing...)
		got := parse.Number(in)
		want := len(numberRe.Find(b))
		if got != want {
			t.Fatalf("Number(%q) = %d, the longest prefix matching the documented syntax has length %d", b, got, want)
		}
		gn, gu := parse.Dimension(in)
		wu := 0
		if want > 0 {
			wu = len(unitRe.Find(b[want:]))
		}
		if gn != want || gu != wu {
			t.Fatalf("Dimension(%q) = (%d,%d), want (%d,%d)", b, gn, gu, want, wu)
		}
		if !bytes.Equal(backing, snap) {
			t.Fatalf("Number/Dimension modified their argument %q", b)
		}
		s := string(b)
		boundary := strings.Contains(s, "e") || strings.Contains(s, "E") || strings.Contains(s, ".")
		ev.Case("number", s, want > 0 && (want < len(b) || boundary), fmt.Sprintf("matched=%v", want > 0), fmt.Sprintf("unit=%v", wu > 0))
	})
}

var urlFrags = []string{"a", "Z", "0", " ", "+", "%", "%2", "%20", "%2B", "%2b", "%zz", "%e2%ad%90", "%E2", "/", "?", "&", "=", "#", "~", "-", "_", ".", "é", "\x00", "\x7f", "\xff", "<", ">", "\"", "'", "%%", "%%41", "%4"}

func TestProp_URL(t *testing.T) {
	ev.Describe("url", "byte strings of 0-10 fragments (percent sequences valid/invalid/truncated, +, space, reserved and non-ASCII bytes) x both encoding tables and tables of the caller's own (any bytes marked, letters and % included) x spare capacity; oracle: EncodeURL == per-byte reference (%XX upper-case for flagged bytes), DecodeURL(EncodeURL(b, URLEncodingTable)) == b, DecodeURL(s) == url.QueryUnescape(s) whenever that succeeds, and no byte before the slice or other than the documented in-place region is touched; non-trivial = >= 1 byte that needs escaping or a % in the input")
	ev.Check(t, 40000, func(t *rapid.T) {
		b := gen.Fragments(t, "frag", urlFrags, 10)
		useData := rapid.Bool().Draw(t, "dataTable")
		table := parse.URLEncodingTable
		if useData {
			table = parse.DataURIEncodingTable
		}
		custom := rapid.IntRange(0, 3).Draw(t, "customTable") == 0
		if custom {
			// a table of the caller's own: any set of bytes, letters, digits (also the hexadecimal ones) and % included
			useData = true // no DecodeURL round trip: it is defined for the standard table
			for k := rapid.IntRange(1, 6).Draw(t, "nmarks"); k > 0; k-- {
				// (no decimal digits: an implementation that looks at its own output again, as the library did before
				// 2fc1837, would not terminate on them, and a check that hangs decides nothing)
				c := rapid.SampledFrom([]byte("azAZ%EFBCDef +~-/\x00\xff\x80é")).Draw(t, "mark")
				table[c] = rapid.Bool().Draw(t, "marked")
			}
			if rapid.IntRange(0, 3).Draw(t, "alltable") == 0 {
				for c := range table {
					table[c] = c < '0' || c > '9'
				}
			}
		}
		var want []byte
		esc := 0
		for _, c := range b {
			if table[c] {
				want = append(want, '%', "0123456789ABCDEF"[c>>4], "0123456789ABCDEF"[c&15])
				esc++
			} else {
				want = append(want, c)
			}
		}
		in, _ := gen.WithSpare(t, b)
		got := parse.EncodeURL(in, table)
		if !bytes.Equal(got, want) {
			t.Fatalf("EncodeURL(%q, dataURI=%v) = %q, want %q", b, useData, got, want)
		}
		if rapid.IntRange(0, 399).Draw(t, "megabyte") == 0 {
			// 256 KiB - 1 MiB of bytes that need no escape with the fragments at five places (the function moves the
			// rest of the text for every escape: a long text full of escapes would take minutes), spare capacity of
			// every kind
			n := rapid.SampledFrom([]int{1 << 18, 1<<18 + 1, 1 << 19, 1 << 20}).Draw(t, "biglen")
			var bigIn, bigWant []byte
			for k := 0; k < 5; k++ {
				fill := bytes.Repeat([]byte("0123456789012345"), n/80) // digits: no table of this check marks them
				bigIn, bigWant = append(append(bigIn, b...), fill...), append(append(bigWant, want...), fill...)
			}
			spare := rapid.SampledFrom([]int{0, 4, 6, 64, 2 * len(bigIn)}).Draw(t, "bigspare")
			bigIn = append(make([]byte, 0, len(bigIn)+spare), bigIn...)
			if bigGot := parse.EncodeURL(bigIn, table); !bytes.Equal(bigGot, bigWant) {
				i := 0
				for i < len(bigGot) && i < len(bigWant) && bigGot[i] == bigWant[i] {
					i++
				}
				t.Fatalf("EncodeURL(%q between runs of %d digits, spare capacity %d): %d bytes, want %d, first difference at %d", b, n/5, spare, len(bigGot), len(bigWant), i)
			}
		}
		if !useData {
			back := parse.DecodeURL(append([]byte(nil), got...))
			if !bytes.Equal(back, b) {
				t.Fatalf("DecodeURL(EncodeURL(%q)) = %q", b, back)
			}
		}
		// DecodeURL on the raw fragments
		in2, backing2 := gen.WithSpare(t, b)
		guard := append([]byte(nil), backing2[len(b):]...)
		dec := parse.DecodeURL(in2)
		if ref, err := url.QueryUnescape(string(b)); err == nil {
			if string(dec) != ref {
				t.Fatalf("DecodeURL(%q) = %q, url.QueryUnescape gives %q", b, dec, ref)
			}
		} else if len(dec) > len(b) {
			t.Fatalf("DecodeURL(%q) grew to %q", b, dec)
		}
		if !bytes.Equal(backing2[len(b):], guard) {
			t.Fatalf("DecodeURL(%q) wrote beyond its argument", b)
		}
		ev.Case("url", string(b), esc > 0 || bytes.IndexByte(b, '%') >= 0, fmt.Sprintf("dataTable=%v", useData), fmt.Sprintf("customTable=%v", custom))
	})
}

const tokenChars = "abcdefghijklmnopqrstuvwxyzABCDEFGHIJKLMNOPQRSTUVWXYZ0123456789!#$&-^_.+"

func token(t *rapid.T, label string, min, max int) string {
	return rapid.StringOfN(rapid.SampledFrom([]rune(tokenChars)), min, max, -1).Draw(t, label)
}

var heldPayload, heldPayloadCopy []byte
var heldURI string

func TestProp_DataURI(t *testing.T) {
	ev.Describe("datauri", "data:[type/subtype][;key=value]*[;base64],payload for arbitrary payload bytes (0-40) encoded with base64 (std, padded), full RFC 3986 percent-encoding or EncodeURL(URLEncodingTable / DataURIEncodingTable, which leaves '+' unescaped); oracle: (media type incl. parameters, or text/plain when absent; exact payload; nil). Negative: missing data: scheme or comma => ErrBadDataURI, corrupt base64 => base64.CorruptInputError; non-trivial = payload has a byte that needs escaping, or base64")
	ev.Check(t, 30000, func(t *rapid.T) {
		payload := rapid.SliceOfN(rapid.Byte(), 0, 40).Draw(t, "payload")
		mt := ""
		if ht := rapid.IntRange(0, 4).Draw(t, "hasType"); ht > 0 {
			if ht < 4 {
				mt = rapid.OneOf(rapid.SampledFrom([]string{"text/plain", "image/svg+xml", "application/x-foo.bar", "text/html"}),
					rapid.Custom(func(t *rapid.T) string { return token(t, "type", 1, 6) + "/" + token(t, "subtype", 1, 8) })).Draw(t, "mediatype")
			}
			// (ht == 4: parameters without a type: text/plain is understood, RFC 2397)
			np := rapid.IntRange(0, 2).Draw(t, "nparams")
			if ht == 4 && np == 0 {
				np = 1
			}
			for n := np; n > 0; n-- {
				k, v := token(t, "key", 1, 6), token(t, "value", 1, 6)
				if rapid.IntRange(0, 5).Draw(t, "reservedvalue") == 0 {
					// the marker word as the VALUE of a parameter (it stands behind '=', not behind ';')
					v = rapid.SampledFrom([]string{"base64", "base64", "base6", "base644"}).Draw(t, "rvalue")
				}
				if rapid.IntRange(0, 5).Draw(t, "reservedkey") == 0 {
					// the marker word as the NAME of an ordinary parameter (it is followed by '=', not by ';' or ',')
					k = rapid.SampledFrom([]string{"base64", "base64", "charset", "base64x", "xbase64"}).Draw(t, "rkey")
				}
				mt += ";" + k + "=" + v
			}
		}
		enc := rapid.SampledFrom([]string{"base64", "rfc3986", "urltable", "datatable"}).Draw(t, "encoding")
		uri := "data:" + mt
		needs := false
		switch enc {
		case "base64":
			uri += ";base64," + base64.StdEncoding.EncodeToString(payload)
			needs = true
		case "rfc3986":
			uri += ","
			for _, c := range payload {
				if c >= 'a' && c <= 'z' || c >= 'A' && c <= 'Z' || c >= '0' && c <= '9' || c == '-' || c == '.' || c == '_' || c == '~' {
					uri += string(rune(c))
				} else {
					uri += fmt.Sprintf("%%%02X", c)
					needs = true
				}
			}
		case "urltable":
			e := parse.EncodeURL(append([]byte(nil), payload...), parse.URLEncodingTable)
			needs = len(e) != len(payload)
			uri += "," + string(e)
		case "datatable":
			// (the table leaves '+' as it is: a plus sign stands for itself in a data URI)
			e := parse.EncodeURL(append([]byte(nil), payload...), parse.DataURIEncodingTable)
			needs = len(e) != len(payload)
			uri += "," + string(e)
		}
		gotMT, gotData, err := parse.DataURI([]byte(uri))
		if err != nil {
			t.Fatalf("DataURI(%q): %v", uri, err)
		}
		// what an earlier call returned is the caller's: it is still what it was after this call (no buffer handed out twice)
		if heldPayload != nil && !bytes.Equal(heldPayload, heldPayloadCopy) {
			t.Fatalf("the payload returned for %q reads %q after DataURI(%q), it was %q", heldURI, heldPayload, uri, heldPayloadCopy)
		}
		heldPayload, heldPayloadCopy, heldURI = gotData, append([]byte(nil), gotData...), uri
		wantMT := mt
		if strings.HasPrefix(mt, ";") {
			wantMT = "text/plain" + mt
		}
		if mt == "" {
			wantMT = "text/plain"
		}
		if string(gotMT) != wantMT {
			t.Fatalf("DataURI(%q) media type %q, want %q", uri, gotMT, wantMT)
		}
		// what is returned belongs to the caller: overwriting it must not change what a later call returns
		for i := range gotMT {
			gotMT[i] = 'X'
		}
		if !bytes.Equal(gotData, payload) {
			t.Fatalf("DataURI(%q) payload %q, want %q", uri, gotData, payload)
		}
		// negatives derived from the same URI
		if _, _, err := parse.DataURI([]byte(strings.TrimPrefix(uri, "data:"))); err != parse.ErrBadDataURI && !strings.HasPrefix(strings.TrimPrefix(uri, "data:"), "data:") {
			t.Fatalf("DataURI(%q) without scheme: err = %v, want ErrBadDataURI", strings.TrimPrefix(uri, "data:"), err)
		}
		if i := strings.IndexByte(uri, ','); i >= 0 && !strings.Contains(uri[:i], ",") {
			if _, _, err := parse.DataURI([]byte(uri[:i])); err != parse.ErrBadDataURI {
				t.Fatalf("DataURI(%q) without comma: err = %v, want ErrBadDataURI", uri[:i], err)
			}
		}
		if enc == "base64" && len(payload) > 0 {
			bad := "data:" + mt + ";base64," + "!" + base64.StdEncoding.EncodeToString(payload)
			if _, _, err := parse.DataURI([]byte(bad)); err == nil {
				t.Fatalf("DataURI(%q): corrupt base64 accepted", bad)
			} else if _, ok := err.(base64.CorruptInputError); !ok {
				t.Fatalf("DataURI(%q): err = %v, want a base64 decoding error", bad, err)
			}
		}
		ev.Case("datauri", uri, needs, "enc="+enc, fmt.Sprintf("hasType=%v", mt != ""))
	})
}

func TestProp_DataURIAny(t *testing.T) {
	frags := []string{"data:", "data", ":", ",", ";", "=", "base64", ";base64", "text/plain", " ", "%", "%41", "%4", "+", "a", "QQ==", "QQ=", "\x00", "é", "==",
		"\"", "\\", "=\"", "\"a;b\"", "a=\"b\\", "\t", "/", "*", "'", "(", "\\\\"}
	ev.Describe("datauri-any", "arbitrary fragment strings around the data: URI and media type syntax (quotes and backslashes at the end included), DataURI and Mediatype; oracle: no panic (arguments without spare capacity), result is (mediatype, data, nil) or (nil, nil, ErrBadDataURI / base64 error); inputs without the data: prefix or without a comma give ErrBadDataURI; non-trivial = starts with data:")
	ev.Check(t, 30000, func(t *rapid.T) {
		b := gen.Fragments(t, "frag", frags, 8)
		if rapid.IntRange(0, 9).Draw(t, "scheme") < 6 {
			b = append([]byte("data:"), b...)
		}
		// Mediatype on the same bytes, handed over without spare capacity (a read behind the argument panics)
		exact := append(make([]byte, 0, len(b)), b...)
		mtAny, params := parse.Mediatype(exact[:len(b):len(b)])
		// what it returns is the caller's: changed by the caller, the next call on the same bytes returns the same again
		mtCopy, paramsCopy := string(mtAny), map[string]string{}
		for k, v := range params {
			paramsCopy[k] = v
			delete(params, k)
		}
		if params != nil {
			params["q"] = "0.8"
		}
		exact2 := append(make([]byte, 0, len(b)), b...)
		mtAgain, paramsAgain := parse.Mediatype(exact2)
		same := string(mtAgain) == mtCopy && len(paramsAgain) == len(paramsCopy)
		for k, v := range paramsAgain {
			same = same && paramsCopy[k] == v
		}
		if !same {
			t.Fatalf("Mediatype(%q) gave (%q, %v); a second call, after the caller had changed the map it was given, gives (%q, %v)", b, mtCopy, paramsCopy, mtAgain, paramsAgain)
		}
		mt, data, err := parse.DataURI(append([]byte(nil), b...))
		if err != nil && (mt != nil || data != nil) {
			t.Fatalf("DataURI(%q) returns data together with error %v", b, err)
		}
		if !bytes.HasPrefix(b, []byte("data:")) || bytes.IndexByte(b, ',') < 0 {
			if err != parse.ErrBadDataURI {
				t.Fatalf("DataURI(%q): err = %v, want ErrBadDataURI", b, err)
			}
		} else if err != nil {
			if _, ok := err.(base64.CorruptInputError); !ok {
				t.Fatalf("DataURI(%q): unexpected error %v", b, err)
			}
		}
		ev.Case("datauri-any", string(b), bytes.HasPrefix(b, []byte("data:")), fmt.Sprintf("err=%v", err != nil))
	})
}

func TestProp_Mediatype(t *testing.T) {
	ev.Describe("mediatype", "type/subtype([ ]*;[ ]*key=value)*[ ]* from RFC token characters, no trailing ';', distinct keys, unquoted non-empty values, optional leading spaces; oracle: mime.ParseMediaType (type and keys compared case-insensitively, values exactly); non-trivial = >= 1 parameter")
	ev.Check(t, 30000, func(t *rapid.T) {
		typ := token(t, "type", 1, 8) + "/" + token(t, "subtype", 1, 10)
		s := strings.Repeat(" ", rapid.IntRange(0, 2).Draw(t, "lead")) + typ
		n := rapid.IntRange(0, 3).Draw(t, "nparams")
		keys := map[string]bool{}
		for i := 0; i < n; i++ {
			k := token(t, "key", 1, 8)
			if keys[strings.ToLower(k)] {
				continue
			}
			keys[strings.ToLower(k)] = true
			s += strings.Repeat(" ", rapid.SampledFrom([]int{0, 0, 0, 1, 2, 3}).Draw(t, "spbefore")) + ";" + strings.Repeat(" ", rapid.IntRange(0, 3).Draw(t, "sp")) + k + "=" + token(t, "value", 1, 8)
		}
		s += strings.Repeat(" ", rapid.SampledFrom([]int{0, 0, 0, 1, 2}).Draw(t, "trail"))
		wantType, wantParams, err := mime.ParseMediaType(s)
		if err != nil {
			t.Skip("the reference rejects it") // e.g. RFC 2231 continuations key*0: outside "well-formed unquoted values"
		}
		for k := range keys {
			if strings.Contains(k, "*") {
				t.Skip("RFC 2231 extended parameter")
			}
		}
		gotType, gotParams := parse.Mediatype([]byte(s))
		if !strings.EqualFold(string(gotType), wantType) {
			t.Fatalf("Mediatype(%q) type %q, mime.ParseMediaType gives %q", s, gotType, wantType)
		}
		if len(gotParams) != len(wantParams) {
			t.Fatalf("Mediatype(%q) params %v, mime.ParseMediaType gives %v", s, gotParams, wantParams)
		}
		for k, v := range gotParams {
			if wv, ok := wantParams[strings.ToLower(k)]; !ok || wv != v {
				t.Fatalf("Mediatype(%q) params %v, mime.ParseMediaType gives %v", s, gotParams, wantParams)
			}
		}
		// the map is the caller's: what the caller does with it changes nothing for the next call on the same text
		if gotParams != nil {
			for k := range gotParams {
				delete(gotParams, k)
			}
			gotParams["q"] = "0.8"
			_, again := parse.Mediatype([]byte(s))
			if len(again) != len(wantParams) {
				t.Fatalf("Mediatype(%q) a second time, after the caller changed the map it was given: %v, want %v", s, again, wantParams)
			}
			for k, v := range again {
				if wv, ok := wantParams[strings.ToLower(k)]; !ok || wv != v {
					t.Fatalf("Mediatype(%q) a second time, after the caller changed the map it was given: %v, want %v", s, again, wantParams)
				}
			}
		}
		ev.Case("mediatype", s, len(keys) > 0, fmt.Sprintf("params=%d", len(keys)))
	})
}

func asciiLower(b []byte) []byte {
	out := make([]byte, len(b))
	for i, c := range b {
		if c >= 'A' && c <= 'Z' {
			c += 'a' - 'A'
		}
		out[i] = c
	}
	return out
}

func isWS(c byte) bool { return c == ' ' || c == '\t' || c == '\n' || c == '\f' || c == '\r' }

func TestProp_Bytes(t *testing.T) {
	frags := []string{"a", "Z", "aZ", " ", "\t", "\n", "\r", "\f", "\v", "\x00", "é", "É", "\xC9", "[", "@", "`", "{", "K", "K", "0", "-"}
	ev.Describe("bytes", "all 256 byte values for IsWhitespace/IsNewline (exhaustive, every run) and fragment strings for EqualFold (lower-case target derived from the argument, equal/one-byte-different/length-different), ToLower (in place, non-ASCII untouched), TrimWhitespace, IsAllWhitespace, Copy; oracle: reference definitions over ASCII written in the harness and bytes.Trim/bytes.ToLower on ASCII; non-trivial = argument has >= 2 bytes incl. an upper-case letter or whitespace")
	for c := 0; c < 256; c++ {
		if parse.IsWhitespace(byte(c)) != isWS(byte(c)) {
			t.Fatalf("IsWhitespace(%#x) = %v", c, parse.IsWhitespace(byte(c)))
		}
		if parse.IsNewline(byte(c)) != (c == '\n' || c == '\r') {
			t.Fatalf("IsNewline(%#x) = %v", c, parse.IsNewline(byte(c)))
		}
	}
	ev.Check(t, 40000, func(t *rapid.T) {
		b := gen.Fragments(t, "frag", frags, 8)
		// EqualFold
		target := asciiLower(b)
		variant := rapid.IntRange(0, 3).Draw(t, "variant")
		want := true
		switch variant {
		case 1:
			if len(target) > 0 {
				i := rapid.IntRange(0, len(target)-1).Draw(t, "i")
				target[i] ^= byte(rapid.SampledFrom([]int{1, 0x20, 0x80, 0x40}).Draw(t, "flip"))
				want = bytes.Equal(asciiLower(b), target)
				if bytes.IndexFunc(target[i:i+1], func(r rune) bool { return r >= 'A' && r <= 'Z' }) >= 0 {
					t.Skip("target must be lower-case")
				}
			}
		case 2:
			target = append(target, 'x')
			want = false
		case 3:
			if len(target) > 0 {
				target = target[:len(target)-1]
				want = false
			}
		}
		if got := parse.EqualFold(b, target); got != want {
			t.Fatalf("EqualFold(%q, %q) = %v, want %v", b, target, got, want)
		}
		// ToLower in place: the argument is a window of a larger buffer at any alignment, the bytes around it (upper-case
		// letters: they would show) stay what they are; one argument in five is 32-300 bytes long
		lb := b
		if len(b) > 0 && rapid.IntRange(0, 4).Draw(t, "long") == 0 {
			lb = bytes.Repeat(b, 1+rapid.IntRange(32, 300).Draw(t, "longlen")/len(b))
		}
		k := rapid.IntRange(0, 17).Draw(t, "windowoffset")
		backing := bytes.Repeat([]byte("QWERTY[UIOP@ASDF"), 5+len(lb)/16)[:k+len(lb)+24]
		copy(backing[k:], lb)
		around := append(append([]byte(nil), backing[:k]...), backing[k+len(lb):]...)
		in := backing[k : k+len(lb)]
		low := parse.ToLower(in)
		if !bytes.Equal(low, asciiLower(lb)) || (len(lb) > 0 && &low[0] != &in[0]) {
			t.Fatalf("ToLower(%q) = %q (in place: %v)", lb, low, len(lb) == 0 || &low[0] == &in[0])
		}
		if now := append(append([]byte(nil), backing[:k]...), backing[k+len(lb):]...); !bytes.Equal(now, around) {
			t.Fatalf("ToLower(%d bytes at offset %d of a buffer) changed the bytes around its argument: %q -> %q", len(lb), k, around, now)
		}
		// TrimWhitespace / IsAllWhitespace / Copy
		tw := parse.TrimWhitespace(b)
		if ref := bytes.Trim(b, " \t\n\f\r"); !bytes.Equal(tw, ref) {
			t.Fatalf("TrimWhitespace(%q) = %q, want %q", b, tw, ref)
		}
		all := true
		for _, c := range b {
			all = all && isWS(c)
		}
		if parse.IsAllWhitespace(b) != all {
			t.Fatalf("IsAllWhitespace(%q) = %v", b, !all)
		}
		cp := parse.Copy(b)
		if !bytes.Equal(cp, b) || (len(b) > 0 && &cp[0] == &b[0]) {
			t.Fatalf("Copy(%q) = %q (aliased: %v)", b, cp, len(b) > 0 && &cp[0] == &b[0])
		}
		nt := len(b) >= 2 && (bytes.ContainsAny(b, "AZK \t\n\r\f"))
		ev.Case("bytes", fmt.Sprintf("%q/%q", b, target), nt, fmt.Sprintf("variant=%d", variant))
	})
}

var cssHashes = map[string]css.Hash{"document": css.Document, "font-face": css.Font_Face, "keyframes": css.Keyframes, "layer": css.Layer, "media": css.Media, "page": css.Page, "supports": css.Supports}
var htmlHashes = map[string]html.Hash{"iframe": html.Iframe, "math": html.Math, "plaintext": html.Plaintext, "script": html.Script, "style": html.Style, "svg": html.Svg, "textarea": html.Textarea, "title": html.Title, "xml": html.Xml, "xmp": html.Xmp}

func TestProp_Hash(t *testing.T) {
	ev.Describe("hash", "every constant of css.Hash and html.Hash (exhaustive, every run) plus generated non-members: members with one byte inserted/deleted/changed/case-flipped, prefixes, members behind vendor prefixes and dashes, concatenations, random short strings; oracle: ToHash(text) == the constant and String() inverts it, anything else maps to 0, Hash(x).String() never panics for arbitrary x; non-trivial = candidate within edit distance 1 of a member")
	for s, h := range cssHashes {
		if css.ToHash([]byte(s)) != h || h.String() != s || string(h.Bytes()) != s {
			t.Fatalf("css.ToHash(%q) = %#x (%q), constant %#x (%q)", s, css.ToHash([]byte(s)), css.ToHash([]byte(s)).String(), h, h.String())
		}
	}
	for s, h := range htmlHashes {
		if html.ToHash([]byte(s)) != h || h.String() != s || string(h.Bytes()) != s {
			t.Fatalf("html.ToHash(%q) = %#x (%q), constant %#x (%q)", s, html.ToHash([]byte(s)), html.ToHash([]byte(s)).String(), h, h.String())
		}
	}
	var members []string
	for s := range cssHashes {
		members = append(members, s)
	}
	for s := range htmlHashes {
		members = append(members, s)
	}
	// deterministic order
	for i := range members {
		for j := i + 1; j < len(members); j++ {
			if members[j] < members[i] {
				members[i], members[j] = members[j], members[i]
			}
		}
	}
	ev.Check(t, 40000, func(t *rapid.T) {
		m := rapid.SampledFrom(members).Draw(t, "member")
		b := []byte(m)
		near := true
		switch rapid.IntRange(0, 7).Draw(t, "mut") {
		case 7:
			// a member behind a vendor prefix, a dash or a custom-property prefix, or with such a suffix: not a member
			pre := rapid.SampledFrom([]string{"-webkit-", "-moz-", "-o-", "-ms-", "--", "-", "-x-y-", "@", "@-webkit-", ":", "x-"}).Draw(t, "affix")
			if rapid.IntRange(0, 3).Draw(t, "suffix") == 0 {
				b = append(b, pre...)
			} else {
				b = append([]byte(pre), b...)
			}
		case 0:
			i := rapid.IntRange(0, len(b)).Draw(t, "i")
			b = append(b[:i:i], append([]byte{rapid.Byte().Draw(t, "c")}, b[i:]...)...)
		case 1:
			i := rapid.IntRange(0, len(b)-1).Draw(t, "i")
			b = append(b[:i:i], b[i+1:]...)
		case 2:
			i := rapid.IntRange(0, len(b)-1).Draw(t, "i")
			b[i] = rapid.Byte().Draw(t, "c")
		case 3:
			i := rapid.IntRange(0, len(b)-1).Draw(t, "i")
			b[i] ^= 0x20
		case 4:
			b = b[:rapid.IntRange(0, len(b)).Draw(t, "n")]
		case 5:
			b = append(b, rapid.SampledFrom(members).Draw(t, "member2")...)
			near = false
		case 6:
			b = rapid.SliceOfN(rapid.Byte(), 0, 12).Draw(t, "raw")
			near = false
		}
		s := string(b)
		if h, ok := cssHashes[s]; ok {
			if css.ToHash(b) != h {
				t.Fatalf("css.ToHash(%q) = %#x, want %#x", s, css.ToHash(b), h)
			}
		} else if got := css.ToHash(b); got != 0 {
			t.Fatalf("css.ToHash(%q) = %#x (%q) for a non-member", s, got, got.String())
		}
		if h, ok := htmlHashes[s]; ok {
			if html.ToHash(b) != h {
				t.Fatalf("html.ToHash(%q) = %#x, want %#x", s, html.ToHash(b), h)
			}
		} else if got := html.ToHash(b); got != 0 {
			t.Fatalf("html.ToHash(%q) = %#x (%q) for a non-member", s, got, got.String())
		}
		x := rapid.Uint32().Draw(t, "x")
		_ = css.Hash(x).String()
		_ = html.Hash(x).String()
		ev.Case("hash", s, near, fmt.Sprintf("member=%v", cssHashes[s] != 0 || htmlHashes[s] != 0))
	})
}

func TestProp_NoPanic(t *testing.T) {
	frags := []string{"&", "#", "x", ";", "&#", "&#x", "&quot;", "&apos;", "&#34;", "&#39;", "&#x22;", "&#x27;", "&#0034;", "&#x0027", "0", "2", "3", "\\", "\"", "'", "a", "\x00", "é"}
	ev.Describe("nopanic", "QuoteEntity, AppendEscape, Printable on fragment strings / all runes: no panic, QuoteEntity's length within the argument and the matched text decodes to the reported quote, AppendEscape == reference (escape byte inserted before every listed char and every escape byte), destination prefix preserved, arguments unmodified; non-trivial = argument contains & or an escape-listed byte")
	ev.Check(t, 30000, func(t *rapid.T) {
		b := gen.Fragments(t, "frag", frags, 8)
		snap := append([]byte(nil), b...)
		q, n := parse.QuoteEntity(b)
		if n < 0 || n > len(b) || (n == 0) != (q == 0) {
			t.Fatalf("QuoteEntity(%q) = %q, %d", b, q, n)
		}
		if n > 0 {
			ref := strings.NewReplacer("&quot;", "\"", "&apos;", "'").Replace(string(b[:n]))
			if ref != string(q) {
				// numeric forms
				var v int
				if _, err := fmt.Sscanf(strings.ToLower(string(b[:n])), "&#x%x;", &v); err != nil {
					if _, err := fmt.Sscanf(string(b[:n]), "&#%d;", &v); err != nil {
						t.Fatalf("QuoteEntity(%q) = %q, %d: %q is not a quote entity", b, q, n, b[:n])
					}
				}
				if byte(v) != q {
					t.Fatalf("QuoteEntity(%q) = %q, %d but %q denotes %q", b, q, n, b[:n], byte(v))
				}
			}
		}
		chars := rapid.SliceOfN(rapid.SampledFrom([]byte("\"'a&;\x00")), 0, 3).Draw(t, "chars")
		escape := rapid.SampledFrom([]byte{'\\', '%', 'a'}).Draw(t, "escape")
		pre := rapid.SliceOfN(rapid.Byte(), 0, 3).Draw(t, "prefix")
		var want []byte
		want = append(want, pre...)
		for _, c := range b {
			if c == escape || bytes.IndexByte(chars, c) >= 0 {
				want = append(want, escape)
			}
			want = append(want, c)
		}
		got := parse.AppendEscape(append([]byte(nil), pre...), b, chars, escape)
		if !bytes.Equal(got, want) {
			t.Fatalf("AppendEscape(%q, %q, %q, %q) = %q, want %q", pre, b, chars, escape, got, want)
		}
		if !bytes.Equal(b, snap) {
			t.Fatalf("argument modified: %q -> %q", snap, b)
		}
		r := rapid.Rune().Draw(t, "rune")
		if parse.Printable(r) == "" {
			t.Fatalf("Printable(%U) is empty", r)
		}
		ev.Case("nopanic", string(b), bytes.IndexByte(b, '&') >= 0 || len(want) > len(pre)+len(b), fmt.Sprintf("quote=%v", n > 0))
	})
}
