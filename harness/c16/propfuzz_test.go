package c16

import (
	"testing"

	"verif/internal/ev"
)

// FuzzProp: coverage-guided fuzzing of this package's rapid properties (see ev.FuzzProp); thorough tier only.
func FuzzProp(f *testing.F) {
	ev.FuzzProp(f, map[string]func(*testing.T){
		"TestProp_Bytes":           TestProp_Bytes,
		"TestProp_DataURI":         TestProp_DataURI,
		"TestProp_DataURIAny":      TestProp_DataURIAny,
		"TestProp_Hash":            TestProp_Hash,
		"TestProp_Mediatype":       TestProp_Mediatype,
		"TestProp_NoPanic":         TestProp_NoPanic,
		"TestProp_NumberDimension": TestProp_NumberDimension,
		"TestProp_URL":             TestProp_URL,
	})
}
