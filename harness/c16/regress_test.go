package c16

import (
	"testing"

	"github.com/tdewolff/parse/v2"
)

// fixed defects, replayed without the library's generators
func TestRegress_EncodeURLCustomTable(t *testing.T) {
	// 2fc1837: the digits of an escape that was just written are not looked at again
	table := parse.URLEncodingTable
	table['J'], table['A'] = true, true
	if got := string(parse.EncodeURL([]byte("J"), table)); got != "%4A" {
		t.Errorf("EncodeURL(%q) with J and A marked = %q, want %q", "J", got, "%4A")
	}
	table = [256]bool{}
	table[' '], table['E'] = true, true
	if got := string(parse.EncodeURL([]byte("a ENE"), table)); got != "a%20%45N%45" {
		t.Errorf("EncodeURL(%q) with space and E marked = %q, want %q", "a ENE", got, "a%20%45N%45")
	}
}

// e9e6fb2: a plus sign in a percent-encoded payload is a plus sign
func TestRegress_DataURIPlus(t *testing.T) {
	for uri, want := range map[string]string{"data:,a+b": "a+b", "data:,a%2Bb%20c+": "a+b c+", "data:image/svg+xml,<svg>1+2</svg>": "<svg>1+2</svg>"} {
		if _, got, err := parse.DataURI([]byte(uri)); err != nil || string(got) != want {
			t.Errorf("DataURI(%q) = %q, %v, want %q", uri, got, err, want)
		}
	}
}
