package c17

import (
	"bytes"
	"fmt"
	stdhtml "html"
	"math/big"
	"regexp"
	"strings"
	"testing"

	"github.com/tdewolff/parse/v2"
	"github.com/tdewolff/parse/v2/html"
	"github.com/tdewolff/parse/v2/xml"
	"pgregory.net/rapid"

	"verif/internal/ev"
	"verif/internal/gen"
)

func TestMain(m *testing.M) { ev.Main(m, "C17") }

var wsRe = regexp.MustCompile(`[ \t\n\f\r]+`)

func refWhitespace(b []byte) []byte {
	return wsRe.ReplaceAllFunc(b, func(m []byte) []byte {
		if bytes.ContainsAny(m, "\n\r") {
			return []byte("\n")
		}
		return []byte(" ")
	})
}

// entity maps consistent with HTML: every replacement decodes to the same text as the reference and is never longer
var entityPool = map[string]string{
	"amp": "&", "lt": "<", "gt": ">", "quot": "\"", "apos": "'", "nbsp": " ", "Tab": "\t", "NewLine": "\n",
	"varphi": "&phiv;", "DiacriticalAcute": "&acute;", "excl": "!", "num": "#", "semi": ";", "lpar": "(", "colon": ":",
}

func genMaps(t *rapid.T) (map[string][]byte, map[byte][]byte, string) {
	em := map[string][]byte{}
	names := []string{"amp", "lt", "gt", "quot", "apos", "nbsp", "Tab", "NewLine", "varphi", "DiacriticalAcute", "excl", "num", "semi", "lpar", "colon"}
	mask := rapid.IntRange(0, 3).Draw(t, "mapKind")
	for i, n := range names {
		if mask == 0 || (mask == 1 && i < 5) || (mask == 2 && i%2 == 0) {
			em[n] = []byte(entityPool[n])
		}
	}
	var rev map[byte][]byte
	switch rapid.IntRange(0, 2).Draw(t, "revKind") {
	case 1:
		rev = map[byte][]byte{'\'': []byte("&#39;")}
	case 2:
		rev = map[byte][]byte{'\'': []byte("&#39;"), '"': []byte("&#34;")}
	}
	return em, rev, fmt.Sprintf("map%d/rev%d", mask, len(rev))
}

var entFrags = []string{
	"&", "#", "x", "X", ";", "&#", "&#x", "&#X", "amp", "lt", "quot", "apos", "nbsp", "Tab", "varphi", "phiv", "DiacriticalAcute", "acute", "notanentity",
	"&amp;", "&amp", "&lt;", "&quot;", "&apos;", "&nbsp;", "&varphi;", "&excl;", "&num;", "&semi;", "&colon;", "&lpar;", "&Tab;", "&NewLine;",
	"&#38;", "&#038;", "&#x26;", "&#0;", "&#x0;", "&#65;", "&#x41;", "&#112;", "&#59;", "&#35;", "&#120;", "&#x3b;", "&#39;", "&#34;", "&#x27;", "&#160;", "&#128;", "&#x80;", "&#9999;", "&#10000;", "&#x270F;", "&#x2710;", "&#xD800;", "&#x110000;",
	"0", "1", "6", "5", "9", "a", "A", "f", "p", "g", "12345678901234567", "10000000000000041", "00000000000000000041",
	" ", "  ", "\n", "\t", "\r\n", " \n ", "\f", "text", "é", " ", "<", ">", "\"", "'", "=",
}

var wsFrags = []string{" ", " ", "  ", "   ", "\n", "\t", "\r", "\f", "\r\n", " \n ", "\t\t", " \t", "a", "text", "é", "&amp;", "\v", "\x00", " ", "<b>", "x y"}

func clean(s string) string {
	s = strings.ReplaceAll(s, "\x00", "")
	return strings.ReplaceAll(s, "�", "")
}

// decode is the independent HTML decoder: html.UnescapeString, except that "&#x;" (a hexadecimal reference without
// digits) is kept as text as the HTML standard prescribes; the standard library consumes it as U+FFFD.
func decode(b []byte) string {
	s := strings.NewReplacer("&#x;", "&amp;#x;", "&#X;", "&amp;#X;").Replace(string(b))
	// the standard library accumulates the digits of a numeric reference in an int32 that wraps around
	// ("&#x100000041;" decodes to "A" there): references beyond U+10FFFF are U+FFFD, decided here with math/big
	s = numRefRe.ReplaceAllStringFunc(s, func(m string) string {
		digits, base := strings.TrimSuffix(m[2:], ";"), 10
		if digits[0] == 'x' || digits[0] == 'X' {
			digits, base = digits[1:], 16
		}
		if v, ok := new(big.Int).SetString(digits, base); ok && v.Cmp(big.NewInt(0x10FFFF)) > 0 {
			return "\uFFFD"
		}
		return m
	})
	return clean(stdhtml.UnescapeString(s))
}

var numRefRe = regexp.MustCompile(`&#([xX][0-9a-fA-F]+|[0-9]+);?`)

func TestProp_Whitespace(t *testing.T) {
	ev.Describe("whitespace", "strings of 0-12 fragments (whitespace runs of length 1-4 with/without line breaks, text, entities, non-ASCII); oracle: ReplaceMultipleWhitespace == regexp reference ([ \\t\\n\\f\\r]+ -> \\n if the run has \\n or \\r else space), nothing else changes; non-trivial = a run of >= 2 whitespace bytes")
	ev.Check(t, 40000, func(t *rapid.T) {
		b := gen.Fragments(t, "frag", wsFrags, 12)
		want := refWhitespace(b)
		got := parse.ReplaceMultipleWhitespace(append([]byte(nil), b...))
		if !bytes.Equal(got, want) {
			t.Fatalf("ReplaceMultipleWhitespace(%q) = %q, want %q", b, got, want)
		}
		ev.Case("whitespace", string(b), regexp.MustCompile(`[ \t\n\f\r]{2}`).Match(b), fmt.Sprintf("changed=%v", !bytes.Equal(b, want)))
	})
}

func TestProp_Entities(t *testing.T) {
	ev.Describe("entities", "strings of 0-12 fragments (&, #, x, ;, entity names in/out of the map, decimal/hex references incl. NUL, long digit runs >= 17, surrogates, > U+10FFFF, references whose replacement is & # ; x p or a digit) x entity maps consistent with HTML x reverse maps {nil, ', ' and \"}; oracle: len(out) <= len(in); idempotent; html.UnescapeString(out) == html.UnescapeString(in) after removing NUL/U+FFFD; ReplaceMultipleWhitespaceAndEntities == ReplaceEntities(ReplaceMultipleWhitespace(.)); non-trivial = >= 1 reference adjacent to another reference, & or an alphanumeric")
	adjRe := regexp.MustCompile(`(&[#0-9A-Za-z]*;?)(&|[0-9A-Za-z#])|[0-9A-Za-z#&]&[#0-9A-Za-z]+;`)
	ev.Check(t, 60000, func(t *rapid.T) {
		b := gen.Fragments(t, "frag", entFrags, 12)
		if rapid.IntRange(0, 7).Draw(t, "overlong") == 0 {
			// a numeric reference with more digits than a machine word holds (leading significant digits, then zeros)
			ref := "&#x" + rapid.StringMatching(`[1-9a-f][0-9a-f]{0,3}`).Draw(t, "hi") + strings.Repeat("0", rapid.IntRange(8, 14).Draw(t, "zeros")) + rapid.StringMatching(`[0-9a-f]{1,4}`).Draw(t, "lo") + ";"
			if rapid.Bool().Draw(t, "decimal") {
				ref = "&#" + rapid.StringMatching(`[1-9][0-9]{0,2}`).Draw(t, "hi10") + strings.Repeat("0", rapid.IntRange(14, 19).Draw(t, "zeros10")) + rapid.StringMatching(`[0-9]{1,3}`).Draw(t, "lo10") + ";"
			}
			at := rapid.IntRange(0, len(b)).Draw(t, "at")
			b = append(b[:at:at], append([]byte(ref), b[at:]...)...)
		}
		em, rev, mk := genMaps(t)
		out := parse.ReplaceEntities(append([]byte(nil), b...), em, rev)
		if len(out) > len(b) {
			t.Fatalf("ReplaceEntities(%q) = %q is longer than its input (%s)", b, out, mk)
		}
		if d1, d2 := decode(b), decode(out); d1 != d2 {
			t.Fatalf("ReplaceEntities(%q) = %q (%s): the HTML-decoded text changes from %q to %q", b, out, mk, d1, d2)
		}
		again := parse.ReplaceEntities(append([]byte(nil), out...), em, rev)
		if !bytes.Equal(again, out) {
			t.Fatalf("ReplaceEntities is not idempotent (%s): %q -> %q -> %q", mk, b, out, again)
		}
		seq := parse.ReplaceEntities(parse.ReplaceMultipleWhitespace(append([]byte(nil), b...)), em, rev)
		comb := parse.ReplaceMultipleWhitespaceAndEntities(append([]byte(nil), b...), em, rev)
		if !bytes.Equal(seq, comb) {
			t.Fatalf("ReplaceMultipleWhitespaceAndEntities(%q) = %q, applying the two in sequence gives %q (%s)", b, comb, seq, mk)
		}
		ev.Case("entities", mk+"|"+string(b), adjRe.Match(b), mk, fmt.Sprintf("changed=%v", !bytes.Equal(out, b)))
	})
}

var attrFrags = []string{"a", "b", "foo", " ", "\t", "\n", "\"", "'", "\"\"", "''", "=", "<", ">", "`", "/", "&", "&amp;", "&#34;", "&#39;", "&quot;", "&#3", "&#x2", "é", "{{", "}}", "x=y", "a b", "\r", "\f"}

func needsQuote(b []byte) bool {
	return bytes.ContainsAny(b, " \t\n\f\r\"'=<>`")
}

func TestProp_HTMLAttr(t *testing.T) {
	ev.Describe("htmlattr", "attribute values of 0-8 fragments without NUL (both quote kinds, whitespace, =<>`/, entities) x original quote {0,',\"} x mustQuote x caller buffer {nil, small, large}; oracle: <a x=OUT> lexes as StartTag, one Attribute with AttrVal()==OUT, StartTagClose; unquote(OUT) HTML-decodes to the same text as the value; OUT unquoted => the value has no byte needing quotes and is returned as is; value without such bytes and !mustQuote => unquoted; quoted OUT has length len+2+4*min(#',#\"); the value itself is never written; non-trivial = the value contains a quote or a byte needing quotes")
	ev.Check(t, 40000, func(t *rapid.T) {
		b := gen.Fragments(t, "frag", attrFrags, 8)
		b = bytes.ReplaceAll(b, []byte{0}, []byte("0"))
		orig := rapid.SampledFrom([]byte{0, '\'', '"'}).Draw(t, "origQuote")
		must := rapid.Bool().Draw(t, "mustQuote")
		var buf []byte
		switch rapid.IntRange(0, 2).Draw(t, "buf") {
		case 1:
			buf = make([]byte, 0, 4)
		case 2:
			buf = make([]byte, 0, 256)
		}
		snap := append([]byte(nil), b...)
		out := html.EscapeAttrVal(&buf, b, orig, must)
		desc := fmt.Sprintf("html.EscapeAttrVal(%q, orig=%q, mustQuote=%v) = %q", snap, orig, must, out)
		if !bytes.Equal(b, snap) {
			t.Fatalf("%s: the value was modified to %q", desc, b)
		}
		keep := append([]byte(nil), out...)
		quoted := len(out) >= 2 && (out[0] == '"' || out[0] == '\'') && out[len(out)-1] == out[0]
		singles, doubles := bytes.Count(b, []byte("'")), bytes.Count(b, []byte("\""))
		if !quoted || !needsQuote(b) && bytes.Equal(out, b) {
			quoted = false
			if needsQuote(b) {
				t.Fatalf("%s: returned without quotes although the value needs them", desc)
			}
			if !bytes.Equal(out, b) {
				t.Fatalf("%s: unquoted result differs from the value", desc)
			}
		} else {
			if !needsQuote(b) && !must {
				t.Fatalf("%s: quoted although the value needs no quotes and mustQuote is false", desc)
			}
			min := singles
			if doubles < min {
				min = doubles
			}
			if len(out) != len(b)+2+4*min {
				t.Fatalf("%s: length %d, the shorter quote gives %d", desc, len(out), len(b)+2+4*min)
			}
			inner := out[1 : len(out)-1]
			if bytes.IndexByte(inner, out[0]) >= 0 {
				t.Fatalf("%s: the delimiter occurs inside the value", desc)
			}
			if (orig == '\'' && singles == 0 || orig == '"' && doubles == 0) && out[0] != orig {
				t.Fatalf("%s: the original quote does not occur in the value and must be kept", desc)
			}
			if d1, d2 := stdhtml.UnescapeString(string(b)), stdhtml.UnescapeString(string(inner)); d1 != d2 {
				t.Fatalf("%s: decodes to %q, the value decodes to %q", desc, d2, d1)
			}
		}
		// read it back through the lexer
		doc := append(append([]byte("<a x="), out...), '>')
		l := html.NewLexer(parse.NewInputBytes(doc))
		tt1, _ := l.Next()
		tt2, _ := l.Next()
		val := append([]byte(nil), l.AttrVal()...)
		key := string(l.AttrKey())
		tt3, _ := l.Next()
		tt4, _ := l.Next()
		if tt1 != html.StartTagToken || tt2 != html.AttributeToken || key != "x" || tt3 != html.StartTagCloseToken || tt4 != html.ErrorToken || !bytes.Equal(val, keep) {
			t.Fatalf("%s: %q lexes as %v %v(key %q val %q) %v %v", desc, doc, tt1, tt2, key, val, tt3, tt4)
		}
		ev.Case("htmlattr", fmt.Sprintf("%q/%q/%v", snap, orig, must), singles+doubles > 0 || needsQuote(snap), fmt.Sprintf("quoted=%v", quoted), fmt.Sprintf("orig=%q", orig))
	})
}

func xmlNormalize(b []byte) []byte {
	out := append([]byte(nil), b...)
	for i, c := range out {
		if c == '\t' || c == '\n' || c == '\r' {
			out[i] = ' '
		}
	}
	return out
}

func TestProp_XMLAttr(t *testing.T) {
	ev.Describe("xmlattr", "attribute values of 0-8 fragments without NUL and without '<' x caller buffer; oracle: <a x=OUT/> through xml.Lexer gives StartTag, Attribute with AttrVal()==OUT modulo tab/newline->space, StartTagCloseVoid; OUT is quoted, the delimiter does not occur inside, and unquote(OUT) decodes to the same text as the value under XML attribute normalisation; length len+2+4*min(#',#\"); xml.EscapeCDATAVal: declines (returns the argument) or returns text that un-escapes to its input with length <= len+12; non-trivial = value contains a quote, whitespace to normalise, & or <")
	ev.Check(t, 40000, func(t *rapid.T) {
		b := gen.Fragments(t, "frag", attrFrags, 8)
		b = bytes.ReplaceAll(b, []byte{0}, []byte("0"))
		var buf []byte
		if rapid.Bool().Draw(t, "buf") {
			buf = make([]byte, 0, rapid.IntRange(0, 64).Draw(t, "cap"))
		}
		snap := append([]byte(nil), b...)
		// CDATA
		if k := rapid.IntRange(0, 3).Draw(t, "many"); k == 0 {
			b = append(b, gen.Fragments(t, "lt", []string{"<", "&", "<<", "&&", "a"}, 8)...)
			b = bytes.ReplaceAll(b, []byte{0}, []byte("0"))
		} else if k == 1 {
			// text that contains the CDATA terminator and its look-alikes
			b = append(b, gen.Fragments(t, "cdend", []string{"]]>", "]]", "]", "]>", ">", "]]]>", "a", "<", "&", "]]&gt;", " "}, 6)...)
			b = bytes.ReplaceAll(b, []byte{0}, []byte("0"))
		}
		snap = append([]byte(nil), b...)
		cd, ok := xml.EscapeCDATAVal(&buf, b)
		if !bytes.Equal(b, snap) {
			t.Fatalf("xml.EscapeCDATAVal modified its argument %q", snap)
		}
		if !ok {
			if !bytes.Equal(cd, b) {
				t.Fatalf("xml.EscapeCDATAVal(%q) declined but returned %q", b, cd)
			}
		} else {
			un := strings.NewReplacer("&lt;", "<", "&amp;", "&").Replace(string(cd))
			if un != string(b) || len(cd) > len(b)+len("<![CDATA[]]>") || bytes.IndexByte(cd, '<') >= 0 {
				t.Fatalf("xml.EscapeCDATAVal(%q) = %q: un-escapes to %q", b, cd, un)
			}
		}
		// attribute
		v := bytes.ReplaceAll(b, []byte("<"), []byte("("))
		vsnap := append([]byte(nil), v...)
		out := xml.EscapeAttrVal(&buf, v)
		desc := fmt.Sprintf("xml.EscapeAttrVal(%q) = %q", vsnap, out)
		if !bytes.Equal(v, vsnap) {
			t.Fatalf("%s: the value was modified", desc)
		}
		keep := append([]byte(nil), out...)
		if len(out) < 2 || (out[0] != '"' && out[0] != '\'') || out[len(out)-1] != out[0] {
			t.Fatalf("%s: not quoted", desc)
		}
		inner := out[1 : len(out)-1]
		if bytes.IndexByte(inner, out[0]) >= 0 {
			t.Fatalf("%s: the delimiter occurs inside the value", desc)
		}
		singles, doubles := bytes.Count(v, []byte("'")), bytes.Count(v, []byte("\""))
		min := singles
		if doubles < min {
			min = doubles
		}
		if len(out) != len(v)+2+4*min {
			t.Fatalf("%s: length %d, the shorter quote gives %d", desc, len(out), len(v)+2+4*min)
		}
		if d1, d2 := stdhtml.UnescapeString(string(xmlNormalize(v))), stdhtml.UnescapeString(string(xmlNormalize(inner))); d1 != d2 {
			t.Fatalf("%s: decodes to %q, the value decodes to %q", desc, d2, d1)
		}
		doc := append(append([]byte("<a x="), out...), '/', '>')
		l := xml.NewLexer(parse.NewInputBytes(doc))
		tt1, _ := l.Next()
		tt2, _ := l.Next()
		val := append([]byte(nil), l.AttrVal()...)
		key := string(l.Text())
		tt3, _ := l.Next()
		tt4, _ := l.Next()
		if tt1 != xml.StartTagToken || tt2 != xml.AttributeToken || key != "x" || tt3 != xml.StartTagCloseVoidToken || tt4 != xml.ErrorToken || !bytes.Equal(val, xmlNormalize(keep)) {
			t.Fatalf("%s: %q lexes as %v %v(key %q val %q) %v %v", desc, doc, tt1, tt2, key, val, tt3, tt4)
		}
		ev.Case("xmlattr", string(snap), singles+doubles > 0 || bytes.ContainsAny(snap, "\t\n\r&<"), fmt.Sprintf("cdata=%v", ok), fmt.Sprintf("quote=%q", out[0]))
	})
}
