package c17

import (
	"fmt"
	"strings"
	"testing"

	"github.com/tdewolff/parse/v2"
	"github.com/tdewolff/parse/v2/html"
	"github.com/tdewolff/parse/v2/xml"
	"pgregory.net/rapid"

	"verif/internal/ev"
	"verif/internal/gen"
)

// TestProp_Concurrent: the normalisation functions are functions of their arguments, also while other goroutines
// normalise other texts with other maps
func TestProp_Concurrent(t *testing.T) {
	ev.Describe("concurrent", "4-12 texts of entity and attribute fragments with entity maps of their own, each run 1500 times through ReplaceEntities, ReplaceMultipleWhitespace, ReplaceMultipleWhitespaceAndEntities, html.EscapeAttrVal, xml.EscapeAttrVal and xml.EscapeCDATAVal, first one after the other and then by as many goroutines at once (3 rounds behind a barrier); oracle: every goroutine gets what the same calls return alone; non-trivial = >= 4 goroutines")
	ev.Check(t, 40, func(t *rapid.T) {
		n := rapid.IntRange(4, 12).Draw(t, "goroutines")
		texts := make([][]byte, n)
		ems := make([]map[string][]byte, n)
		revs := make([]map[byte][]byte, n)
		var key []string
		for i := range texts {
			texts[i] = append(gen.Fragments(t, "frag", entFrags, 10), gen.Fragments(t, "attr", attrFrags, 4)...)
			// and references that are rewritten into another form (every goroutine its own)
			texts[i] = append(texts[i], fmt.Sprintf(" &#x%x; &#%d; &#x%X;", 0x700+i*83, 0x2000+i*211, 0x1F600+i)...)
			ems[i], revs[i], _ = genMaps(t)
			key = append(key, fmt.Sprintf("%q", texts[i]))
		}
		bad, alone, together := gen.Concurrently(n, 3, func(i int) string {
			s := ""
			var buf1, buf2, buf3 []byte
			for r := 0; r < 1500; r++ {
				cp := func() []byte { return append([]byte(nil), texts[i]...) }
				a := parse.ReplaceEntities(cp(), ems[i], revs[i])
				b := parse.ReplaceMultipleWhitespace(cp())
				c := parse.ReplaceMultipleWhitespaceAndEntities(cp(), ems[i], revs[i])
				d := html.EscapeAttrVal(&buf1, cp(), byte('"'), r%2 == 0)
				e := xml.EscapeAttrVal(&buf2, cp())
				f, _ := xml.EscapeCDATAVal(&buf3, cp())
				s = fmt.Sprintf("%q %q %q %q %q %q", a, b, c, d, e, f)
			}
			return s
		})
		if bad >= 0 {
			t.Fatalf("%s (with %d other goroutines at work):\nalone:    %s\ntogether: %s", key[bad], n-1, alone, together)
		}
		ev.Case("concurrent", strings.Join(key, " || "), n >= 4, fmt.Sprintf("goroutines=%d", n))
	})
}
