package c17

import (
	"testing"

	"verif/internal/ev"
)

// FuzzProp: coverage-guided fuzzing of this package's rapid properties (see ev.FuzzProp); thorough tier only.
func FuzzProp(f *testing.F) {
	ev.FuzzProp(f, map[string]func(*testing.T){
		"TestProp_Entities":   TestProp_Entities,
		"TestProp_HTMLAttr":   TestProp_HTMLAttr,
		"TestProp_Whitespace": TestProp_Whitespace,
		"TestProp_XMLAttr":    TestProp_XMLAttr,
	})
}
