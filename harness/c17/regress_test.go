package c17

import (
	"bytes"
	"testing"

	"github.com/tdewolff/parse/v2"
)

// D14/D15 (fixed): shrunk failures of the pinned tree replayed without the library.
func TestRegress_Entities(t *testing.T) {
	em := map[string][]byte{"amp": []byte("&"), "semi": []byte(";")}
	for _, in := range []string{
		"&#x&#65;", "&am&#112;;", "&amp&#59;", "&amp&semi;", "&#65&#59;", "&#x10000000000000041;",
		"&#x1234567890123456712345678901234567&#65;", "&&#35;65;", "&#38;#65;", "&#x;", "&#38;amp;",
	} {
		out := parse.ReplaceEntities([]byte(in), em, nil)
		if d1, d2 := decode([]byte(in)), decode(out); d1 != d2 {
			t.Errorf("ReplaceEntities(%q) = %q: decoded text changes from %q to %q", in, out, d1, d2)
		}
		if again := parse.ReplaceEntities(append([]byte(nil), out...), em, nil); !bytes.Equal(again, out) {
			t.Errorf("ReplaceEntities not idempotent: %q -> %q -> %q", in, out, again)
		}
	}
}
