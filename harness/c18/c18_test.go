package c18

import (
	"fmt"
	"reflect"
	"sort"
	"strings"
	"testing"
	"unicode/utf8"

	"github.com/tdewolff/parse/v2"
	"github.com/tdewolff/parse/v2/js"
	"pgregory.net/rapid"

	"verif/internal/ev"
	"verif/internal/gen"
	"verif/internal/jsgen"
)

func TestMain(m *testing.M) { ev.Main(m, "C18") }

type fataler interface {
	Fatalf(format string, args ...any)
}

// ---------- ground truth by reflection over the same tree

var (
	stmtT    = reflect.TypeOf((*js.IStmt)(nil)).Elem()
	exprT    = reflect.TypeOf((*js.IExpr)(nil)).Elem()
	bindingT = reflect.TypeOf((*js.IBinding)(nil)).Elem()
	scopeT   = reflect.TypeOf(js.Scope{})
	varT     = reflect.TypeOf(js.Var{})
)

func isNodeType(t reflect.Type) bool {
	if t.Kind() == reflect.Ptr {
		t = t.Elem()
	}
	if t.Kind() != reflect.Struct {
		return false
	}
	pt := reflect.PtrTo(t)
	// the binding nodes of a pattern are, besides the patterns themselves (IBinding), their elements: BindingElement (also
	// the hole of [a,,b], which the tree prints as Binding()) and BindingObjectItem
	return pt.Implements(stmtT) || pt.Implements(exprT) || pt.Implements(bindingT) || t.Name() == "BindingElement" || t.Name() == "BindingObjectItem"
}

type info struct {
	addr     uintptr
	typ      reflect.Type // struct type
	parent   *info        // the enclosing struct value (nil for the root)
	required bool         // a statement, expression, binding or identifier node
	byValue  bool         // held by value in its parent (Walk may hand over a copy)
	val      fmt.Stringer // the node, for its text (computed when it is needed: String() of a deep tree is not cheap)
	text     *string
}

func (in *info) str() string {
	if in.text == nil {
		s := ""
		if in.val != nil {
			s = in.val.String()
		}
		in.text = &s
	}
	return *in.text
}

type occKey struct {
	addr uintptr
	typ  reflect.Type
}

type truth struct {
	nodes map[occKey]*info   // every addressable struct value of the tree by (address, type)
	order []*info            // all nodes in reflection pre-order
	elem  bool               // the next value visited is an element of a slice
	vars  map[occKey][]*info // occurrences of nodes without pointer identity of their own: shared Vars, zero-size nodes
}

func (tr *truth) visit(v reflect.Value, parent *info, byValue bool) {
	elem := tr.elem // v is an element of a slice: a position of the tree of its own, also when nothing is written there
	tr.elem = false
	switch v.Kind() {
	case reflect.Ptr:
		if v.IsNil() {
			return
		}
		tr.visit(v.Elem(), parent, false)
	case reflect.Interface:
		if v.IsNil() {
			return
		}
		if e := v.Elem(); e.Kind() == reflect.Struct && e.Type() != scopeT {
			// a node stored by value inside an interface (DotExpr.Y holds a LiteralExpr): it has no address, Walk hands over a copy
			in := &info{typ: e.Type(), parent: parent, byValue: true, required: isNodeType(e.Type())}
			if s, ok := e.Interface().(fmt.Stringer); ok {
				in.val = s
			}
			tr.order = append(tr.order, in)
			// what it refers to (pointers, interfaces and slices in its fields) is part of the tree all the same
			for i := 0; i < e.NumField(); i++ {
				if e.Type().Field(i).IsExported() {
					tr.visit(e.Field(i), in, true)
				}
			}
			return
		}
		tr.visit(v.Elem(), parent, false)
	case reflect.Struct:
		if v.Type() == scopeT {
			return
		}
		if !v.CanAddr() {
			return
		}
		zero := byValue && v.IsZero() && !elem // an unset alternative (ClassElement.Field of a method, PropertyName.Literal of a computed key) or an empty Params: may be visited, need not be
		addr := v.UnsafeAddr()
		in := &info{addr: addr, typ: v.Type(), parent: parent, byValue: byValue, required: isNodeType(v.Type()) && !zero}
		if in.required {
			if s, ok := v.Addr().Interface().(fmt.Stringer); ok {
				in.val = s
			}
		}
		k := occKey{addr, v.Type()}
		if v.Type() == varT || v.Type().Size() == 0 {
			// identifiers: one Var is shared by all occurrences of a binding, every occurrence is a node of the tree;
			// zero-size nodes (EmptyStmt, DebuggerStmt, new.target, import.meta) all share one address
			tr.vars[k] = append(tr.vars[k], in)
			tr.order = append(tr.order, in)
			return
		}
		if _, seen := tr.nodes[k]; seen {
			return
		}
		tr.nodes[k] = in
		tr.order = append(tr.order, in)
		for i := 0; i < v.NumField(); i++ {
			if !v.Type().Field(i).IsExported() {
				continue
			}
			tr.visit(v.Field(i), in, true)
		}
	case reflect.Slice:
		if v.Type().Elem().Kind() == reflect.Uint8 {
			return
		}
		for i := 0; i < v.Len(); i++ {
			tr.elem = true
			tr.visit(v.Index(i), parent, true)
		}
	}
}

func (tr *truth) find(addr uintptr, t reflect.Type) *info { return tr.nodes[occKey{addr, t}] }

func (tr *truth) isAncestor(anc, n *info) bool {
	for p := n.parent; p != nil; p = p.parent {
		if p == anc {
			return true
		}
	}
	return false
}

// ---------- recording visitor with a pruning policy

type event struct {
	enter   bool
	addr    uintptr
	typ     reflect.Type
	n       js.INode
	visitor int
	isPtr   bool
}

func (e event) str() string {
	if e.n == nil {
		return ""
	}
	return e.n.String()
}

type recorder struct {
	log    *[]event
	id     int
	nextID *int
	policy func(n js.INode, index int) (prune bool, switchVisitor bool)
	count  *int
}

func nodeKey(n js.INode) (uintptr, reflect.Type, bool) {
	v := reflect.ValueOf(n)
	if v.Kind() == reflect.Ptr {
		return v.Pointer(), v.Type().Elem(), true
	}
	return 0, v.Type(), false
}

func (r *recorder) Enter(n js.INode) js.IVisitor {
	addr, typ, isPtr := nodeKey(n)
	idx := *r.count
	*r.count++
	prune, sw := r.policy(n, idx)
	ret := r
	if sw {
		*r.nextID++
		ret = &recorder{log: r.log, id: *r.nextID, nextID: r.nextID, policy: r.policy, count: r.count}
	}
	vis := ret.id
	if prune {
		vis = -1
	}
	*r.log = append(*r.log, event{true, addr, typ, n, vis, isPtr})
	if prune {
		return nil
	}
	return ret
}

func (r *recorder) Exit(n js.INode) {
	addr, typ, isPtr := nodeKey(n)
	*r.log = append(*r.log, event{false, addr, typ, nil, r.id, isPtr})
}

// checkWalk runs Walk with the policy and validates the event log against the reflection ground truth
func checkWalk(t fataler, src string, ast *js.AST, policy func(n js.INode, index int) (bool, bool)) (entered int, types map[string]bool) {
	tr := &truth{nodes: map[occKey]*info{}, vars: map[occKey][]*info{}}
	tr.visit(reflect.ValueOf(ast), nil, false)
	var log []event
	count, next := 0, 0
	js.Walk(&recorder{log: &log, nextID: &next, policy: policy, count: &count}, ast)

	type open struct {
		ev   event
		node *info
	}
	var stack []open
	enteredBy := map[*info]int{}
	pruned := map[*info]bool{}
	types = map[string]bool{}
	for _, e := range log {
		if !e.enter {
			if len(stack) == 0 {
				t.Fatalf("%q: Exit(%v) without a matching Enter", src, e.typ)
			}
			top := stack[len(stack)-1]
			if top.ev.addr != e.addr || top.ev.typ != e.typ {
				t.Fatalf("%q: Exit(%v) while the innermost open node is %v %q", src, e.typ, top.ev.typ, top.ev.str())
			}
			if top.ev.visitor != e.visitor {
				t.Fatalf("%q: Exit(%v %q) is called on visitor %d, Enter returned visitor %d", src, e.typ, top.ev.str(), e.visitor, top.ev.visitor)
			}
			stack = stack[:len(stack)-1]
			continue
		}
		types[e.typ.Name()] = true
		var node *info
		if e.isPtr && (e.typ == varT || e.typ.Size() == 0) {
			// an occurrence of this Var (or zero-size node) below the open node that has not been entered yet
			// such nodes have no identity of their own: take the best matching occurrence (a direct child of the open
			// node first, then any below it; occurrences below a pruned node last)
			best := 0
			for _, in := range tr.vars[occKey{e.addr, e.typ}] {
				if enteredBy[in] != 0 || !(len(stack) == 0 || tr.isAncestor(stack[len(stack)-1].node, in)) {
					continue
				}
				score := 2
				if len(stack) > 0 && in.parent == stack[len(stack)-1].node {
					score = 3
				}
				for p := range pruned {
					if tr.isAncestor(p, in) {
						score = 1
					}
				}
				if score > best {
					best, node = score, in
				}
			}
			if node == nil {
				t.Fatalf("%q: Enter(%v %q) although every occurrence of this node below the open node has been entered already (or it is not part of the tree)", src, e.typ, e.str())
			}
		} else if e.isPtr {
			node = tr.find(e.addr, e.typ)
			if node == nil {
				t.Fatalf("%q: Enter(%v %q) for a node that is not part of the tree", src, e.typ, e.str())
			}
		} else {
			// a copy of a node held by value: it must be a by-value child of the innermost open node
			if len(stack) == 0 {
				t.Fatalf("%q: Enter with a value node %v at the root", src, e.typ)
			}
			for _, in := range tr.order {
				if in.typ == e.typ && in.byValue && in.parent == stack[len(stack)-1].node && in.str() == e.str() && enteredBy[in] == 0 {
					node = in
					break
				}
			}
			if node == nil {
				t.Fatalf("%q: Enter with a copy of %v %q, which is not a child of the open node %v", src, e.typ, e.str(), stack[len(stack)-1].ev.typ)
			}
		}
		enteredBy[node]++
		if enteredBy[node] > 1 {
			t.Fatalf("%q: %v %q is entered %d times", src, e.typ, e.str(), enteredBy[node])
		}
		if len(stack) > 0 {
			parent := stack[len(stack)-1].node
			if !tr.isAncestor(parent, node) {
				t.Fatalf("%q: %v %q is entered while %v %q is open, which does not contain it", src, e.typ, e.str(), parent.typ, parent.str())
			}
		}
		for p := range pruned {
			if tr.isAncestor(p, node) {
				t.Fatalf("%q: %v %q is entered although Enter returned nil for its ancestor %v %q", src, e.typ, e.str(), p.typ, p.str())
			}
		}
		if e.visitor == -1 {
			pruned[node] = true
			continue
		}
		stack = append(stack, open{e, node})
	}
	if len(stack) != 0 {
		t.Fatalf("%q: %d nodes were entered but never exited (innermost %v)", src, len(stack), stack[len(stack)-1].ev.typ)
	}
	// every required node that is not below a pruned node was entered
	for _, in := range tr.order {
		if !in.required || enteredBy[in] > 0 {
			continue
		}
		below := false
		for p := range pruned {
			if tr.isAncestor(p, in) {
				below = true
			}
		}
		if !below {
			t.Fatalf("%q: the %v node %q is part of the tree but was never passed to Enter", src, in.typ, in.str())
		}
	}
	return len(enteredBy), types
}

func genTree(t *rapid.T) (string, *js.AST) {
	if rapid.IntRange(0, 3).Draw(t, "source") == 0 {
		c := gen.Corpus("js")
		src := gen.Mutate(t, rapid.SampledFrom(c).Draw(t, "corpus"), c, gen.Frags["js"])
		if !utf8.ValidString(src) {
			src = strings.ToValidUTF8(src, "?")
		}
		ast, err := js.Parse(parse.NewInputString(src), js.Options{})
		if err != nil {
			t.Skip("rejected")
		}
		return src, ast
	}
	o := js.Options{WhileToFor: rapid.Bool().Draw(t, "whileToFor"), Inline: rapid.Bool().Draw(t, "inline")}
	g := jsgen.New(t)
	g.Module, g.TopReturn, g.WhileToFor = !o.Inline, o.Inline, o.WhileToFor
	g.MaxDepth = rapid.IntRange(2, 5).Draw(t, "maxDepth")
	prog := g.Program()
	src, _ := jsgen.Render(t, prog.Toks, true)
	ast, err := js.Parse(parse.NewInputString(src), o)
	if err != nil {
		t.Skip("rejected (C03 decides acceptance)")
	}
	return src, ast
}

func TestProp_Walk(t *testing.T) {
	ev.Describe("walk", "trees returned by js.Parse for programs of the ECMAScript grammar generator (all node kinds incl. computed keys, private names, object-literal methods, class fields and static blocks, patterns with defaults, templates, optional chains) and for mutated literals of the repository's js tests x a visitor policy: descend everywhere, return nil at nodes chosen by pre-order index / node type / probability, or hand out a different visitor value at chosen nodes; oracle against a reflection walk over the same tree (every exported field except scopes): bracket discipline (Exit closes the innermost open Enter, once, on the visitor Enter returned), every statement/expression/binding/identifier node not below a nil-Enter node is entered exactly once (pointer identity; copies of by-value nodes matched by parent, type and String()), the node open at the time contains the entered node, nothing below a nil-Enter node is entered, every entered node is part of the tree; non-trivial = >= 15 nodes entered")
	seenTypes := map[string]bool{}
	ev.Check(t, 5000, func(t *rapid.T) {
		src, ast := genTree(t)
		mode := rapid.SampledFrom([]string{"all", "prune-index", "prune-type", "prune-random", "switch"}).Draw(t, "policy")
		pruneAt := rapid.IntRange(0, 40).Draw(t, "pruneAt")
		pruneType := rapid.SampledFrom([]string{"BlockStmt", "BinaryExpr", "FuncDecl", "ClassDecl", "ObjectExpr", "ArrowFunc", "CallExpr", "VarDecl", "MethodDecl", "BindingElement", "Args", "TemplateExpr", "Var", "PropertyName"}).Draw(t, "pruneType")
		mask := rapid.Uint64().Draw(t, "mask")
		policy := func(n js.INode, idx int) (bool, bool) {
			switch mode {
			case "prune-index":
				return idx == pruneAt || idx == 2*pruneAt+3, false
			case "prune-type":
				_, typ, _ := nodeKey(n)
				return typ.Name() == pruneType && idx > 0, false
			case "prune-random":
				return idx > 0 && (mask>>(uint(idx)%64))&1 == 1 && idx%3 == 0, false
			case "switch":
				return false, (mask>>(uint(idx)%64))&1 == 1
			}
			return false, false
		}
		entered, types := checkWalk(t, src, ast, policy)
		var cls []string
		for ty := range types {
			seenTypes[ty] = true
			cls = append(cls, "node="+ty)
		}
		sort.Strings(cls)
		ev.Case("walk", mode+"|"+src, entered >= 15, append(cls, "policy="+mode)...)
	})
}

// ---------- pruning as a metamorphic relation (independent of the reflection ground truth and of any node classification)

type logEntry struct {
	typ, str string
	size     int // number of entries of the subtree, the node included
}

type fullVisitor struct {
	log   *[]logEntry
	stack *[]int
}

func (v fullVisitor) Enter(n js.INode) js.IVisitor {
	*v.stack = append(*v.stack, len(*v.log))
	*v.log = append(*v.log, logEntry{typ: fmt.Sprintf("%T", n), str: n.String()})
	return v
}

func (v fullVisitor) Exit(n js.INode) {
	s := *v.stack
	i := s[len(s)-1]
	*v.stack = s[:len(s)-1]
	(*v.log)[i].size = len(*v.log) - i
}

type pruneVisitor struct {
	full  []logEntry
	prune map[int]bool
	fi    *int // index into the full log of the node that must be entered next
	fail  func(format string, args ...any)
	depth *int
}

func (v pruneVisitor) Enter(n js.INode) js.IVisitor {
	i := *v.fi
	if i >= len(v.full) {
		v.fail("a node %T %q is entered after the %d nodes of the full traversal (minus the pruned subtrees) have all been seen", n, n.String(), len(v.full))
		return nil
	}
	if e := v.full[i]; e.typ != fmt.Sprintf("%T", n) || e.str != n.String() {
		v.fail("with subtrees pruned, Enter receives %T %q where the full traversal has %s %q next (entry %d)", n, n.String(), e.typ, e.str, i)
		return nil
	}
	if v.prune[i] {
		*v.fi = i + v.full[i].size
		return nil
	}
	*v.fi = i + 1
	*v.depth++
	return v
}

func (v pruneVisitor) Exit(n js.INode) { *v.depth-- }

func TestProp_PruneMetamorphic(t *testing.T) {
	ev.Describe("prune", "the same trees; first a visitor that descends everywhere records the Enter sequence (type, String()) and, from the Enter/Exit brackets, the extent of every node's subtree; then a second walk returns nil at a drawn set of entries; oracle: the second Enter sequence is exactly the first with the subtrees of the pruned entries cut out, nothing more (a sibling skipped together with a pruned node) and nothing less, whatever kind of node is pruned (statements, expressions, bindings, identifiers, import/export specifiers, property names, ...), and Enter/Exit stay balanced; non-trivial = >= 15 entries and >= 1 pruned entry that has a following sibling")
	ev.Check(t, 5000, func(t *rapid.T) {
		src, ast := genTree(t)
		var full []logEntry
		var stack []int
		js.Walk(fullVisitor{&full, &stack}, ast)
		if len(stack) != 0 {
			t.Fatalf("%q: %d nodes entered but not exited in the full traversal", src, len(stack))
		}
		prune := map[int]bool{}
		mode := rapid.SampledFrom([]string{"few", "leaves", "type", "dense"}).Draw(t, "prunemode")
		switch mode {
		case "few":
			for k := rapid.IntRange(1, 3).Draw(t, "nprune"); k > 0 && len(full) > 1; k-- {
				prune[rapid.IntRange(1, len(full)-1).Draw(t, "at")] = true
			}
		case "leaves":
			// stopping at a leaf must not change anything but that leaf's (empty) subtree
			p := rapid.IntRange(1, 4).Draw(t, "every")
			for i, e := range full {
				if i > 0 && e.size == 1 && i%p == 0 {
					prune[i] = true
				}
			}
		case "type":
			if len(full) > 1 {
				ty := full[rapid.IntRange(1, len(full)-1).Draw(t, "typeof")].typ
				for i, e := range full {
					if i > 0 && e.typ == ty {
						prune[i] = true
					}
				}
			}
		case "dense":
			mask := rapid.Uint64().Draw(t, "mask")
			for i := range full {
				if i > 0 && (mask>>(uint(i)%64))&1 == 1 {
					prune[i] = true
				}
			}
		}
		fi, depth := 0, 0
		failed := ""
		v := pruneVisitor{full: full, prune: prune, fi: &fi, depth: &depth, fail: func(format string, args ...any) {
			if failed == "" {
				failed = fmt.Sprintf(format, args...)
			}
		}}
		js.Walk(v, ast)
		if failed != "" {
			t.Fatalf("%q (pruned entries %v): %s", src, keys(prune), failed)
		}
		if fi != len(full) {
			e := full[fi]
			t.Fatalf("%q (pruned entries %v): the walk ends although %s %q (entry %d of the full traversal) is not below any pruned node and was never entered", src, keys(prune), e.typ, e.str, fi)
		}
		if depth != 0 {
			t.Fatalf("%q: Enter/Exit unbalanced by %d with pruning", src, depth)
		}
		sibling := false
		for i := range prune {
			if i+full[i].size < len(full) {
				sibling = true
			}
		}
		ev.Case("prune", mode+"|"+fmt.Sprint(keys(prune))+"|"+src, len(full) >= 15 && sibling, "mode="+mode)
	})
}

func keys(m map[int]bool) []int {
	out := make([]int, 0, len(m))
	for k := range m {
		out = append(out, k)
	}
	sort.Ints(out)
	return out
}
