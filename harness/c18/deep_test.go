package c18

import (
	"fmt"
	"strings"
	"testing"

	"github.com/tdewolff/parse/v2"
	"github.com/tdewolff/parse/v2/js"

	"verif/internal/ev"
)

// TestProp_DeepAndNew: trees as deep as the parser builds them (several tree levels per level of nesting: a nest of 900
// constructs is some thousand nodes deep), and programs in syntax that is newer than the parser (where it accepts them, the
// tree it builds is walked like any other)
func TestProp_DeepAndNew(t *testing.T) {
	ev.Describe("deep", "13 constructs nested 100 and 450 deep, four of them (calls, arrays, objects, parentheses) 900 deep (calls, arrays, objects, parentheses, blocks, functions, arrows, classes, templates, conditionals, member chains, binary chains, mixtures) and 24 programs in syntax of recent editions (import attributes, decorators, using declarations, pipeline, records, do expressions, regexp modifiers, hashbang, top-level await forms): whatever js.Parse accepts is walked with the full policy and with two nodes pruned and validated against the reflection truth like the generated trees; non-trivial = accepted")
	type shape struct{ pre, mid, post string }
	shapes := []shape{{"f(", "x", ")"}, {"[", "x", "]"}, {"({a:", "x", "})"}, {"(", "x", ")"}, {"{", "x;", "}"}, {"(function(){", "x;", "})"}, {"(()=>", "x", ")"}, {"(class{m(){", "x;", "}})"},
		{"`${", "x", "}`"}, {"a?", "x", ":b"}, {"a.b(", "x", ").c"}, {"f(x,", "y", ",z)"}, {"[function(){return f(", "x", ")}]"}}
	for i, sh := range shapes {
		depths := []int{100, 450}
		if i < 4 {
			depths = []int{100, 900} // (the validation takes time quadratic in the depth: the deepest nests for four shapes only)
		}
		for _, d := range depths {
			src := strings.Repeat(sh.pre, d) + sh.mid + strings.Repeat(sh.post, d)
			ast, err := js.Parse(parse.NewInputString(src), js.Options{})
			if err != nil {
				continue // beyond the parser's nesting limits
			}
			n, _ := checkWalk(tf{t}, fmt.Sprintf("%q x %d", sh.pre, d), ast, func(n js.INode, idx int) (bool, bool) { return false, false })
			checkWalk(tf{t}, fmt.Sprintf("%q x %d (pruned)", sh.pre, d), ast, func(n js.INode, idx int) (bool, bool) { return idx == 50 || idx == d, false })
			ev.Case("deep", fmt.Sprintf("%q x %d", sh.pre, d), n > 50, "nest")
		}
	}
	for _, src := range []string{
		"import x from 'm' with {type: 'json'}", "import {a} from 'm' with {type: 'json', x: {y: [z]}}", "export {a} from 'm' with {type: 'css'}", "import 'm' with {}", "import x from 'm' assert {type: 'json'}",
		"@dec class A {}", "class A { @dec m(){} @(f(x)) static p = 1 }", "using x = f(y)", "await using x = f(y)", "for (using x of y);", "x = a |> f(%)", "x = #{a: 1, b: #[2, c]}", "x = do { if (a) b; else c }",
		"x = /(?i:a)b/v", "#!/usr/bin/env node\nx = y", "x = await import('m', {with: {type: 'json'}})", "class A { static accessor x = 1; accessor y }", "x = a?.b?.(c)?.[d]", "label: { break label }", "x = import.meta.url", "x = new.target",
		"async function* f(){ for await (const x of y) yield* x }", "export * as ns from 'm'", "export default class extends f(a) {}", "x = class { static #p = 1; static { this.#p } }",
	} {
		for _, o := range []js.Options{{}, {Inline: true}} {
			ast, err := js.Parse(parse.NewInputString(src), o)
			if err != nil {
				continue
			}
			checkWalk(tf{t}, src, ast, func(n js.INode, idx int) (bool, bool) { return false, false })
			ev.Case("deep", src, true, "recent-syntax")
		}
	}
}
