package c18

import (
	"testing"

	"github.com/tdewolff/parse/v2"
	"github.com/tdewolff/parse/v2/js"
)

type tf struct{ t *testing.T }

func (f tf) Fatalf(format string, args ...any) { f.t.Errorf(format, args...) }

// D16 and the range-copy defect (fixed)
func TestRegress_ClassElements(t *testing.T) {
	for _, src := range []string{"class A{[x](){}}", "x=({[y](){}})", "class B{#p(){} #f=1; static #g}", "class C{get [k](){} static{a}}", "class v1{#f;;}"} {
		ast, err := js.Parse(parse.NewInputString(src), js.Options{})
		if err != nil {
			t.Fatal(err)
		}
		checkWalk(tf{t}, src, ast, func(n js.INode, idx int) (bool, bool) { return false, false })
	}
}
