package c19

import (
	"bytes"
	"encoding/binary"
	"fmt"
	"io"
	"testing"

	"github.com/tdewolff/parse/v2"
	"pgregory.net/rapid"

	"verif/internal/ev"
	"verif/internal/gen"
)

// TestProp_BigStrings: byte strings of a megabyte and more between typed values, on every backend
func TestProp_BigStrings(t *testing.T) {
	tmpDir = t.TempDir()
	ev.Describe("bigstrings", "u32, a byte string of 1 MiB-1 .. 2 MiB+3 bytes (sizes next to 1<<20 and 1<<21), u64, a short byte string, u16, written by BinaryWriter and read back through each of the 11 constructors/backends; oracle: every value and byte string equals what was written, Pos/Len track the bytes, Err()==nil up to the end, then io.EOF; non-trivial = every case")
	bigData = true
	defer func() { bigData = false }()
	ev.Check(t, 12, func(t *rapid.T) {
		n := rapid.SampledFrom([]int{1<<20 - 1, 1 << 20, 1<<20 + 1, 1<<20 + 4096, 3 << 19, 1<<21 - 1, 1<<21 + 3}).Draw(t, "n")
		big := make([]byte, n)
		for i := range big {
			big[i] = byte(i*7 + i>>8)
		}
		little := rapid.Bool().Draw(t, "little")
		w := parse.NewBinaryWriter(nil)
		if little {
			w.ByteOrder = binary.LittleEndian
		}
		w.WriteUint32(0xA1B2C3D4)
		w.WriteBytes(big)
		w.WriteUint64(0x0102030405060708)
		w.WriteString("tail")
		w.WriteUint16(0xBEEF)
		data := w.Bytes()
		if len(data) != 4+n+8+4+2 {
			t.Fatalf("BinaryWriter holds %d bytes, want %d", len(data), 4+n+8+4+2)
		}
		for _, backend := range backends {
			o := open(t, backend, append([]byte(nil), data...))
			r := o.r
			if little {
				r.ByteOrder = binary.LittleEndian
			}
			if a := r.ReadUint32(); a != 0xA1B2C3D4 {
				t.Fatalf("%s: first value %#x", backend, a)
			}
			if b := r.ReadBytes(int64(n)); !bytes.Equal(b, big) {
				t.Fatalf("%s: the byte string of %d bytes comes back with %d bytes, equal=%v (Err %v)", backend, n, len(b), bytes.Equal(b, big), r.Err())
			}
			c, s, d := r.ReadUint64(), r.ReadString(4), r.ReadUint16()
			if c != 0x0102030405060708 || s != "tail" || d != 0xBEEF || r.Err() != nil || r.Pos() != int64(len(data)) || r.Len() != 0 {
				t.Fatalf("%s: behind a byte string of %d bytes: %#x %q %#x, Pos %d of %d, Len %d, Err %v", backend, n, c, s, d, r.Pos(), len(data), r.Len(), r.Err())
			}
			if r.ReadUint8() != 0 || r.Err() != io.EOF {
				t.Fatalf("%s: reading past the end gives Err %v", backend, r.Err())
			}
			o.cleanup()
		}
		ev.Case("bigstrings", fmt.Sprintf("n=%d little=%v", n, little), true, fmt.Sprintf("n=%d", n))
	})
}

// TestProp_ParallelReadAt: io.ReaderAt allows parallel ReadAt calls on one source; clones read on their own
func TestProp_ParallelReadAt(t *testing.T) {
	tmpDir = t.TempDir()
	ev.Describe("parallel", "200-5000 bytes behind each backend that can seek (memory, reader with Bytes(), ReadSeeker, ReaderAt, ReadAll, *os.File, path, mmap) x 4-10 goroutines that call ReadAt(p, off) 300 times each at offsets of their own and read through a clone of their own, first one after the other and then all at once (3 rounds behind a barrier); oracle: every ReadAt and every clone read returns the bytes at its offset, as alone; non-trivial = every case")
	ev.Check(t, 25, func(t *rapid.T) {
		data := rapid.SliceOfN(rapid.Byte(), 200, 5000).Draw(t, "data")
		n := rapid.IntRange(4, 10).Draw(t, "goroutines")
		for _, backend := range backends {
			if backend == "sequential" {
				continue
			}
			o := open(t, backend, append([]byte(nil), data...))
			r := o.r
			clones := make([]*parse.BinaryReader, n)
			for i := range clones {
				clones[i] = r.Clone()
			}
			bad, alone, together := gen.Concurrently(n, 3, func(i int) string {
				p := make([]byte, 16)
				ok := true
				for k := 0; k < 300; k++ {
					off := (i*977 + k*131) % (len(data) - 16)
					m, err := r.ReadAt(p, int64(off))
					ok = ok && m == 16 && err == nil && bytes.Equal(p, data[off:off+16])
					c := clones[i]
					c.Seek(int64(off), io.SeekStart)
					ok = ok && bytes.Equal(c.ReadBytes(8), data[off:off+8])
				}
				return fmt.Sprint(ok)
			})
			if bad >= 0 || alone == "false" {
				t.Fatalf("%s: goroutine %d of %d: ReadAt and clone reads are right alone: %s, together: %s", backend, bad, n, alone, together)
			}
			o.cleanup()
		}
		ev.Case("parallel", fmt.Sprintf("len=%d goroutines=%d", len(data), n), true, fmt.Sprintf("goroutines=%d", n))
	})
}
