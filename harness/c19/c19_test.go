package c19

import (
	"bytes"
	"encoding/binary"
	"fmt"
	"io"
	"math"
	"os"
	"path/filepath"
	"strings"
	"testing"
	"testing/iotest"

	"github.com/tdewolff/parse/v2"
	"pgregory.net/rapid"

	"verif/internal/ev"
)

func TestMain(m *testing.M) { ev.Main(m, "C19") }

// ---------- typed values

type val struct {
	kind string // u8 u16 u24 u32 u64 i8 i16 i24 i32 i64 bytes
	u    uint64
	b    []byte
	flip bool // written and read in the other byte order than the script's (the order may change from value to value)
	via  int // byte strings: 0 WriteBytes/ReadBytes, 1 Write (io.Writer)/ReadBytes, 2 WriteString/ReadString
}

func (v val) size() int {
	switch v.kind {
	case "u8", "i8":
		return 1
	case "u16", "i16":
		return 2
	case "u24", "i24":
		return 3
	case "u32", "i32":
		return 4
	case "u64", "i64":
		return 8
	}
	return len(v.b)
}

func (v val) String() string {
	if v.kind == "bytes" {
		return fmt.Sprintf("bytes(%d)", len(v.b))
	}
	return fmt.Sprintf("%s(%#x)", v.kind, v.u)
}

var kinds = []string{"u8", "u16", "u24", "u32", "u64", "i8", "i16", "i24", "i32", "i64", "bytes"}

func genVal(t *rapid.T) val {
	k := rapid.SampledFrom(kinds).Draw(t, "kind")
	v := val{kind: k}
	if k == "bytes" {
		v.b = rapid.SliceOfN(rapid.Byte(), 0, 40).Draw(t, "bytes")
		v.via = rapid.IntRange(0, 2).Draw(t, "via")
		return v
	}
	u := rapid.OneOf(rapid.Uint64(), rapid.SampledFrom([]uint64{0, 1, 0x7f, 0x80, 0xff, 0x7fff, 0x8000, 0xffff, 0x7fffff, 0x800000, 0xffffff, 0x7fffffff, 0x80000000, 0xffffffff, 1 << 63, ^uint64(0), 0x0102030405060708})).Draw(t, "u")
	bits := uint(8 * v.size())
	if bits < 64 {
		u &= 1<<bits - 1
	}
	v.u = u
	return v
}

// reference encoding, independent of BinaryWriter
func refEncode(vals []val, scriptLittle bool) []byte {
	var out []byte
	for _, v := range vals {
		little := scriptLittle != v.flip
		if v.kind == "bytes" {
			out = append(out, v.b...)
			continue
		}
		n := v.size()
		for i := 0; i < n; i++ {
			shift := uint(8 * (n - 1 - i))
			if little {
				shift = uint(8 * i)
			}
			out = append(out, byte(v.u>>shift))
		}
	}
	return out
}

// refDecode: the value of the bytes in the given order (what a typed read at this position must return; the
// interleaved Read(p) calls consume bytes, so reads are not always aligned with the writes)
func refDecode(b []byte, little bool) uint64 {
	var u uint64
	for i := range b {
		if little {
			u |= uint64(b[i]) << uint(8*i)
		} else {
			u = u<<8 | uint64(b[i])
		}
	}
	return u
}

func write(w *parse.BinaryWriter, v val) {
	switch v.kind {
	case "u8":
		w.WriteUint8(uint8(v.u))
	case "u16":
		w.WriteUint16(uint16(v.u))
	case "u24":
		w.WriteUint24(uint32(v.u))
	case "u32":
		w.WriteUint32(uint32(v.u))
	case "u64":
		w.WriteUint64(v.u)
	case "i8":
		w.WriteInt8(int8(v.u))
	case "i16":
		w.WriteInt16(int16(v.u))
	case "i24":
		w.WriteInt24(int32(uint32(v.u)<<8) >> 8) // the sign-extended 24-bit value
	case "i32":
		w.WriteInt32(int32(v.u))
	case "i64":
		w.WriteInt64(int64(v.u))
	case "bytes":
		// the caller's buffer is the caller's again as soon as the call returns: it is overwritten afterwards
		mine := append([]byte(nil), v.b...)
		switch v.via {
		case 0:
			w.WriteBytes(mine)
		case 1:
			if n, err := w.Write(mine); n != len(mine) || err != nil {
				panic(fmt.Sprintf("BinaryWriter.Write(%d bytes) = %d, %v", len(mine), n, err))
			}
		default:
			w.WriteString(string(mine))
		}
		for i := range mine {
			mine[i] = 0xAA
		}
	}
}

// read returns the value read in the canonical form of val.u (zero-extended to the width), or the bytes
func read(r *parse.BinaryReader, v val) (uint64, []byte) {
	switch v.kind {
	case "u8":
		if v.u&1 == 1 {
			// the io.ByteReader spelling of the same read: its error is the reader's error state
			c, err := r.ReadByte()
			if (err != nil) != (r.Err() != nil) || err != nil && (err != r.Err() || c != 0) {
				panic(fmt.Sprintf("ReadByte() = %#x, %v while Err() = %v", c, err, r.Err()))
			}
			return uint64(c), nil
		}
		return uint64(r.ReadUint8()), nil
	case "u16":
		return uint64(r.ReadUint16()), nil
	case "u24":
		return uint64(r.ReadUint24()), nil
	case "u32":
		return uint64(r.ReadUint32()), nil
	case "u64":
		return r.ReadUint64(), nil
	case "i8":
		return uint64(uint8(r.ReadInt8())), nil
	case "i16":
		return uint64(uint16(r.ReadInt16())), nil
	case "i24":
		x := r.ReadInt24()
		if x < -1<<23 || x >= 1<<23 {
			// not a sign-extended 24-bit value: mark it so that it differs from every canonical form
			return 1<<40 | uint64(uint32(x)), nil
		}
		return uint64(uint32(x) & 0xffffff), nil
	case "i32":
		return uint64(uint32(r.ReadInt32())), nil
	case "i64":
		return uint64(r.ReadInt64()), nil
	}
	if v.via == 2 {
		return 0, []byte(r.ReadString(int64(len(v.b))))
	}
	return 0, r.ReadBytes(int64(len(v.b)))
}

// ---------- backends and contract-legal adversaries

type plainReader struct { // no Seek, no ReadAt, no Bytes
	data     []byte
	off      int
	chunk    int
	eofWith  bool
	scribble bool // uses the rest of p as scratch space (allowed by the io.Reader contract)
}

func (r *plainReader) Read(p []byte) (n int, err error) {
	if r.scribble {
		defer func() {
			for i := n; i < len(p); i++ {
				p[i] = 0xAA
			}
		}()
	}
	return r.read(p)
}

func (r *plainReader) read(p []byte) (int, error) {
	if r.off >= len(r.data) {
		return 0, io.EOF
	}
	n := len(p)
	if r.chunk > 0 && n > r.chunk {
		n = r.chunk
	}
	if n > len(r.data)-r.off {
		n = len(r.data) - r.off
	}
	copy(p, r.data[r.off:r.off+n])
	r.off += n
	if r.eofWith && r.off == len(r.data) && n > 0 {
		return n, io.EOF
	}
	return n, nil
}

type seekReader struct{ plainReader } // adds Seek

func (r *seekReader) Seek(off int64, whence int) (int64, error) {
	var abs int64
	switch whence {
	case 0:
		abs = off
	case 1:
		abs = int64(r.off) + off
	case 2:
		abs = int64(len(r.data)) + off
	default:
		return 0, fmt.Errorf("bad whence")
	}
	if abs < 0 {
		return 0, fmt.Errorf("negative position")
	}
	r.off = int(abs)
	return abs, nil
}

type readerAt struct { // ReaderAt only (plus a Read that must not be used for random access)
	data     []byte
	eofExact bool // return (n, io.EOF) when the read ends exactly at the end: legal per io.ReaderAt
}

func (r *readerAt) Read(p []byte) (int, error) {
	if len(r.data) == 0 {
		return 0, io.EOF // with no data the library cannot be told n > 0, so it reads sequentially
	}
	return 0, fmt.Errorf("sequential Read on the ReaderAt backend")
}
func (r *readerAt) ReadAt(p []byte, off int64) (int, error) {
	if off < 0 {
		return 0, fmt.Errorf("negative offset")
	}
	if off >= int64(len(r.data)) {
		return 0, io.EOF
	}
	n := copy(p, r.data[off:])
	if n < len(p) || (r.eofExact && int(off)+n == len(r.data)) {
		return n, io.EOF
	}
	return n, nil
}

type bytesReader struct{ data []byte }

func (r *bytesReader) Read(p []byte) (int, error) { return 0, io.EOF }
func (r *bytesReader) Bytes() []byte              { return r.data }

var backends = []string{"memory", "reader-bytes", "seeker-auto", "seeker-n", "readerat", "readall", "sequential", "osfile", "path", "mmap-path", "mmap-file"}

type opened struct {
	r          *parse.BinaryReader
	sequential bool
	cleanup    func()
}

var tmpDir string
var bigData bool // open() serves megabytes
var tmpCount int

func open(t *rapid.T, backend string, data []byte) opened {
	chunk := rapid.SampledFrom([]int{0, 1, 2, 7}).Draw(t, "chunk")
	eofWith := rapid.Bool().Draw(t, "eofWith")
	scribble := rapid.Bool().Draw(t, "scribble")
	if bigData {
		// megabytes: reads of a few bytes each, or a reader that scribbles over a megabyte per call, take for ever
		chunk, scribble = rapid.SampledFrom([]int{0, 4096, 65536, 1<<20 + 7}).Draw(t, "bigchunk"), false
	}
	mk := func(r io.Reader, n int64) opened {
		br, err := parse.NewBinaryReaderReader(r, n)
		if err != nil {
			t.Fatalf("%s: NewBinaryReaderReader: %v", backend, err)
		}
		return opened{r: br, cleanup: func() {}}
	}
	file := func() string {
		tmpCount++
		name := filepath.Join(tmpDir, fmt.Sprintf("f%d", tmpCount))
		if err := os.WriteFile(name, data, 0o600); err != nil {
			t.Fatalf("VERIF-INFRA cannot write temp file: %v", err)
		}
		return name
	}
	switch backend {
	case "memory":
		return opened{r: parse.NewBinaryReaderBytes(append([]byte(nil), data...)), cleanup: func() {}}
	case "reader-bytes":
		return mk(&bytesReader{append([]byte(nil), data...)}, rapid.SampledFrom([]int64{-1, 0, int64(len(data))}).Draw(t, "n"))
	case "seeker-auto":
		return mk(&seekReader{plainReader{data: data, chunk: chunk, eofWith: eofWith, scribble: scribble}}, -1)
	case "seeker-n":
		return mk(&seekReader{plainReader{data: data, chunk: chunk, eofWith: eofWith, scribble: scribble}}, int64(len(data)))
	case "readerat":
		if len(data) == 0 {
			return mk(&readerAt{data: data, eofExact: eofWith}, -1) // n must be > 0 for the ReaderAt backend; -1 reads everything
		}
		return mk(&readerAt{data: data, eofExact: eofWith}, int64(len(data)))
	case "readall":
		return mk(&plainReader{data: data, chunk: chunk, eofWith: eofWith, scribble: scribble}, -1)
	case "sequential":
		o := mk(&plainReader{data: data, chunk: chunk, eofWith: eofWith, scribble: scribble}, int64(len(data)))
		o.sequential = true
		return o
	case "osfile":
		name := file()
		f, err := os.Open(name)
		if err != nil {
			t.Fatalf("VERIF-INFRA %v", err)
		}
		var br *parse.BinaryReader
		if rapid.Bool().Draw(t, "viaReader") {
			br, err = parse.NewBinaryReaderReader(f, rapid.SampledFrom([]int64{-1, int64(len(data))}).Draw(t, "n"))
		} else {
			br, err = parse.NewBinaryReaderFile(f)
		}
		if err != nil {
			t.Fatalf("osfile: %v", err)
		}
		return opened{r: br, cleanup: func() { br.Close(); os.Remove(name) }}
	case "path":
		name := file()
		br, err := parse.NewBinaryReaderPath(name)
		if err != nil {
			t.Fatalf("path: %v", err)
		}
		return opened{r: br, cleanup: func() { br.Close(); os.Remove(name) }}
	case "mmap-path":
		name := file()
		br, err := parse.NewBinaryReaderMmapPath(name)
		if err != nil {
			t.Fatalf("mmap-path: %v", err)
		}
		return opened{r: br, cleanup: func() { br.Close(); os.Remove(name) }}
	case "mmap-file":
		name := file()
		f, err := os.Open(name)
		if err != nil {
			t.Fatalf("VERIF-INFRA %v", err)
		}
		br, err := parse.NewBinaryReaderMmapFile(f)
		if err != nil {
			t.Fatalf("mmap-file: %v", err)
		}
		return opened{r: br, cleanup: func() { br.Close(); f.Close(); os.Remove(name) }}
	}
	panic(backend)
}

// ---------- the round trip on every backend

func TestProp_RoundTrip(t *testing.T) {
	tmpDir = t.TempDir()
	ev.Describe("roundtrip", "a list of 1-12 typed writes (u8..u64, i8..i64, byte strings 0-40 written with WriteBytes, Write or WriteString and read with ReadBytes or ReadString) x byte order, written by BinaryWriter (bytes compared with an independent encoder, destination prefix preserved), truncated at a drawn byte (half of the cases: not truncated), served by each of the 11 constructors/backends (memory, reader with Bytes(), ReadSeeker with n<0 and n given, ReaderAt, ReadAll, sequential reader, *os.File via File/Reader, path, mmap path/file) behind contract-legal adversaries (1/2/7-byte reads, (n,io.EOF) with the last bytes, ReadAt returning (n,io.EOF) at the exact end); typed reads in order interleaved with Pos/Len/Err, Read(p), ReadAt(p,off), Clone; oracle: values == written, Pos == consumed, Len == total-Pos, Err()==nil until a read needs more bytes than remain, then zero values and io.EOF; non-trivial = >= 3 typed values and a read straddling the end, an exact-fit final read or a ReadAt")
	ev.Check(t, 500, func(t *rapid.T) {
		little := rapid.Bool().Draw(t, "little")
		nv := rapid.IntRange(1, 12).Draw(t, "nvals")
		vals := make([]val, nv)
		mixed := rapid.IntRange(0, 3).Draw(t, "mixedorder") == 0
		for i := range vals {
			vals[i] = genVal(t)
			// a stream may change its byte order on the way (behind a byte-order mark, say): ByteOrder is a field
			vals[i].flip = mixed && rapid.Bool().Draw(t, "flip")
		}
		pre := rapid.SliceOfN(rapid.Byte(), 0, 3).Draw(t, "prefix")
		w := parse.NewBinaryWriter(append(make([]byte, 0, len(pre)+rapid.IntRange(0, 16).Draw(t, "spare")), pre...))
		if len(pre) == 0 && rapid.Bool().Draw(t, "nilbuffer") {
			w = parse.NewBinaryWriter(nil)
		}
		if little {
			w.ByteOrder = binary.LittleEndian
		}
		for _, v := range vals {
			w.ByteOrder = binary.BigEndian
			if little != v.flip {
				w.ByteOrder = binary.LittleEndian
			}
			write(w, v)
		}
		full := refEncode(vals, little)
		if got := w.Bytes(); !bytes.Equal(got, append(append([]byte(nil), pre...), full...)) {
			t.Fatalf("BinaryWriter wrote % x for %v (little=%v) after prefix % x, want % x", got, vals, little, pre, full)
		}
		if w.Len() != int64(len(pre)+len(full)) {
			t.Fatalf("BinaryWriter.Len() = %d, want %d", w.Len(), len(pre)+len(full))
		}
		cut := len(full)
		if rapid.Bool().Draw(t, "truncate") {
			cut = rapid.IntRange(0, len(full)).Draw(t, "cut")
		}
		data := full[:cut]
		total := int64(len(data))
		// script of interleaved extra operations, drawn once and replayed on every backend
		type extra struct {
			op  string
			a   int
			off int
		}
		extras := make([][]extra, nv+1)
		sawReadAt := false
		for i := range extras {
			for k := rapid.IntRange(0, 2).Draw(t, "nextra"); k > 0; k-- {
				e := extra{op: rapid.SampledFrom([]string{"state", "read", "readat", "clone", "read0", "state", "read", "readat", "clone", "read0", "readhuge"}).Draw(t, "op")}
				e.a = rapid.IntRange(0, 9).Draw(t, "len")
				e.off = rapid.IntRange(0, len(data)+2).Draw(t, "off")
				extras[i] = append(extras[i], e)
				sawReadAt = sawReadAt || e.op == "readat"
			}
		}
		straddle, exact := false, false
		for _, backend := range backends {
			// the backend serves its own copy of the bytes: what the caller does with a byte string it was handed (append to
			// it) must not reach the data that are read afterwards, which are compared with the untouched original
			o := open(t, backend, append(make([]byte, 0, len(data)+8), data...))
			r := o.r
			scriptLittle := little
			curLittle := little
			if little {
				r.ByteOrder = binary.LittleEndian
			}
			pos := int64(0)
			var wantErr error
			check := func(when string) {
				if r.Pos() != pos {
					t.Fatalf("%s: Pos() = %d, want %d %s; vals %v cut %d", backend, r.Pos(), pos, when, vals, cut)
				}
				if r.Len() != total-pos {
					t.Fatalf("%s: Len() = %d, want %d %s", backend, r.Len(), total-pos, when)
				}
				if r.Err() != wantErr {
					t.Fatalf("%s: Err() = %v, want %v %s; vals %v cut %d data % x", backend, r.Err(), wantErr, when, vals, cut, data)
				}
			}
			doExtra := func(e extra) {
				switch e.op {
				case "state":
					check("(state)")
				case "readhuge":
					// a length taken from corrupt data: far more than there is. The read runs past the end like any other.
					if o.sequential || wantErr != nil {
						return
					}
					huge := rapid.SampledFrom([]int64{1 << 50, 1 << 62, math.MaxInt64, total - pos + 1, total - pos + 4096}).Draw(t, "huge") // (lengths a failing allocation answers with a panic, not with a fatal out-of-memory error)
					var b []byte
					func() {
						defer func() {
							if p := recover(); p != nil {
								t.Fatalf("%s: ReadBytes(%d) at %d/%d panics: %v", backend, huge, pos, total, p)
							}
						}()
						b = r.ReadBytes(huge)
					}()
					if int64(len(b)) > total-pos || !bytes.Equal(b, data[pos:pos+int64(len(b))]) {
						t.Fatalf("%s: ReadBytes(%d) at %d/%d = % x", backend, huge, pos, total, b)
					}
					wantErr = io.EOF
					if r.Err() != wantErr {
						t.Fatalf("%s: Err() = %v after ReadBytes(%d) at %d/%d, want io.EOF", backend, r.Err(), huge, pos, total)
					}
					if r.Pos() < pos || r.Pos() > total {
						t.Fatalf("%s: Pos() = %d after ReadBytes(%d) at %d/%d", backend, r.Pos(), huge, pos, total)
					}
					pos = r.Pos()
					straddle = true
				case "read0":
					n, err := r.Read(nil)
					if n != 0 || (err != nil && !(err == io.EOF && pos >= total)) {
						t.Fatalf("%s: Read(nil) at %d/%d = %d, %v", backend, pos, total, n, err)
					}
				case "read":
					if wantErr != nil {
						return
					}
					p := make([]byte, e.a)
					n, err := r.Read(p)
					avail := total - pos
					if e.a == 0 {
						if n != 0 || (err != nil && !(err == io.EOF && avail == 0)) {
							t.Fatalf("%s: Read(0 bytes) = %d, %v", backend, n, err)
						}
						return
					}
					if int64(n) > avail || n > e.a || n < 0 {
						t.Fatalf("%s: Read(%d) at %d/%d returned n=%d", backend, e.a, pos, total, n)
					}
					if !bytes.Equal(p[:n], data[pos:pos+int64(n)]) {
						t.Fatalf("%s: Read(%d) at %d = % x, want % x", backend, e.a, pos, p[:n], data[pos:pos+int64(n)])
					}
					if n == 0 && err == nil {
						t.Fatalf("%s: Read(%d) at %d/%d = 0, nil", backend, e.a, pos, total)
					}
					if err != nil && err != io.EOF {
						t.Fatalf("%s: Read(%d) at %d/%d: %v", backend, e.a, pos, total, err)
					}
					if err == io.EOF && int64(n) < avail {
						t.Fatalf("%s: Read(%d) at %d/%d = %d, io.EOF although %d bytes remain", backend, e.a, pos, total, n, avail)
					}
					if avail == 0 && err != io.EOF {
						t.Fatalf("%s: Read(%d) at the end = %d, %v, want 0, io.EOF", backend, e.a, n, err)
					}
					pos += int64(n)
					check("after Read")
				case "readat":
					p := make([]byte, e.a)
					off := int64(e.off)
					before := r.Pos()
					n, err := r.ReadAt(p, off)
					if r.Pos() != before {
						t.Fatalf("%s: ReadAt moved Pos from %d to %d", backend, before, r.Pos())
					}
					if o.sequential {
						// in-order reads only: anything else is answered with an explicit error, never stale data
						if off != before && e.a > 0 && (err == nil || n != 0) {
							t.Fatalf("%s: ReadAt(%d, %d) at pos %d = %d, %v: want an explicit error", backend, e.a, off, before, n, err)
						}
						if off == before && e.a > 0 {
							// it consumed the underlying reader: the backend cannot continue in order
							pos = -1
						}
						return
					}
					if e.a == 0 {
						if n != 0 {
							t.Fatalf("%s: ReadAt(0 bytes) = %d", backend, n)
						}
						return
					}
					want := []byte{}
					if off < total {
						end := off + int64(e.a)
						if end > total {
							end = total
						}
						want = data[off:end]
					}
					if n != len(want) || !bytes.Equal(p[:n], want) {
						t.Fatalf("%s: ReadAt(%d, %d) of % x = %d % x, want % x", backend, e.a, off, data, n, p[:n], want)
					}
					if n < e.a && err == nil {
						t.Fatalf("%s: ReadAt(%d, %d) = %d, nil: a short ReadAt must return an error", backend, e.a, off, n)
					}
					if n == e.a && err != nil && !(err == io.EOF && off+int64(n) == total) {
						t.Fatalf("%s: ReadAt(%d, %d) = %d, %v", backend, e.a, off, n, err)
					}
				case "clone":
					if o.sequential || wantErr != nil {
						return
					}
					c := r.Clone()
					if c.Pos() != pos || c.Len() != total-pos || c.Err() != wantErr {
						t.Fatalf("%s: Clone() state differs", backend)
					}
					if pos < total {
						if b := c.ReadUint8(); b != data[pos] {
							t.Fatalf("%s: clone read %#x at %d, want %#x", backend, b, pos, data[pos])
						}
					}
					// the clone reads on like the original would: same byte order, its own position
					cpos := pos + 1
					for _, w := range []int64{2, 3, 4, 8} {
						if cpos+w > total {
							break
						}
						var got uint64
						switch w {
						case 2:
							got = uint64(c.ReadUint16())
						case 3:
							got = uint64(c.ReadUint24())
						case 4:
							got = uint64(c.ReadUint32())
						case 8:
							got = c.ReadUint64()
						}
						if want := refDecode(data[cpos:cpos+w], curLittle); got != want {
							t.Fatalf("%s: clone read a %d-byte value at %d (little=%v) = %#x, want %#x", backend, w, cpos, curLittle, got, want)
						}
						cpos += w
						if c.Pos() != cpos || c.Err() != nil {
							t.Fatalf("%s: clone Pos() = %d, Err() = %v after reading up to %d", backend, c.Pos(), c.Err(), cpos)
						}
					}
					check("after reading from a clone")
				}
			}
			type heldBytes struct {
				b       []byte
				pos, sz int64
			}
			var held []heldBytes
			checkHeld := func() {
				for _, h := range held {
					if !bytes.Equal(h.b, data[h.pos:h.pos+h.sz]) {
						t.Fatalf("%s: the byte string read at %d (% x) reads % x after later reads of the script", backend, h.pos, data[h.pos:h.pos+h.sz], h.b)
					}
				}
			}
			for i, v := range vals {
				little := scriptLittle != v.flip
				curLittle = little
				r.ByteOrder = binary.BigEndian
				if little {
					r.ByteOrder = binary.LittleEndian
				}
				for _, e := range extras[i] {
					if pos >= 0 {
						doExtra(e)
					}
				}
				if pos < 0 {
					break
				}
				u, b := read(r, v)
				checkHeld()
				sz := int64(v.size())
				if pos+sz <= total && wantErr == nil {
					if v.kind == "bytes" {
						if !bytes.Equal(b, data[pos:pos+sz]) {
							t.Fatalf("%s: ReadBytes(%d) at %d = % x, want % x", backend, sz, pos, b, data[pos:pos+sz])
						}
						// a byte string that was read back stays that byte string while later values are read
						held = append(held, heldBytes{b, pos, sz})
						// and it is the caller's: appending to it does not write into the reader's data
						_ = append(b, 0xEE, 0xEE, 0xEE, 0xEE, 0xEE, 0xEE, 0xEE, 0xEE, 0xEE)[:len(b)]
					} else if want := refDecode(data[pos:pos+sz], little); u != want {
						t.Fatalf("%s: read %s at %d (little=%v) = %#x, want %#x; data % x", backend, v.kind, pos, little, u, want, data)
					}
					pos += sz
					if pos == total {
						exact = true
					}
					check(fmt.Sprintf("after reading %s", v))
				} else {
					if sz > 0 || wantErr != nil {
						if sz > 0 && wantErr == nil {
							straddle = straddle || pos < total
							wantErr = io.EOF
						}
						if v.kind == "bytes" {
							// a short byte string may be returned, but never bytes that are not in the data
							if int64(len(b)) > total-pos || !bytes.Equal(b, data[pos:pos+int64(len(b))]) {
								t.Fatalf("%s: ReadBytes(%d) at %d/%d = % x", backend, sz, pos, total, b)
							}
						} else if u != 0 {
							t.Fatalf("%s: read %s at %d/%d past the end = %#x, want the zero value", backend, v, pos, total, u)
						}
					}
					if r.Err() != wantErr {
						t.Fatalf("%s: Err() = %v, want %v after reading %s at %d/%d; vals %v data % x", backend, r.Err(), wantErr, v, pos, total, vals, data)
					}
					if r.Pos() < pos || r.Pos() > total {
						t.Fatalf("%s: Pos() = %d after a read past the end at %d/%d", backend, r.Pos(), pos, total)
					}
					pos = r.Pos()
					if r.Len() != total-pos {
						t.Fatalf("%s: Len() = %d, want %d", backend, r.Len(), total-pos)
					}
				}
			}
			o.cleanup()
			ev.Count("roundtrip", "backend="+backend, 1)
		}
		var sb strings.Builder
		fmt.Fprintf(&sb, "little=%v cut=%d/%d", little, cut, len(full))
		for _, v := range vals {
			sb.WriteString(" " + v.String())
		}
		ev.Case("roundtrip", sb.String(), nv >= 3 && (straddle || exact || sawReadAt), fmt.Sprintf("straddle=%v", straddle), fmt.Sprintf("exactfit=%v", exact))
	})
}

// ---------- Seek against bytes.Reader, io contracts through testing/iotest

func TestProp_Seek(t *testing.T) {
	tmpDir = t.TempDir()
	ev.Describe("seek", "data of 0-40 bytes on every backend; a sequence of Seek(off, whence) with whence in {0,1,2,3} and targets in [-3, len+3], each followed by a one-byte read; oracle: for targets inside [0,len] identical to bytes.Reader (returned offset, then the byte read); a negative target must fail; any failing Seek leaves the position unchanged; testing/iotest.TestReader passes on every seekable backend; non-trivial = >= 2 successful seeks incl. whence 2 or 1")
	ev.Check(t, 800, func(t *rapid.T) {
		dl := rapid.IntRange(0, 40).Draw(t, "datalen")
		data := rapid.SliceOfN(rapid.Byte(), dl, dl).Draw(t, "data")
		type sk struct {
			off    int64
			whence int
		}
		n := rapid.IntRange(1, 8).Draw(t, "nseek")
		seeks := make([]sk, n)
		for i := range seeks {
			seeks[i] = sk{int64(rapid.IntRange(-len(data)-3, len(data)+3).Draw(t, "off")), rapid.SampledFrom([]int{0, 1, 2, 0, 1, 2, 3}).Draw(t, "whence")}
		}
		okSeeks, sawRel := 0, false
		// in half of the cases a read runs past the end somewhere in the sequence: Seek goes on working behind it
		failAt := -1
		if rapid.Bool().Draw(t, "failedread") {
			failAt = rapid.IntRange(0, n-1).Draw(t, "failat")
		}
		for _, backend := range backends {
			o := open(t, backend, data)
			r := o.r
			ref := bytes.NewReader(data)
			pos := int64(0)
			for si, s := range seeks {
				if si == failAt && !o.sequential {
					r.ReadBytes(int64(len(data)) - pos + 1)
					if r.Err() != io.EOF {
						t.Fatalf("%s: Err() = %v after a read past the end", backend, r.Err())
					}
					pos = r.Pos()
					if pos < 0 || pos > int64(len(data)) {
						t.Fatalf("%s: Pos() = %d after a read past the end of %d bytes", backend, pos, len(data))
					}
					ref.Seek(pos, 0)
				}
				var target int64
				switch s.whence {
				case 0:
					target = s.off
				case 1:
					target = pos + s.off
				case 2:
					target = int64(len(data)) + s.off
				}
				got, err := r.Seek(s.off, s.whence)
				if s.whence == 3 {
					if err == nil {
						t.Fatalf("%s: Seek(%d, 3) succeeded", backend, s.off)
					}
					continue
				}
				if target >= 0 && target <= int64(len(data)) {
					want, _ := ref.Seek(s.off, s.whence)
					if err != nil || got != want {
						t.Fatalf("%s: Seek(%d, %d) from %d of %d = %d, %v; bytes.Reader gives %d", backend, s.off, s.whence, pos, len(data), got, err, want)
					}
					pos = want
					okSeeks++
					sawRel = sawRel || s.whence != 0
					if r.Pos() != pos || r.Len() != int64(len(data))-pos {
						t.Fatalf("%s: after Seek Pos()=%d Len()=%d, want %d %d", backend, r.Pos(), r.Len(), pos, int64(len(data))-pos)
					}
					if !o.sequential {
						// the byte at the new position is the one bytes.Reader reads
						c := r.Clone()
						b, e1 := c.ReadByte()
						wb, e2 := ref.ReadByte()
						ref.Seek(pos, 0)
						if (e1 == nil) != (e2 == nil) || b != wb {
							t.Fatalf("%s: after Seek(%d, %d) ReadByte = %#x, %v; bytes.Reader %#x, %v", backend, s.off, s.whence, b, e1, wb, e2)
						}
					}
				} else {
					if target < 0 && err == nil {
						t.Fatalf("%s: Seek(%d, %d) from %d to a negative position succeeded", backend, s.off, s.whence, pos)
					}
					if err != nil && r.Pos() != pos {
						t.Fatalf("%s: failed Seek moved the position from %d to %d", backend, pos, r.Pos())
					}
					if err == nil {
						// beyond the end: io.Seeker allows it; keep the model in step
						pos = got
						if got != target {
							t.Fatalf("%s: Seek(%d, %d) = %d, want %d", backend, s.off, s.whence, got, target)
						}
					}
				}
			}
			o.cleanup()
			if !o.sequential {
				o2 := open(t, backend, data)
				if err := iotest.TestReader(o2.r, data); err != nil {
					t.Fatalf("%s: testing/iotest.TestReader on % x: %v", backend, data, err)
				}
				o2.cleanup()
			}
		}
		ev.Case("seek", fmt.Sprintf("% x %v", data, seeks), okSeeks >= 2*len(backends) && sawRel, fmt.Sprintf("len=%d", len(data)/10*10))
	})
}

// ---------- bitmaps

func TestProp_Bitmap(t *testing.T) {
	ev.Describe("bitmap", "random bit strings of 0-200 bits through BitmapWriter (started on a recycled buffer: length 0, up to 40 stale bytes of capacity; or on a zeroed buffer of 1-30 bytes) then BitmapReader; any buffer of 0-24 bytes read bit by bit; oracle: bits come back in order, exactly 8*len(buf) reads succeed and equal the MSB-first bits before EOF()/false; non-trivial = >= 9 bits")
	ev.Check(t, 20000, func(t *rapid.T) {
		bits := rapid.SliceOfN(rapid.Bool(), 0, 200).Draw(t, "bits")
		// a recycled buffer: length 0, capacity full of stale bytes
		pre := rapid.SliceOfN(rapid.Byte(), 0, 40).Draw(t, "stale")[:0]
		if k := rapid.IntRange(0, 30).Draw(t, "presized"); k > 0 && rapid.Bool().Draw(t, "usepresized") {
			// or a buffer of the expected size, zeroed: the bits are written from its first byte on
			pre = make([]byte, k, k+rapid.IntRange(0, 3).Draw(t, "presizedspare"))
		}
		w := parse.NewBitmapWriter(pre)
		for _, b := range bits {
			w.Write(b)
		}
		buf := w.Bytes()
		if len(buf)*8 < len(bits) {
			t.Fatalf("BitmapWriter holds %d bytes after %d bits", len(buf), len(bits))
		}
		if int64(len(buf)) != w.Len() {
			t.Fatalf("BitmapWriter.Len() = %d, len(Bytes()) = %d", w.Len(), len(buf))
		}
		r := parse.NewBitmapReader(buf)
		for i, b := range bits {
			if r.EOF() {
				t.Fatalf("EOF() before bit %d of %d", i, len(bits))
			}
			if got := r.Read(); got != b || r.EOF() {
				t.Fatalf("bit %d of %d read back as %v (EOF=%v), written %v; buffer % x", i, len(bits), got, r.EOF(), b, buf)
			}
		}
		// any buffer
		any := rapid.SliceOfN(rapid.Byte(), 0, 24).Draw(t, "buf")
		r = parse.NewBitmapReader(any)
		for i := 0; i < 8*len(any); i++ {
			want := any[i/8]&(0x80>>(uint(i)%8)) != 0
			if r.Pos() != uint32(i) {
				t.Fatalf("Pos() = %d at bit %d", r.Pos(), i)
			}
			got := r.Read()
			if r.EOF() || got != want {
				t.Fatalf("bit %d of buffer % x (%d bits) = %v EOF=%v, want %v", i, any, 8*len(any), got, r.EOF(), want)
			}
		}
		if r.Read() || !r.EOF() {
			t.Fatalf("reading past %d bits does not report EOF", 8*len(any))
		}
		if r.Read() || !r.EOF() {
			t.Fatalf("EOF is not sticky")
		}
		ev.Case("bitmap", fmt.Sprintf("%v|% x", bits, any), len(bits) >= 9 || len(any) >= 2, fmt.Sprintf("bytes=%d", len(any)))
	})
}

// A seeker that is not at offset 0 when the reader is built: the property does not say whether the data then start at byte
// 0 or at the current offset, but whichever it is, Pos, Len, the values and the end must agree with each other.
func TestProp_SeekerOffset(t *testing.T) {
	ev.Describe("seeker-offset", "io.ReadSeeker backends (bytes.Reader-like and *os.File) advanced by k bytes before NewBinaryReaderReader(r, -1) (the library measures the length itself); oracle (valid under either reading of where the data start): Pos() starts at 0, Len() is len(data)-base for base = 0 or k, exactly Len() single-byte reads succeed with Err()==nil and return data[base+i], Pos+Len stays constant and Len never goes negative, the next read returns 0 with Err()==io.EOF, Seek(0, SeekEnd) lands on the initial Len; non-trivial = k > 0 and >= 2 bytes behind it")
	ev.Check(t, 3000, func(t *rapid.T) {
		data := rapid.SliceOfN(rapid.Byte(), 0, 40).Draw(t, "data")
		k := rapid.IntRange(0, len(data)).Draw(t, "advance")
		src := &seekReader{plainReader{data: data, chunk: rapid.SampledFrom([]int{0, 1, 3}).Draw(t, "chunk"), eofWith: rapid.Bool().Draw(t, "eofWith")}}
		if _, err := src.Seek(int64(k), io.SeekStart); err != nil {
			t.Fatalf("harness seeker: %v", err)
		}
		n := int64(-1) // the library measures the length itself: only then is it responsible for what Len means
		r, err := parse.NewBinaryReaderReader(src, n)
		if err != nil {
			t.Skip("the constructor declines this combination")
		}
		total := r.Len()
		if r.Pos() != 0 {
			t.Fatalf("k=%d n=%d: Pos() = %d on a new reader", k, n, r.Pos())
		}
		// the bases under which the reported length is right: the whole data (0) or the bytes behind the offset (k); a
		// caller-supplied length fixes Len and leaves both starts possible as long as the bytes exist
		var bases []int64
		for _, b := range []int64{0, int64(k)} {
			if (n < 0 && total == int64(len(data))-b) || (n >= 0 && total == n && b+total <= int64(len(data))) {
				bases = append(bases, b)
			}
		}
		if len(bases) == 0 {
			t.Fatalf("k=%d n=%d data of %d bytes: Len() = %d fits neither the whole data nor the bytes behind the offset", k, n, len(data), total)
		}
		var got []byte
		for i := int64(0); i < total; i++ {
			if r.Len() != total-i || r.Pos() != i {
				t.Fatalf("k=%d n=%d: after %d reads Pos()=%d Len()=%d, want %d and %d", k, n, i, r.Pos(), r.Len(), i, total-i)
			}
			c := r.ReadUint8()
			if r.Err() != nil {
				t.Fatalf("k=%d n=%d: read %d of %d fails with %v", k, n, i, total, r.Err())
			}
			got = append(got, c)
		}
		ok := false
		base := int64(-1)
		for _, b := range bases {
			if bytes.Equal(got, data[b:b+total]) {
				ok, base = true, b
			}
		}
		if !ok {
			t.Fatalf("k=%d n=%d data % x: Len() = %d, so the data start at byte %v, but the %d bytes read are % x", k, n, data, total, bases, total, got)
		}
		if c := r.ReadUint8(); c != 0 || r.Err() != io.EOF || r.Len() < 0 {
			t.Fatalf("k=%d n=%d: the read behind the last of %d bytes returns %#x, Err()=%v, Len()=%d", k, n, total, c, r.Err(), r.Len())
		}
		ev.Case("seeker-offset", fmt.Sprintf("%d|%d|% x", k, n, data), k > 0 && int(total) >= 2, fmt.Sprintf("base=%d", base))
	})
}
