package c19

import (
	"os"
	"testing"

	"verif/internal/ev"
)

// the file-backed backends need a directory that outlives the fuzz iteration in which the property is captured
func withTmp(tp func(*testing.T)) func(*testing.T) {
	return func(t *testing.T) {
		tp(t)
		d, err := os.MkdirTemp("", "c19fuzz")
		if err != nil {
			t.Fatal(err)
		}
		tmpDir = d
	}
}

// FuzzProp: coverage-guided fuzzing of this package's rapid properties (see ev.FuzzProp); thorough tier only.
func FuzzProp(f *testing.F) {
	ev.FuzzProp(f, map[string]func(*testing.T){
		"TestProp_Bitmap":       TestProp_Bitmap,
		"TestProp_RoundTrip":    withTmp(TestProp_RoundTrip),
		"TestProp_Seek":         withTmp(TestProp_Seek),
		"TestProp_SeekerOffset": TestProp_SeekerOffset,
	})
}
