package c19

import (
	"testing"

	"verif/internal/ev"
)

// FuzzProp: coverage-guided fuzzing of this package's rapid properties (see ev.FuzzProp); thorough tier only.
func FuzzProp(f *testing.F) {
	ev.FuzzProp(f, map[string]func(*testing.T){
		"TestProp_Bitmap":       TestProp_Bitmap,
		"TestProp_RoundTrip":    TestProp_RoundTrip,
		"TestProp_Seek":         TestProp_Seek,
		"TestProp_SeekerOffset": TestProp_SeekerOffset,
	})
}
