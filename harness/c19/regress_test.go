package c19

import (
	"encoding/binary"
	"io"
	"os"
	"path/filepath"
	"testing"

	"github.com/tdewolff/parse/v2"
)

// Shrunk failures of the pinned tree (all repaired by fix: commits), replayed without the library.

func TestRegress_SeekEnd(t *testing.T) { // D17
	r := parse.NewBinaryReaderBytes([]byte{1, 2, 3})
	if off, err := r.Seek(-1, io.SeekEnd); off != 2 || err != nil {
		t.Fatalf("Seek(-1, SeekEnd) on 3 bytes = %d, %v", off, err)
	}
	if b := r.ReadUint8(); b != 3 {
		t.Fatalf("read %d after Seek(-1, SeekEnd)", b)
	}
}

func TestRegress_BitmapLastBit(t *testing.T) { // D19
	r := parse.NewBitmapReader([]byte{0x01})
	for i := 0; i < 7; i++ {
		r.Read()
	}
	if bit := r.Read(); !bit || r.EOF() {
		t.Fatalf("bit 7 of 0x01 = %v EOF=%v", bit, r.EOF())
	}
}

func TestRegress_MmapExactFit(t *testing.T) { // D18
	name := filepath.Join(t.TempDir(), "f")
	os.WriteFile(name, []byte{1, 2}, 0o600)
	r, err := parse.NewBinaryReaderMmapPath(name)
	if err != nil {
		t.Fatal(err)
	}
	defer r.Close()
	if v := r.ReadUint16(); v != 0x0102 || r.Err() != nil {
		t.Fatalf("exact-fit ReadUint16 on mmap = %#x, Err %v", v, r.Err())
	}
	r.ReadBytes(0)
	if r.Err() != nil {
		t.Fatalf("zero-length read at the end sets Err %v", r.Err())
	}
	if v := r.ReadUint8(); v != 0 || r.Err() != io.EOF {
		t.Fatalf("read past the end = %d, Err %v", v, r.Err())
	}
}

func TestRegress_ReadByteAtEnd(t *testing.T) {
	r, err := parse.NewBinaryReaderReader(&seekReader{plainReader{data: []byte{}}}, -1)
	if err != nil {
		t.Fatal(err)
	}
	func() {
		defer func() {
			if p := recover(); p != nil {
				t.Fatalf("ReadByte at the end of a seeker backend panics: %v", p)
			}
		}()
		if b, err := r.ReadByte(); b != 0 || err != io.EOF {
			t.Fatalf("ReadByte at the end = %d, %v", b, err)
		}
		if b := r.ReadUint8(); b != 0 {
			t.Fatalf("ReadUint8 at the end = %d", b)
		}
	}()
}

func TestRegress_EOFWithLastBytes(t *testing.T) {
	for _, mk := range []func() io.Reader{
		func() io.Reader { return &seekReader{plainReader{data: []byte{7}, eofWith: true}} },
		func() io.Reader { return &plainReader{data: []byte{7}, eofWith: true} },
		func() io.Reader { return &readerAt{data: []byte{7}, eofExact: true} },
	} {
		r, err := parse.NewBinaryReaderReader(mk(), 1)
		if err != nil {
			t.Fatal(err)
		}
		if v := r.ReadUint8(); v != 7 || r.Err() != nil {
			t.Fatalf("%T: exact-fit read with (n, io.EOF) = %d, Err %v", r.IBinaryReader(), v, r.Err())
		}
	}
}

// d24d712: negative 24-bit values
func TestRegress_Int24(t *testing.T) {
	for _, little := range []bool{false, true} {
		var order binary.ByteOrder = binary.BigEndian
		w := parse.NewBinaryWriter(nil)
		if little {
			order = binary.LittleEndian
			w.ByteOrder = binary.LittleEndian
		}
		vals := []int32{-1, -8388608, -2, 8388607, 0, -65536}
		for _, v := range vals {
			w.WriteInt24(v)
		}
		r := parse.NewBinaryReaderBytes(w.Bytes())
		r.ByteOrder = order
		for _, v := range vals {
			if got := r.ReadInt24(); got != v {
				t.Errorf("%v: WriteInt24(%d) is read back as %d", order, v, got)
			}
		}
	}
}
