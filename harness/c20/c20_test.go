package c20

import (
	"bytes"
	"fmt"
	"hash/fnv"
	"os"
	"os/exec"
	"runtime"
	"runtime/debug"
	"sort"
	"strings"
	"sync"
	"testing"

	"pgregory.net/rapid"

	"verif/internal/ev"
	"verif/internal/gen"
)

func TestMain(m *testing.M) { ev.Main(m, "C20") }

var numFrags = []string{"0", "1", "9", "12", "007", "123456789", "18446744073709551615", "9223372036854775807", "9223372036854775808", ".", ".5", "e", "E", "e+", "e-", "e308", "e-324", "+", "-", ",", "px", "%", "em", " ", "x", "1e5", "0.1", "1,000", "99999999999999999999", "inf", "NaN"}
var uriFrags = []string{"data:", "text/plain", "text/html", "image/svg+xml", ";", ";base64", ";charset=utf-8", "charset=", "=", ",", "%41", "%", "%4", "%zz", "aGVsbG8=", "aGVsbG8", "hello world", " ", "a/b", "?q=1&r=2", "#frag", "é", "\"q\"", "\\", "'", "\x00", "+", "/", ":"}

// bigInput: an input of 8-40 KB (above the sizes at which buffers are recycled, pooled or given up: 4096 and its multiples)
func bigInput(t *rapid.T, lang string) []byte {
	n := rapid.SampledFrom([]int{800, 1200, 2500}).Draw(t, "bign")
	var sb strings.Builder
	switch lang {
	case "js":
		if rapid.Bool().Draw(t, "bigstmt") {
			sb.WriteString("table=[") // one expression statement of many kilobytes
			for i := 0; i < n; i++ {
				fmt.Fprintf(&sb, "%d,", i)
			}
			sb.WriteString("0];a=1")
		} else {
			for i := 0; i < n; i++ {
				fmt.Fprintf(&sb, "v%d = f(%d);\n", i, i)
			}
		}
	case "css":
		for i := 0; i < n/4; i++ {
			fmt.Fprintf(&sb, ".c%d{margin:%dpx %dpx;color:#%03x}\n", i, i, i+1, i%4096)
		}
	case "html":
		sb.WriteString("<div class=\"")
		for i := 0; i < n; i++ {
			fmt.Fprintf(&sb, "c%d ", i)
		}
		sb.WriteString("\">")
		for i := 0; i < n/4; i++ {
			fmt.Fprintf(&sb, "<p id=p%d>text %d</p>", i, i)
		}
		sb.WriteString("</div>")
	case "json":
		sb.WriteString("[")
		for i := 0; i < n; i++ {
			fmt.Fprintf(&sb, "{\"k%d\":%d},", i, i)
		}
		sb.WriteString("null]")
	case "xml":
		sb.WriteString("<r>")
		for i := 0; i < n/2; i++ {
			fmt.Fprintf(&sb, "<e a=\"%d\">t%d</e>", i, i)
		}
		sb.WriteString("</r>")
	default:
		for i := 0; i < n; i++ {
			fmt.Fprintf(&sb, "word%d ", i)
		}
	}
	return []byte(sb.String())
}

// one in bigOdds inputs is a big one (set per sub-check: big inputs are slow under the race detector)
var bigOdds = 60

func genInput(t *rapid.T, lang string) []byte {
	if lang != "num" && lang != "uri" && rapid.IntRange(0, bigOdds-1).Draw(t, "big") == 0 {
		if lang == "any" {
			lang = rapid.SampledFrom([]string{"css", "html", "js", "json", "xml", "words"}).Draw(t, "anylang")
		}
		return bigInput(t, lang)
	}
	switch lang {
	case "any":
		lang = rapid.SampledFrom([]string{"css", "html", "js", "json", "xml", "num", "uri"}).Draw(t, "anylang")
		return genInput(t, lang)
	case "num":
		return gen.Fragments(t, "num", numFrags, 6)
	case "uri":
		if rapid.IntRange(0, 3).Draw(t, "uricorpus") == 0 {
			c := gen.Corpus(".")
			return []byte(gen.Mutate(t, rapid.SampledFrom(c).Draw(t, "entry"), c, uriFrags))
		}
		return gen.Fragments(t, "uri", uriFrags, 10)
	}
	c := gen.Corpus(lang)
	if len(c) == 0 || rapid.IntRange(0, 4).Draw(t, "fromfrags") == 0 {
		return gen.Fragments(t, lang, gen.Frags[lang], 25)
	}
	return []byte(gen.Mutate(t, rapid.SampledFrom(c).Draw(t, "entry"), c, gen.Frags[lang]))
}

type call struct {
	e    int
	in   []byte
	prog []byte
}

func (c call) String() string {
	return fmt.Sprintf("%s(%s, %v)", entries[c.e].name, short(c.in), c.prog)
}

// short quotes an input; long ones are cut to their first bytes plus length and hash (they are built by bigInput from
// two drawn numbers and can be rebuilt from the replay file)
func short(in []byte) string {
	if len(in) <= 300 {
		return fmt.Sprintf("%q", in)
	}
	h := fnv.New64a()
	h.Write(in)
	return fmt.Sprintf("%q…(%d bytes, fnv %x)", in[:120], len(in), h.Sum64())
}

func genCall(t *rapid.T, allowed []int) call {
	e := rapid.SampledFrom(allowed).Draw(t, "entry")
	return call{e: e, in: genInput(t, entries[e].lang), prog: rapid.SliceOfN(rapid.Byte(), 0, 40).Draw(t, "prog")}
}

// run executes one call; a panic of the library is part of the result (C01 decides whether it may happen, C20 only that
// it does not depend on the company the call runs in)
// runRecycled is run with the entry's copies taken from one recycled buffer (see cp); sequential use only
func runRecycled(c call) string {
	if arena.buf == nil {
		arena.buf = make([]byte, 1<<20)
	}
	arena.on, arena.off = true, 0
	defer func() { arena.on = false }()
	return runOwn(c)
}

// runOwn is run for sequential use: when the call has returned, its caller re-uses the buffers it had handed over
func runOwn(c call) string {
	defer reuseCopies()
	return run(c)
}

func run(c call) (res string) {
	defer func() {
		if r := recover(); r != nil {
			res = fmt.Sprintf("panic: %v", r)
		}
	}()
	// the entry receives private copies: nothing is shared between calls but the library itself
	return entries[c.e].run(append([]byte(nil), c.in...), append([]byte(nil), c.prog...))
}

func allEntries() []int {
	all := make([]int, len(entries))
	for i := range all {
		all[i] = i
	}
	return all
}

func drawAllowed(t *rapid.T) ([]int, bool) {
	if rapid.IntRange(0, 2).Draw(t, "focused") == 0 {
		return allEntries(), false
	}
	// focused workload: every goroutine uses the same one to three entry points, the case in which shared state of one
	// function or package would be written from several goroutines at once
	n := rapid.IntRange(1, 3).Draw(t, "nfocus")
	var sub []int
	for i := 0; i < n; i++ {
		sub = append(sub, rapid.IntRange(0, len(entries)-1).Draw(t, "focus"))
	}
	return sub, true
}

func TestProp_Concurrent(t *testing.T) {
	ev.Describe("concurrent", fmt.Sprintf("workload = 2-16 goroutines x 1-6 calls, each call one of %d entry points covering all eight packages (Input over bytes/string/reader, Number/Dimension/Mediatype/DataURI/Replace*/EncodeURL/DecodeURL/Position/NewError/Indenter, BinaryReader/Writer and bitmaps, buffer.Lexer/StreamLexer/Reader/Writer, css lexer/parser/helpers, html lexer with and without template delimiters/EscapeAttrVal, xml lexer/escape helpers, json parser, js lexer/Parse+String+JS+JSON+Walk/helpers, every strconv function) on a private copy of an input drawn from the generator of that format (mutated repository test literals, hostile fragments); two thirds of the workloads are focused on one to three entry points; all goroutines start behind a barrier with GOMAXPROCS drawn from {2,4,8,16}; every call's digest (all tokens, data, offsets, error texts, printed trees) must equal the digest of the same call run alone afterwards (and, in one third of the workloads, also alone before: the concurrent phase usually comes first so that state filled on first use is written concurrently); the binary is built with -race, a race report fails the test; non-trivial = at least two goroutines execute the same entry point", len(entries)))
	ev.Assume("interleavings are sampled by the Go scheduler, not enumerated; the race detector reports conflicting accesses of the executed paths by happens-before, independent of timing")
	ev.Check(t, 120, func(t *rapid.T) {
		allowed, focused := drawAllowed(t)
		n := rapid.IntRange(2, 16).Draw(t, "goroutines")
		k := rapid.IntRange(1, 6).Draw(t, "calls")
		calls := make([][]call, n)
		var want [][]string
		got := make([][]string, n)
		perEntry := map[int]map[int]bool{}
		pkgs := map[string]bool{}
		var key strings.Builder
		for i := range calls {
			for j := 0; j < k; j++ {
				c := genCall(t, allowed)
				calls[i] = append(calls[i], c)
				if perEntry[c.e] == nil {
					perEntry[c.e] = map[int]bool{}
				}
				perEntry[c.e][i] = true
				pkgs[entries[c.e].pkg] = true
				fmt.Fprintf(&key, "%d:%s;", i, c)
			}
			got[i] = make([]string, k)
		}
		procs := rapid.SampledFrom([]int{2, 4, 8, 16}).Draw(t, "gomaxprocs")
		// the concurrent phase comes first in two thirds of the cases: a cache that the library filled on first use
		// would be warm (and only read) if every call had already run alone
		aloneFirst := rapid.IntRange(0, 2).Draw(t, "alonefirst") == 0
		alone := func() [][]string {
			res := make([][]string, n)
			for i := range calls {
				for _, c := range calls[i] {
					res[i] = append(res[i], runOwn(c))
				}
			}
			return res
		}
		var before [][]string
		if aloneFirst {
			before = alone()
		}
		old := runtime.GOMAXPROCS(procs)
		start := make(chan struct{})
		var wg sync.WaitGroup
		for i := range calls {
			wg.Add(1)
			go func(i int) {
				defer wg.Done()
				<-start
				for j, c := range calls[i] {
					got[i][j] = run(c)
				}
			}(i)
		}
		close(start)
		wg.Wait()
		reuseCopies()
		runtime.GOMAXPROCS(old)
		want = alone()
		for i := range calls {
			for j, c := range calls[i] {
				if got[i][j] != want[i][j] {
					t.Fatalf("goroutine %d call %d: %s\nalone (afterwards): %s\nconcurrent:         %s", i, j, c, want[i][j], got[i][j])
				}
				if before != nil && before[i][j] != want[i][j] {
					t.Fatalf("goroutine %d call %d: %s\nalone before the concurrent phase: %s\nalone after it:                    %s", i, j, c, before[i][j], want[i][j])
				}
			}
		}
		same := false
		for _, gs := range perEntry {
			if len(gs) >= 2 {
				same = true
			}
		}
		cls := []string{fmt.Sprintf("gomaxprocs-%d", procs)}
		if focused {
			cls = append(cls, "focused")
		}
		if aloneFirst {
			cls = append(cls, "alone-first")
		} else {
			cls = append(cls, "concurrent-first")
		}
		if len(pkgs) >= 2 {
			cls = append(cls, "multi-package")
		}
		if n >= 8 {
			cls = append(cls, "goroutines>=8")
		}
		for p := range pkgs {
			cls = append(cls, "pkg-"+p)
		}
		sort.Strings(cls)
		ev.Case("concurrent", key.String(), same, cls...)
		for e, gs := range perEntry {
			if len(gs) >= 2 {
				ev.Count("concurrent", "shared-entry "+entries[e].name, 1)
			}
		}
	})
}

func TestProp_OrderIndependence(t *testing.T) {
	ev.Describe("order", "history = 2-14 calls over all entry points; each call's digest in the drawn order must equal its digest when the same calls run in a drawn permutation behind a warm-up prefix of 0-5 unrelated calls (no result depends on what the process parsed before); non-trivial = the permutation moves at least one call behind a call of the same package that it preceded")
	ev.Check(t, 300, func(t *rapid.T) {
		all := allEntries()
		allowed, focused := drawAllowed(t)
		m := rapid.IntRange(2, 14).Draw(t, "ncalls")
		calls := make([]call, m)
		var key strings.Builder
		for i := range calls {
			calls[i] = genCall(t, allowed)
			fmt.Fprintf(&key, "%s;", calls[i])
		}
		first := make([]string, m)
		for i, c := range calls {
			first[i] = runOwn(c)
		}
		for w := rapid.IntRange(0, 5).Draw(t, "warmup"); w > 0; w-- {
			runOwn(genCall(t, all))
		}
		idx := make([]int, m)
		for i := range idx {
			idx[i] = i
		}
		order := rapid.Permutation(idx).Draw(t, "order")
		swapped := false
		pos := make([]int, m)
		for p, i := range order {
			pos[i] = p
		}
		for i := 0; i < m; i++ {
			for j := i + 1; j < m; j++ {
				if pos[i] > pos[j] && entries[calls[i].e].pkg == entries[calls[j].e].pkg {
					swapped = true
				}
			}
		}
		recycle := rapid.Bool().Draw(t, "recycledBuffer")
		for _, i := range order {
			r := ""
			if recycle {
				r = runRecycled(calls[i])
			} else {
				r = runOwn(calls[i])
			}
			if r != first[i] {
				t.Fatalf("call %d: %s\nin the first order:   %s\nin the permuted order: %s\norder %v", i, calls[i], first[i], r, order)
			}
		}
		cls := []string{}
		if focused {
			cls = append(cls, "focused")
		}
		fmt.Fprintf(&key, "%v", order)
		ev.Case("order", key.String(), swapped, cls...)
	})
}

func TestProp_Interleaved(t *testing.T) {
	ev.Describe("interleaved", fmt.Sprintf("2-4 live instances (%d kinds: css lexer/parser, html, xml, json, js lexers, js.Parse result, Input, StreamLexer, and the results of the slice-returning helpers) in ONE goroutine, each on private data; every instance is first driven alone to the end, then fresh instances on the same data are driven step by step in a drawn interleaving; what each step hands back (token, data, the previous step's data and Values(), errors, the printed tree / helper result read one step after the call) must be the same; non-trivial = two instances of the same kind are alive at once and each makes at least two steps", len(makers)))
	ev.Check(t, 400, func(t *rapid.T) {
		m := rapid.IntRange(2, 4).Draw(t, "instances")
		same := rapid.IntRange(0, 2).Draw(t, "samekind") > 0
		kind0 := rapid.IntRange(0, len(makers)-1).Draw(t, "kind")
		type inst struct {
			mk    int
			in    []byte
			prog  []byte
			alone []string
		}
		insts := make([]*inst, m)
		var key strings.Builder
		for i := range insts {
			k := kind0
			if !same && i > 0 {
				k = rapid.IntRange(0, len(makers)-1).Draw(t, "kind")
			}
			x := &inst{mk: k, in: genInput(t, makers[k].lang), prog: rapid.SliceOfN(rapid.Byte(), 0, 30).Draw(t, "prog")}
			insts[i] = x
			fmt.Fprintf(&key, "%s(%s,%v);", makers[k].name, short(x.in), x.prog)
		}
		const maxSteps = 20000
		for _, x := range insts {
			s := makers[x.mk].mk(x.in, x.prog)
			for n := 0; n < maxSteps; n++ {
				out, done := s()
				x.alone = append(x.alone, out)
				if done {
					break
				}
			}
		}
		live := make([]stepper, m)
		pos := make([]int, m)
		for i, x := range insts {
			live[i] = makers[x.mk].mk(x.in, x.prog)
		}
		remaining := m
		var sched []int
		for remaining > 0 {
			var open []int
			for i := range insts {
				if pos[i] < len(insts[i].alone) {
					open = append(open, i)
				}
			}
			i := open[0]
			if len(open) > 1 {
				i = open[rapid.IntRange(0, len(open)-1).Draw(t, "next")]
			}
			burst := rapid.IntRange(1, 3).Draw(t, "burst")
			for b := 0; b < burst && pos[i] < len(insts[i].alone); b++ {
				out, _ := live[i]()
				if want := insts[i].alone[pos[i]]; out != want {
					t.Fatalf("instance %d (%s on %.300q) step %d:\nalone:       %s\ninterleaved: %s\nschedule so far %v, instances: %s", i, makers[insts[i].mk].name, insts[i].in, pos[i], want, out, sched, key.String())
				}
				pos[i]++
				if len(sched) < 200 {
					sched = append(sched, i)
				}
			}
			if pos[i] == len(insts[i].alone) {
				remaining--
			}
		}
		nt := false
		for i := range insts {
			for j := i + 1; j < len(insts); j++ {
				if insts[i].mk == insts[j].mk && len(insts[i].alone) >= 2 && len(insts[j].alone) >= 2 {
					nt = true
				}
			}
		}
		cls := []string{}
		if same {
			cls = append(cls, "same-kind")
		}
		for _, x := range insts {
			cls = append(cls, "kind "+makers[x.mk].name)
		}
		sort.Strings(cls)
		cls = dedup(cls)
		ev.Case("interleaved", key.String(), nt, cls...)
	})
}

func dedup(s []string) []string {
	out := s[:0]
	for i, x := range s {
		if i == 0 || x != s[i-1] {
			out = append(out, x)
		}
	}
	return out
}

// ---- history probes: state that survives a finished call (pooled objects with an incomplete reset, memo tables with a
// lossy key) does not show in a race report; it shows when a call gives another result than it gave earlier in the process

var (
	baseMu   sync.Mutex
	baseline = map[string]string{} // first digest of (entry, input) in this process
)

var probeLangs = []string{"css", "html", "js", "json", "xml"}

func TestProp_HistoryProbe(t *testing.T) {
	ev.Describe("history", "case = 2-8 poison calls (entry points of one package on generated inputs: mutated and truncated repository literals, so that the call often ends on an error path in the middle of a construct) followed by probe calls of the same package (every literal of the package's repository tests, up to 3000, and every hostile fragment of the language alone and in three small contexts, through a drawn lexer/parser entry point); every probe's digest must equal the first digest that the same call produced in this process (computed before the poison calls if it was never run); garbage collection is paused during a case and the sub-check also runs in shards built without -race, because sync.Pool drops parked objects at every collection and at random under -race; non-trivial = every case (each one compares several hundred probes behind the poison calls)")
	bigOdds = 10
	defer func() { bigOdds = 60 }()
	byLang := map[string][]int{}
	for i, e := range entries {
		for _, l := range probeLangs {
			if e.lang == l {
				byLang[l] = append(byLang[l], i)
			}
		}
	}
	base := 40
	if os.Getenv("VERIF_PLAIN") != "" {
		base = 150 // the shards without the race detector only run the history sub-checks
	}
	ev.Check(t, base, func(t *rapid.T) {
		lang := rapid.SampledFrom(probeLangs).Draw(t, "lang")
		corpus := gen.Corpus(lang)
		if len(corpus) == 0 {
			t.Skip("no corpus")
		}
		var poison []call
		for n := rapid.IntRange(2, 8).Draw(t, "npoison"); n > 0; n-- {
			c := genCall(t, byLang[lang])
			if rapid.IntRange(0, 1).Draw(t, "prefix") == 0 {
				// a proper prefix of a repository literal: the call ends in the middle of whatever construct the literal exercises
				lit := rapid.SampledFrom(corpus).Draw(t, "literal")
				c.in = []byte(lit[:rapid.IntRange(1, len(lit)).Draw(t, "cut")])
			}
			poison = append(poison, c)
		}
		pe := rapid.SampledFrom(byLang[lang]).Draw(t, "probe-entry")
		// all literals of the package's tests are probes (a state that some call left behind changes the result of few
		// specific inputs: after an aborted export statement, only "function(" and "class{" would tell)
		k := len(corpus)
		if k > 3000 {
			k = 3000
		}
		start := rapid.IntRange(0, len(corpus)-1).Draw(t, "start")
		stride := 1
		prog := []byte{byte(rapid.IntRange(0, 3).Draw(t, "options"))}
		probes := make([]call, 0, k)
		keys := make([]string, 0, k)
		for i := 0; i < k; i++ {
			c := call{e: pe, in: []byte(corpus[(start+i*stride)%len(corpus)]), prog: prog}
			probes = append(probes, c)
			keys = append(keys, fmt.Sprintf("%d/%d/%s", pe, prog[0], c.in))
		}
		// and every hostile fragment of the language alone, behind a name and in front of an assignment (a probe for state
		// that is keyed by a single character or token)
		for _, f := range gen.Frags[lang] {
			for _, in := range []string{f, "a" + f, f + "=1", f + " " + f} {
				c := call{e: pe, in: []byte(in), prog: prog}
				probes = append(probes, c)
				keys = append(keys, fmt.Sprintf("%d/%d/%s", pe, prog[0], c.in))
			}
		}
		// objects parked in a sync.Pool are dropped by the garbage collector: no collection between the poison and the probes
		defer debug.SetGCPercent(debug.SetGCPercent(-1))
		fresh := 0
		baseMu.Lock()
		for i, c := range probes {
			if _, ok := baseline[keys[i]]; !ok {
				baseline[keys[i]] = runOwn(c)
				fresh++
			}
		}
		baseMu.Unlock()
		var key strings.Builder
		for _, c := range poison {
			runOwn(c)
			fmt.Fprintf(&key, "%s;", c)
		}
		for i, c := range probes {
			baseMu.Lock()
			want := baseline[keys[i]]
			baseMu.Unlock()
			if got := runRecycled(c); got != want {
				t.Fatalf("probe %s\nfirst result in this process: %s\nafter the calls %s: %s", c, want, key.String(), got)
			}
		}
		fmt.Fprintf(&key, "probes %s %d+%d*i x%d", entries[pe].name, start, stride, k)
		ev.Case("history", key.String(), true, "lang-"+lang, "probe "+entries[pe].name)
		ev.Count("history", "probe calls", int64(len(probes)))
		ev.Count("history", "probes first evaluated in the case", int64(fresh))
	})
}

// ---------- against a fresh process: state that is filled on first use and then stays (a memo table) gives the same answer
// for the rest of the process, whatever the order afterwards; it shows when another process meets the inputs in another order

func probeList(lang string) []string {
	var out []string
	for _, f := range gen.Frags[lang] {
		out = append(out, f, "a"+f, f+"=1", f+" "+f)
	}
	c := gen.Corpus(lang)
	if len(c) > 1500 {
		c = c[:1500]
	}
	return append(out, c...)
}

func probeOrder(n int, mode string, seed int) []int {
	idx := make([]int, n)
	for i := range idx {
		idx[i] = i
	}
	switch mode {
	case "reverse":
		for i, j := 0, n-1; i < j; i, j = i+1, j-1 {
			idx[i], idx[j] = idx[j], idx[i]
		}
	case "stride":
		// a permutation by a stride coprime to n
		step := seed*2 + 1
		for gcd(step, n) != 1 {
			step += 2
		}
		for i := range idx {
			idx[i] = (i * step) % n
		}
	}
	return idx
}

func gcd(a, b int) int {
	for b != 0 {
		a, b = b, a%b
	}
	return a
}

// TestChildProbes is the body of the child process: it evaluates the probe list in the requested order and prints one
// digest per probe. It does nothing unless VERIF_C20_CHILD is set.
func TestChildProbes(t *testing.T) {
	spec := os.Getenv("VERIF_C20_CHILD")
	if spec == "" {
		t.Skip("child-process helper")
	}
	var lang, mode string
	var pe, opt, seed int
	if _, err := fmt.Sscanf(spec, "%s %d %d %s %d", &lang, &pe, &opt, &mode, &seed); err != nil {
		t.Fatalf("bad spec %q: %v", spec, err)
	}
	probes := probeList(lang)
	res := make([]string, len(probes))
	if mode == "parallel" {
		// the first calls of the process are made by 16 goroutines at once (state that is filled in on first use meets
		// its first users all together)
		var wg sync.WaitGroup
		start := make(chan struct{})
		for g := 0; g < 16; g++ {
			wg.Add(1)
			go func(g int) {
				defer wg.Done()
				<-start
				for i := g; i < len(probes); i += 16 {
					res[i] = run(call{e: pe, in: []byte(probes[i]), prog: []byte{byte((opt + i) % 4)}})
				}
			}(g)
		}
		close(start)
		wg.Wait()
		reuseCopies()
	} else {
		for _, i := range probeOrder(len(probes), mode, seed) {
			res[i] = runOwn(call{e: pe, in: []byte(probes[i]), prog: []byte{byte((opt + i) % 4)}})
		}
	}
	for i, r := range res {
		fmt.Printf("PROBE %d %s\n", i, r[:16])
	}
}

func TestProp_FreshProcess(t *testing.T) {
	ev.Describe("fresh", "for a drawn language, entry point and option byte (which then changes from probe to probe): the digests of every probe (each hostile fragment alone and in three contexts, every literal of the package's tests) computed in this process in list order must equal those computed by a fresh child process that meets the same probes in reverse or in a strided order, or all at once in 16 goroutines (a data race or fatal error of that process is a violation); non-trivial = every case")
	ev.Assume("the child process is the same test binary (os.Args[0]) started with VERIF_C20_CHILD; it reads the same repository literals")
	byLang := map[string][]int{}
	for i, e := range entries {
		for _, l := range probeLangs {
			if e.lang == l {
				byLang[l] = append(byLang[l], i)
			}
		}
	}
	ev.Check(t, 10, func(t *rapid.T) {
		lang := rapid.SampledFrom(probeLangs).Draw(t, "lang")
		pe := rapid.SampledFrom(byLang[lang]).Draw(t, "probe-entry")
		opt := rapid.IntRange(0, 3).Draw(t, "options")
		mode := rapid.SampledFrom([]string{"reverse", "stride", "parallel", "parallel"}).Draw(t, "order")
		seed := rapid.IntRange(1, 50).Draw(t, "stride")
		probes := probeList(lang)
		cmd := exec.Command(os.Args[0], "-test.run", "^TestChildProbes$", "-test.v")
		cmd.Env = append(os.Environ(), fmt.Sprintf("VERIF_C20_CHILD=%s %d %d %s %d", lang, pe, opt, mode, seed), "VERIF_EV_OUT=")
		out, err := cmd.Output()
		if err != nil {
			if ee, ok := err.(*exec.ExitError); ok && (bytes.Contains(ee.Stderr, []byte("DATA RACE")) || bytes.Contains(ee.Stderr, []byte("fatal error:")) || bytes.Contains(out, []byte("DATA RACE")) || bytes.Contains(out, []byte("fatal error:"))) {
				t.Fatalf("%s, probes in %s order in a fresh process: the process dies with a data race or a fatal error\n%.3000s\n%.3000s", entries[pe].name, mode, out, ee.Stderr)
			}
			t.Fatalf("VERIF-INFRA child process failed: %v\n%.2000s", err, out)
		}
		child := map[int]string{}
		for _, line := range strings.Split(string(out), "\n") {
			var i int
			var h string
			if n, _ := fmt.Sscanf(line, "PROBE %d %s", &i, &h); n == 2 {
				child[i] = h
			}
		}
		if len(child) != len(probes) {
			t.Fatalf("VERIF-INFRA child reported %d of %d probes\n%.2000s", len(child), len(probes), out)
		}
		for i, p := range probes {
			// (the option byte, the caller's configuration, changes from probe to probe: what one configuration leaves
			// behind is met by the others in another order)
			r := runOwn(call{e: pe, in: []byte(p), prog: []byte{byte((opt + i) % 4)}})
			if r[:16] != child[i] {
				t.Fatalf("%s(%q, option %d): this process (probes in list order) gets %s, a fresh process that meets the probes in %s order gets digest %s", entries[pe].name, p, opt, r, mode, child[i])
			}
		}
		ev.Case("fresh", fmt.Sprintf("%s|%s|%d|%s|%d", lang, entries[pe].name, opt, mode, seed), true, "lang-"+lang, "order-"+mode)
		ev.Count("fresh", "probes compared", int64(len(probes)))
	})
}
