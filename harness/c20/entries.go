package c20

import (
	"bytes"
	"fmt"
	"hash"
	"hash/fnv"
	"io"
	"strings"
	"sync"

	"github.com/tdewolff/parse/v2"
	"github.com/tdewolff/parse/v2/buffer"
	"github.com/tdewolff/parse/v2/css"
	"github.com/tdewolff/parse/v2/html"
	"github.com/tdewolff/parse/v2/js"
	"github.com/tdewolff/parse/v2/json"
	"github.com/tdewolff/parse/v2/strconv"
	"github.com/tdewolff/parse/v2/xml"
)

// An entry is one way of using the library on private data: it builds its own Input/lexer/parser/buffers from a private
// copy of the input bytes, drives it to the end and returns a digest of everything the library handed back (tokens, data,
// errors, offsets, printed trees). prog is a drawn byte program for the entries that interpret an operation sequence.
type entry struct {
	name string
	pkg  string
	lang string // which input generator feeds it
	run  func(in []byte, prog []byte) string
}

type digest struct {
	h       hash.Hash64
	preview strings.Builder
	n       int
}

func (d *digest) add(format string, a ...any) {
	if d.h == nil {
		d.h = fnv.New64a()
	}
	d.n++
	fmt.Fprintf(d.h, format, a...)
	d.h.Write([]byte{0})
	if d.preview.Len() < 300 {
		fmt.Fprintf(&d.preview, format, a...)
		d.preview.WriteByte('|')
	}
}

func (d *digest) String() string {
	if d.h == nil {
		d.h = fnv.New64a()
	}
	s := d.preview.String()
	if len(s) > 300 {
		s = s[:300] + "…"
	}
	return fmt.Sprintf("%016x n=%d %s", d.h.Sum64(), d.n, s)
}

func errText(err error) string {
	if err == nil {
		return "<nil>"
	}
	return err.Error()
}

// cp gives an entry its private copy of some bytes, with spare capacity. While arena.on (sequential sub-checks only) every
// call takes its copies from the start of one and the same recycled buffer, the way a server re-uses a read buffer for
// one document after the other: the inputs of successive calls then have the same address (and stale bytes from earlier
// calls behind them), which is what state keyed by the identity instead of the content of an input cannot tell apart.
var arena struct {
	on  bool
	buf []byte
	off int
}

func cp(b []byte) []byte {
	if arena.on && arena.off+len(b)+8 <= len(arena.buf) {
		s := arena.buf[arena.off : arena.off+len(b) : arena.off+len(b)+8]
		arena.off += len(b) + 8
		copy(s, b)
		return s
	}
	s := append(make([]byte, 0, len(b)+8), b...)
	copies.Lock()
	copies.list = append(copies.list, s)
	copies.Unlock()
	return s
}

// copies: the buffers that entries handed to the library as their private data. Once the calls have returned they are the
// caller's again, and the caller re-uses them: reuseCopies overwrites them all. A result that the library keeps in terms of
// an earlier caller's buffer (an interned name, a cached slice) changes with it.
var copies struct {
	sync.Mutex
	list [][]byte
}

func reuseCopies() {
	copies.Lock()
	for _, s := range copies.list {
		s = s[:cap(s)]
		for i := range s {
			s[i] = 0xAA
		}
	}
	copies.list = nil
	copies.Unlock()
}

// chunkReader hands out the input in pieces whose sizes come from prog
type chunkReader struct {
	b    []byte
	prog []byte
	i    int
	big  bool // chunk sizes up to 4096 bytes instead of 17
}

func (r *chunkReader) Read(p []byte) (int, error) {
	if len(r.b) == 0 {
		return 0, io.EOF
	}
	n := 1
	if len(r.prog) > 0 {
		n = int(r.prog[r.i%len(r.prog)])%17 + 1
		if r.big {
			n = (int(r.prog[r.i%len(r.prog)])*17)%4096 + 1
		}
		r.i++
	}
	if n > len(p) {
		n = len(p)
	}
	if n > len(r.b) {
		n = len(r.b)
	}
	copy(p, r.b[:n])
	r.b = r.b[n:]
	return n, nil
}

type nodeCounter struct {
	d     *digest
	depth int
	n     int
}

func (v *nodeCounter) Enter(n js.INode) js.IVisitor {
	v.n++
	v.depth++
	if v.n < 400 {
		v.d.add("E%T@%d", n, v.depth)
	}
	return v
}

func (v *nodeCounter) Exit(n js.INode) { v.depth-- }

func entities() (map[string][]byte, map[byte][]byte) {
	return map[string][]byte{"amp": []byte("&"), "lt": []byte("<"), "gt": []byte(">"), "quot": []byte("\""), "apos": []byte("'"), "nbsp": []byte(" "), "eacute": []byte("é")},
		map[byte][]byte{'"': []byte("&#34;"), '\'': []byte("&#39;")}
}

// within returns the largest k' <= k such that Peek(k') stays inside the input (Peek may look at the end, not beyond it)
func within(z *parse.Input, k int) int {
	for j := 0; j < k; j++ {
		if z.Peek(j) == 0 && z.PeekErr(j) != nil {
			return j
		}
	}
	return k
}

func inputOps(z *parse.Input, prog []byte, d *digest) {
	for _, op := range prog {
		switch op % 12 {
		case 0:
			d.add("P%d", z.Peek(within(z, int(op/12)%5)))
		case 1:
			r, n := z.PeekRune(within(z, int(op/12)%3))
			d.add("R%d,%d", r, n)
		case 2:
			if z.Peek(0) != 0 || z.Err() == nil {
				z.Move(1)
			}
		case 3:
			if z.Peek(0) != 0 || z.Err() == nil {
				z.MoveRune()
			}
		case 4:
			d.add("S%q", z.Shift())
		case 5:
			d.add("L%q", z.Lexeme())
		case 6:
			z.Skip()
		case 7:
			if p := z.Pos(); p > 0 {
				z.Rewind(p - 1)
			}
		case 8:
			d.add("O%d,%d,%d", z.Offset(), z.Pos(), z.Len())
		case 9:
			d.add("E%s,%s", errText(z.Err()), errText(z.PeekErr(within(z, int(op/12)%4))))
		case 10:
			d.add("B%d", len(z.Bytes()))
		case 11:
			for i := 0; i < 8 && z.Peek(0) != 0; i++ {
				z.Move(1)
			}
		}
	}
	d.add("end%d %q", z.Offset(), z.Lexeme())
}

var entries = []entry{
	{"parse.Input(bytes)", "parse", "any", func(in, prog []byte) string {
		d := &digest{}
		z := parse.NewInputBytes(cp(in))
		inputOps(z, prog, d)
		z.Restore()
		return d.String()
	}},
	{"parse.Input(reader)", "parse", "any", func(in, prog []byte) string {
		d := &digest{}
		z := parse.NewInput(&chunkReader{b: cp(in), prog: prog})
		inputOps(z, prog, d)
		return d.String()
	}},
	{"parse.Input(string)", "parse", "any", func(in, prog []byte) string {
		d := &digest{}
		z := parse.NewInputString(string(in))
		inputOps(z, prog, d)
		return d.String()
	}},
	{"parse.Number/Dimension", "parse", "num", func(in, prog []byte) string {
		d := &digest{}
		b := cp(in)
		for i := 0; i <= len(b) && i < 40; i++ {
			n, m := parse.Dimension(b[i:])
			d.add("%d,%d,%d", parse.Number(b[i:]), n, m)
		}
		return d.String()
	}},
	{"parse.Mediatype/DataURI", "parse", "uri", func(in, prog []byte) string {
		d := &digest{}
		mt, params := parse.Mediatype(cp(in))
		keys := make([]string, 0, len(params))
		for k, v := range params {
			keys = append(keys, k+"="+v)
		}
		sortStrings(keys)
		d.add("%q %q", mt, keys)
		m, data, err := parse.DataURI(cp(in))
		d.add("%q %q %s", m, data, errText(err))
		return d.String()
	}},
	{"parse.Replace*", "parse", "html", func(in, prog []byte) string {
		d := &digest{}
		em, rm := entities()
		// the maps are the caller's: one of three (few short names, the usual ones, long names), and every input ends in
		// references of all lengths
		switch {
		case len(prog) > 0 && prog[0]%3 == 0:
			em = map[string][]byte{"amp": []byte("&"), "lt": []byte("<"), "gt": []byte(">")}
		case len(prog) > 0 && prog[0]%3 == 2:
			em = map[string][]byte{"amp": []byte("&"), "hellip": []byte("…"), "varepsilon": []byte("ϵ"), "DoubleLeftArrow": []byte("⇐"), "CounterClockwiseContourIntegral": []byte("∳")}
		}
		in = append(in, " &amp;&lt; &hellip; &varepsilon; &DoubleLeftArrow;&CounterClockwiseContourIntegral; &nbsp;"...)
		d.add("%q", parse.ReplaceMultipleWhitespace(cp(in)))
		d.add("%q", parse.ReplaceEntities(cp(in), em, rm))
		d.add("%q", parse.ReplaceMultipleWhitespaceAndEntities(cp(in), em, rm))
		q, n := parse.QuoteEntity(cp(in))
		d.add("%d,%d", q, n)
		d.add("%q %v %q", parse.TrimWhitespace(cp(in)), parse.IsAllWhitespace(in), parse.ToLower(cp(in)))
		d.add("%v", parse.EqualFold(cp(in), bytes.ToLower(in)))
		return d.String()
	}},
	{"parse.EncodeURL/DecodeURL/AppendEscape", "parse", "uri", func(in, prog []byte) string {
		d := &digest{}
		d.add("%q", parse.EncodeURL(cp(in), parse.URLEncodingTable))
		d.add("%q", parse.EncodeURL(cp(in), parse.DataURIEncodingTable))
		d.add("%q", parse.DecodeURL(cp(in)))
		d.add("%q", parse.AppendEscape(nil, cp(in), []byte("\"'\\"), '\\'))
		for _, r := range string(in) {
			d.add("%s", parse.Printable(r))
			if d.n > 60 {
				break
			}
		}
		return d.String()
	}},
	{"parse.Position/NewError", "parse", "any", func(in, prog []byte) string {
		d := &digest{}
		for i, op := range prog {
			if i >= 6 {
				break
			}
			off := 0
			if len(in) > 0 {
				off = int(op) * (len(in) + 1) / 256
			}
			line, col, ctx := parse.Position(bytes.NewReader(cp(in)), off)
			d.add("%d:%d:%q", line, col, ctx)
			err := parse.NewError(bytes.NewReader(cp(in)), off, "message %d", i)
			d.add("%s", err.Error())
			l, c, x := err.Position()
			d.add("%d:%d:%q", l, c, x)
		}
		z := parse.NewInputBytes(cp(in))
		z.Move(len(in) / 2)
		d.add("%s", parse.NewErrorLexer(z, "at %d", z.Pos()).Error())
		return d.String()
	}},
	{"parse.Indenter", "parse", "any", func(in, prog []byte) string {
		var buf bytes.Buffer
		w := parse.NewIndenter(parse.NewIndenter(&buf, 2), 3)
		n, err := w.Write(cp(in))
		return fmt.Sprintf("%d %s %d %q", n, errText(err), w.Indent(), buf.String())
	}},
	{"parse.BinaryReader/Writer", "parse", "any", func(in, prog []byte) string {
		d := &digest{}
		w := parse.NewBinaryWriter(nil)
		r := parse.NewBinaryReaderBytes(cp(in))
		for _, op := range prog {
			switch op % 14 {
			case 0:
				v := r.ReadUint8()
				w.WriteUint8(v)
			case 1:
				v := r.ReadUint16()
				w.WriteUint16(v)
			case 2:
				v := r.ReadUint24()
				w.WriteUint24(v)
			case 3:
				v := r.ReadUint32()
				w.WriteUint32(v)
			case 4:
				v := r.ReadUint64()
				w.WriteUint64(v)
			case 5:
				v := r.ReadInt16()
				w.WriteInt16(v)
			case 6:
				v := r.ReadInt24()
				w.WriteInt24(v)
			case 7:
				v := r.ReadInt64()
				w.WriteInt64(v)
			case 8:
				b := r.ReadBytes(int64(op / 14))
				w.WriteBytes(b)
			case 9:
				s := r.ReadString(int64(op / 14))
				w.WriteString(s)
			case 10:
				c, err := r.ReadByte()
				d.add("%d %s", c, errText(err))
			case 11:
				p, err := r.Seek(int64(op/14), int(op)%3)
				d.add("%d %s", p, errText(err))
			case 12:
				b := make([]byte, op/14)
				n, err := r.ReadAt(b, int64(op%7))
				d.add("%d %s %q", n, errText(err), b[:n])
			case 13:
				c := r.Clone()
				d.add("%d %d", c.Pos(), c.Len())
			}
			d.add("%d %s", r.Pos(), errText(r.Err()))
		}
		d.add("%q %d", w.Bytes(), w.Len())
		bw := parse.NewBitmapWriter(nil)
		br := parse.NewBitmapReader(cp(in))
		for i := 0; i < 64 && !br.EOF(); i++ {
			bw.Write(br.Read())
		}
		d.add("%q %d %d", bw.Bytes(), bw.Len(), br.Pos())
		return d.String()
	}},
	{"buffer.Lexer", "buffer", "any", func(in, prog []byte) string {
		d := &digest{}
		z := buffer.NewLexerBytes(cp(in))
		for _, op := range prog {
			switch op % 8 {
			case 0:
				d.add("P%d", z.Peek(0))
			case 1:
				r, n := z.PeekRune(0)
				d.add("R%d,%d", r, n)
			case 2:
				if z.Peek(0) != 0 || z.Err() == nil {
					z.Move(1)
				}
			case 3:
				d.add("S%q", z.Shift())
			case 4:
				d.add("L%q", z.Lexeme())
			case 5:
				z.Skip()
			case 6:
				d.add("O%d,%d", z.Offset(), z.Pos())
			case 7:
				d.add("E%s", errText(z.Err()))
			}
		}
		z.Restore()
		return d.String()
	}},
	{"buffer.StreamLexer", "buffer", "any", func(in, prog []byte) string {
		d := &digest{}
		size := 8
		if len(prog) > 0 {
			size = int(prog[0])%64 + 1
		}
		z := buffer.NewStreamLexerSize(&chunkReader{b: cp(in), prog: prog}, size)
		for steps := 0; steps < 3*len(in)+10; steps++ {
			c := z.Peek(0)
			if c == 0 && z.Err() != nil {
				break
			}
			z.Move(1)
			if c == ' ' || c == '\n' || steps%7 == 6 {
				n := z.ShiftLen()
				d.add("%q", z.Shift())
				z.Free(n)
			}
		}
		d.add("%q %s", z.Shift(), errText(z.Err()))
		return d.String()
	}},
	{"buffer.StreamLexer(default size)", "buffer", "any", func(in, prog []byte) string {
		// the default block size with Free lagging two tokens behind Shift, over inputs that may span several blocks
		d := &digest{}
		z := buffer.NewStreamLexer(&chunkReader{b: cp(in), prog: append([]byte{255, 254}, prog...), big: true})
		var pending []int
		var held [][]byte
		var heldCopy []string
		for steps := 0; steps < 3*len(in)+10; steps++ {
			c := z.Peek(0)
			if c == 0 && z.Err() != nil {
				break
			}
			z.Move(1)
			if c == ' ' || c == '\n' || c == ';' || c == ',' || c == '>' || steps%61 == 60 {
				n := z.ShiftLen()
				tok := z.Shift()
				d.add("%q", tok)
				held, heldCopy = append(held, tok), append(heldCopy, string(tok))
				pending = append(pending, n)
				if len(pending) > 2 {
					z.Free(pending[0])
					pending, held, heldCopy = pending[1:], held[1:], heldCopy[1:]
				}
				for i := range held {
					if string(held[i]) != heldCopy[i] {
						d.add("HELD TOKEN CHANGED %q -> %q", heldCopy[i], held[i])
					}
				}
			}
		}
		d.add("%q %s", z.Shift(), errText(z.Err()))
		return d.String()
	}},
	{"buffer.Reader/Writer", "buffer", "any", func(in, prog []byte) string {
		d := &digest{}
		r := buffer.NewReader(cp(in))
		w := buffer.NewWriter(make([]byte, 0, 4))
		for _, op := range prog {
			b := make([]byte, int(op)%9)
			n, err := r.Read(b)
			d.add("%d %s", n, errText(err))
			w.Write(b[:n])
		}
		d.add("%q %d %d", w.Bytes(), w.Len(), r.Len())
		return d.String()
	}},
	{"css.Lexer", "css", "css", func(in, prog []byte) string {
		d := &digest{}
		l := css.NewLexer(parse.NewInputBytes(cp(in)))
		for {
			tt, data := l.Next()
			d.add("%v %q", tt, data)
			if tt == css.ErrorToken {
				break
			}
		}
		d.add("%s", errText(l.Err()))
		return d.String()
	}},
	{"css.Parser", "css", "css", func(in, prog []byte) string {
		d := &digest{}
		inline := len(prog) > 0 && prog[0]%4 == 0
		p := css.NewParser(parse.NewInputBytes(cp(in)), inline)
		for {
			gt, tt, data := p.Next()
			d.add("%v %v %q %d", gt, tt, data, p.Offset())
			for _, v := range p.Values() {
				d.add("%v %q", v.TokenType, v.Data)
			}
			if gt == css.ErrorGrammar {
				break
			}
		}
		d.add("%s %v", errText(p.Err()), p.HasParseError())
		return d.String()
	}},
	{"css.Parser(reader)", "css", "css", func(in, prog []byte) string {
		d := &digest{}
		p := css.NewParser(parse.NewInput(&chunkReader{b: cp(in), prog: prog}), false)
		for {
			gt, tt, data := p.Next()
			d.add("%v %v %q", gt, tt, data)
			for _, v := range p.Values() {
				d.add("%v %q", v.TokenType, v.Data)
			}
			if gt == css.ErrorGrammar {
				break
			}
		}
		d.add("%s", errText(p.Err()))
		return d.String()
	}},
	{"css.IsIdent/IsURLUnquoted/ToHash", "css", "css", func(in, prog []byte) string {
		d := &digest{}
		for _, f := range bytes.FieldsFunc(cp(in), func(r rune) bool { return r == ' ' || r == ';' || r == '{' || r == ':' }) {
			d.add("%v %v %d %s", css.IsIdent(f), css.IsURLUnquoted(f), css.ToHash(f), css.ToHash(f).String())
		}
		if len(prog) >= 3 {
			r, g, b := css.HSL2RGB(float64(prog[0])/255, float64(prog[1])/255, float64(prog[2])/255)
			d.add("%v %v %v", r, g, b)
		}
		return d.String()
	}},
	{"html.Lexer", "html", "html", func(in, prog []byte) string {
		d := &digest{}
		l := html.NewLexer(parse.NewInputBytes(cp(in)))
		htmlLoop(l, d)
		return d.String()
	}},
	{"html.TemplateLexer", "html", "html", func(in, prog []byte) string {
		d := &digest{}
		tmpl := [][2]string{html.GoTemplate, html.HandlebarsTemplate, html.MustacheTemplate, html.EJSTemplate, html.ASPTemplate, html.PHPTemplate}
		k := 0
		if len(prog) > 0 {
			k = int(prog[0]) % len(tmpl)
		}
		l := html.NewTemplateLexer(parse.NewInputBytes(cp(in)), tmpl[k])
		htmlLoop(l, d)
		return d.String()
	}},
	{"html.EscapeAttrVal/ToHash", "html", "html", func(in, prog []byte) string {
		d := &digest{}
		var buf []byte
		for i, q := range []byte{0, '"', '\''} {
			d.add("%q", html.EscapeAttrVal(&buf, cp(in), q, i%2 == 0))
			d.add("%q", html.EscapeAttrVal(&buf, cp(in), q, i%2 == 1))
		}
		for _, f := range bytes.Fields(cp(in)) {
			d.add("%d %s", html.ToHash(f), html.ToHash(f).String())
		}
		return d.String()
	}},
	{"xml.Lexer", "xml", "xml", func(in, prog []byte) string {
		d := &digest{}
		l := xml.NewLexer(parse.NewInputBytes(cp(in)))
		for {
			tt, data := l.Next()
			d.add("%v %q %q %q", tt, data, l.Text(), l.AttrVal())
			if tt == xml.ErrorToken {
				break
			}
		}
		d.add("%s", errText(l.Err()))
		return d.String()
	}},
	{"xml.EscapeAttrVal/EscapeCDATAVal", "xml", "xml", func(in, prog []byte) string {
		d := &digest{}
		var buf []byte
		d.add("%q", xml.EscapeAttrVal(&buf, cp(in)))
		b, ok := xml.EscapeCDATAVal(&buf, cp(in))
		d.add("%q %v", b, ok)
		b, ok = xml.EscapeCDATAVal(&buf, append([]byte("<![CDATA["), append(cp(in), "]]>"...)...))
		d.add("%q %v", b, ok)
		return d.String()
	}},
	{"json.Parser", "json", "json", func(in, prog []byte) string {
		d := &digest{}
		p := json.NewParser(parse.NewInputBytes(cp(in)))
		for {
			gt, data := p.Next()
			d.add("%v %q %v", gt, data, p.State())
			if gt == json.ErrorGrammar {
				break
			}
		}
		d.add("%s", errText(p.Err()))
		return d.String()
	}},
	{"json.Parser(reader)", "json", "json", func(in, prog []byte) string {
		d := &digest{}
		p := json.NewParser(parse.NewInput(&chunkReader{b: cp(in), prog: prog}))
		for {
			gt, data := p.Next()
			d.add("%v %q", gt, data)
			if gt == json.ErrorGrammar {
				break
			}
		}
		d.add("%s", errText(p.Err()))
		return d.String()
	}},
	{"js.Lexer", "js", "js", func(in, prog []byte) string {
		d := &digest{}
		l := js.NewLexer(parse.NewInputBytes(cp(in)))
		prev := js.ErrorToken
		for {
			tt, data := l.Next()
			if (tt == js.DivToken || tt == js.DivEqToken) && (prev == js.EqToken || prev == js.OpenParenToken || prev == js.ErrorToken) {
				tt, data = l.RegExp()
			}
			d.add("%v %q", tt, data)
			if tt == js.ErrorToken {
				break
			}
			if tt != js.WhitespaceToken && tt != js.LineTerminatorToken {
				prev = tt
			}
		}
		d.add("%s", errText(l.Err()))
		return d.String()
	}},
	{"js.Parse+print", "js", "js", func(in, prog []byte) string {
		d := &digest{}
		o := js.Options{}
		if len(prog) > 0 {
			o.WhileToFor = prog[0]&1 != 0
			o.Inline = prog[0]&2 != 0
		}
		ast, err := js.Parse(parse.NewInputBytes(cp(in)), o)
		d.add("%s", errText(err))
		if err != nil {
			return d.String()
		}
		d.add("%s", ast.String())
		d.add("%s", ast.JSString())
		s, jerr := ast.JSONString()
		d.add("%s %s", s, errText(jerr))
		d.add("%s", ast.BlockStmt.Scope.String())
		return d.String()
	}},
	{"js.Parse(reader)+Walk", "js", "js", func(in, prog []byte) string {
		d := &digest{}
		ast, err := js.Parse(parse.NewInput(&chunkReader{b: cp(in), prog: prog}), js.Options{})
		d.add("%s", errText(err))
		if err != nil {
			return d.String()
		}
		v := &nodeCounter{d: d}
		js.Walk(v, ast)
		d.add("%d", v.n)
		return d.String()
	}},
	{"js.AsIdentifierName/AsDecimalLiteral/IsIdentifier*", "js", "js", func(in, prog []byte) string {
		d := &digest{}
		for _, f := range bytes.FieldsFunc(cp(in), func(r rune) bool { return r == ' ' || r == ';' || r == '(' || r == '=' }) {
			d.add("%v %v %v %v %v", js.AsIdentifierName(f), js.AsDecimalLiteral(f), js.IsIdentifierStart(f), js.IsIdentifierContinue(f), js.IsIdentifierEnd(f))
			if d.n > 100 {
				break
			}
		}
		return d.String()
	}},
	{"strconv.Parse*", "strconv", "num", func(in, prog []byte) string {
		d := &digest{}
		b := cp(in)
		for i := 0; i <= len(b) && i < 30; i++ {
			f, n := strconv.ParseFloat(b[i:])
			d.add("%x %d", f, n)
			i64, n2 := strconv.ParseInt(b[i:])
			d.add("%d %d", i64, n2)
			u64, n3 := strconv.ParseUint(b[i:])
			d.add("%d %d", u64, n3)
			dec, n4 := strconv.ParseDecimal(b[i:])
			d.add("%x %d", dec, n4)
			num, dd, n5 := strconv.ParseNumber(b[i:], ',', '.')
			d.add("%d %d %d", num, dd, n5)
		}
		return d.String()
	}},
	{"strconv.Append*", "strconv", "num", func(in, prog []byte) string {
		d := &digest{}
		b := cp(in)
		f, _ := strconv.ParseFloat(b)
		i64, _ := strconv.ParseInt(b)
		for k, op := range prog {
			if k >= 6 {
				break
			}
			d.add("%q", strconv.AppendFloat(nil, f, int(op)%20-1))
			d.add("%q", strconv.AppendDecimal(nil, f, int(op)%12))
			d.add("%q %d %d", strconv.AppendInt(nil, i64), strconv.LenInt(i64), strconv.LenUint(uint64(i64)))
			d.add("%q", strconv.AppendNumber(nil, i64, int(op)%7, int(op)%4, ',', '.'))
		}
		return d.String()
	}},
}

func htmlLoop(l *html.Lexer, d *digest) {
	for {
		tt, data := l.Next()
		d.add("%v %q %q %q %q %v", tt, data, l.Text(), l.AttrKey(), l.AttrVal(), l.HasTemplate())
		if tt == html.ErrorToken {
			break
		}
	}
	d.add("%s", errText(l.Err()))
}

func sortStrings(s []string) {
	for i := 1; i < len(s); i++ {
		for j := i; j > 0 && s[j] < s[j-1]; j-- {
			s[j], s[j-1] = s[j-1], s[j]
		}
	}
}
