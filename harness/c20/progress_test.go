package c20

import (
	"crypto/sha256"
	"errors"
	"fmt"
	"io"
	"os"
	"os/exec"
	"strings"
	"testing"
	"time"

	"github.com/tdewolff/parse/v2"
	"github.com/tdewolff/parse/v2/buffer"
	"pgregory.net/rapid"

	"verif/internal/ev"
)

var errStream = errors.New("stream broke")

type failingReader struct {
	data   []byte
	off    int
	chunk   int
	failAt  int
	errWith bool // the error arrives together with the last bytes, the way a connection is reset
}

func (r *failingReader) Read(p []byte) (int, error) {
	if r.off >= r.failAt {
		return 0, errStream
	}
	n := r.chunk
	if n > len(p) {
		n = len(p)
	}
	if n > r.failAt-r.off {
		n = r.failAt - r.off
	}
	copy(p, r.data[r.off:r.off+n])
	r.off += n
	if r.errWith && r.off >= r.failAt {
		return n, errStream
	}
	return n, nil
}

// streamDigest: what a StreamLexer of the default size shows of a stream that breaks: the lines, and at which line Err()
// stops being nil
func streamDigest(data []byte, chunk, failAt int, errWith bool) string {
	z := buffer.NewStreamLexer(&failingReader{data: data, chunk: chunk, failAt: failAt, errWith: errWith})
	var sb strings.Builder
	lines, firstErr := 0, -1
	for steps := 0; steps < 2*len(data)+10; steps++ {
		c := z.Peek(0)
		if firstErr < 0 && z.Err() != nil {
			firstErr = steps // the first position at which a consumer that looks at Err() after every Peek sees the error
		}
		if c == 0 && z.Err() != nil {
			break
		}
		z.Move(1)
		if c == '\n' {
			lines++
			n := z.ShiftLen()
			tok := z.Shift()
			fmt.Fprintf(&sb, "%d:%d:%v ", lines, len(tok), z.Err())
			z.Free(n)
		}
	}
	fmt.Fprintf(&sb, "end %d %q %v, error first seen at byte %d", lines, z.Shift(), z.Err(), firstErr)
	return sb.String()
}

func streamData(nlines int) []byte {
	var sb strings.Builder
	for i := 0; i < nlines; i++ {
		fmt.Fprintf(&sb, "line %d of the stream\n", i)
	}
	return []byte(sb.String())
}

// TestChildStream is the body of the fresh process of TestProp_StreamHistory
func TestChildStream(t *testing.T) {
	spec := os.Getenv("VERIF_C20_STREAM")
	if spec == "" {
		t.Skip("child-process helper")
	}
	var nlines, chunk, failAt int
	var errWith bool
	if _, err := fmt.Sscanf(spec, "%d %d %d %t", &nlines, &chunk, &failAt, &errWith); err != nil {
		t.Fatalf("bad spec %q: %v", spec, err)
	}
	fmt.Printf("STREAM %x\n", sha256.Sum256([]byte(streamDigest(streamData(nlines), chunk, failAt, errWith))))
}

// TestProp_StreamHistory: what a new StreamLexer shows of a stream does not depend on the streams that other lexers of the
// process have seen (tokens that made their buffers grow)
func TestProp_StreamHistory(t *testing.T) {
	ev.Describe("streamhistory", "a stream of 300-3000 short lines (6-70 KB) that breaks (a non-EOF error) at a drawn offset, read in chunks of 16-4096 bytes or as much as fits the buffer handed over, through buffer.NewStreamLexer, digested (line count, token lengths, the line at which Err() stops being nil) before and after 1-3 other lexers of the process have read streams with tokens of 3-60 KB; oracle: the two digests are equal, and equal to the digest that a fresh process computes for the same stream (whenever the error comes with the last bytes of a read that fills the buffer, and a tenth of the other cases); non-trivial = every case")
	ev.Check(t, 60, func(t *rapid.T) {
		nlines := rapid.IntRange(300, 3000).Draw(t, "lines")
		data := streamData(nlines)
		chunk := rapid.SampledFrom([]int{100, 4096, 1 << 30, 1 << 30, 1 << 30}).Draw(t, "chunk") // (1<<30: as much as the buffer it is handed takes)
		failAt := rapid.IntRange(1, len(data)).Draw(t, "failAt")
		errWith := rapid.Bool().Draw(t, "errWith")
		before := streamDigest(data, chunk, failAt, errWith)
		for k := rapid.IntRange(1, 3).Draw(t, "others"); k > 0; k-- {
			big := []byte(strings.Repeat("x", rapid.SampledFrom([]int{3000, 5000, 20000, 60000}).Draw(t, "token")) + "\nrest\n")
			z := buffer.NewStreamLexerSize(&failingReader{data: big, chunk: 4096, failAt: len(big)}, rapid.SampledFrom([]int{0, 64, 4096}).Draw(t, "othersize"))
			for z.Peek(0) != 0 {
				z.Move(1)
			}
			z.Shift()
		}
		after := streamDigest(data, chunk, failAt, errWith)
		if after != before {
			t.Fatalf("a stream of %d bytes that breaks at %d, read in chunks of %d\nbefore other lexers read long tokens: %.300s\nafterwards:                           %.300s", len(data), failAt, chunk, before, after)
		}
		if rapid.IntRange(0, 9).Draw(t, "fresh") == 0 || errWith && chunk == 1<<30 {
			// and it is what a process that has lexed nothing else shows of the same stream
			cmd := exec.Command(os.Args[0], "-test.run", "^TestChildStream$", "-test.v")
			cmd.Env = append(os.Environ(), fmt.Sprintf("VERIF_C20_STREAM=%d %d %d %v", nlines, chunk, failAt, errWith), "VERIF_EV_OUT=")
			out, err := cmd.CombinedOutput()
			if err != nil {
				t.Fatalf("VERIF-INFRA child process failed: %v\n%.2000s", err, out)
			}
			i := strings.Index(string(out), "STREAM ")
			if i < 0 {
				t.Fatalf("VERIF-INFRA child printed no digest\n%.2000s", out)
			}
			fresh := strings.SplitN(string(out)[i+7:], "\n", 2)[0]
			if sum := fmt.Sprintf("%x", sha256.Sum256([]byte(after))); sum != fresh {
				t.Fatalf("a stream of %d bytes that breaks at %d (error with the last bytes: %v), read in chunks of %d: a process that has lexed nothing else gets another result than this one, which has (digest %s, here %s: %.300s)", len(data), failAt, errWith, chunk, fresh, sum, after)
			}
		}
		ev.Case("streamhistory", fmt.Sprintf("len=%d chunk=%d failAt=%d", len(data), chunk, failAt), true, fmt.Sprintf("chunk=%d", chunk))
	})
}

// blockingSeeker serves data but waits in its first Read until released
type blockingSeeker struct {
	r       *strings.Reader
	release chan struct{}
	entered chan struct{}
	first   bool
}

func (b *blockingSeeker) Read(p []byte) (int, error) {
	if !b.first {
		b.first = true
		close(b.entered)
		<-b.release
	}
	return b.r.Read(p)
}
func (b *blockingSeeker) Seek(off int64, whence int) (int64, error) { return b.r.Seek(off, whence) }

// TestProp_IndependentProgress: an instance whose source is waiting (a slow disk, a pipe that another goroutine fills)
// does not hold up other instances: each works on private data
func TestProp_IndependentProgress(t *testing.T) {
	ev.Describe("progress", "goroutine A reads through a BinaryReader (ReadSeeker backend) / StreamLexer / NewInput whose source waits inside Read; while it waits, goroutine B does the same kind of work on a source of its own and must finish; then A is released and must finish with the right result; oracle: B finishes although A is waiting (a bound of 20 s, a thousand times what the work takes, stands for 'never'), both results are right; non-trivial = every case")
	ev.Check(t, 12, func(t *rapid.T) {
		kind := rapid.SampledFrom([]string{"binary-seeker", "streamlexer", "input"}).Draw(t, "kind")
		text := strings.Repeat("0123456789abcdef", rapid.IntRange(1, 40).Draw(t, "len"))
		work := func(src io.ReadSeeker) string {
			switch kind {
			case "binary-seeker":
				r, err := parse.NewBinaryReaderReader(src, int64(len(text)))
				if err != nil {
					return "constructor: " + err.Error()
				}
				return string(r.ReadBytes(int64(len(text))))
			case "streamlexer":
				z := buffer.NewStreamLexer(src)
				for z.Peek(0) != 0 {
					z.Move(1)
				}
				return string(z.Shift())
			}
			return string(parse.NewInput(src).Bytes())
		}
		a := &blockingSeeker{r: strings.NewReader(text), release: make(chan struct{}), entered: make(chan struct{})}
		doneA := make(chan string, 1)
		go func() { doneA <- work(a) }()
		select {
		case <-a.entered:
		case <-time.After(20 * time.Second):
			t.Fatalf("%s: the source of A was never read", kind)
		}
		doneB := make(chan string, 1)
		go func() { doneB <- work(strings.NewReader(text)) }()
		select {
		case got := <-doneB:
			if got != text {
				t.Fatalf("%s: B read %q, want %q", kind, got, text)
			}
		case <-time.After(20 * time.Second):
			close(a.release)
			t.Fatalf("%s: B, which works on a source of its own, does not finish while the source of A is waiting", kind)
		}
		close(a.release)
		select {
		case got := <-doneA:
			if got != text {
				t.Fatalf("%s: A read %q, want %q", kind, got, text)
			}
		case <-time.After(20 * time.Second):
			t.Fatalf("%s: A does not finish after its source was released", kind)
		}
		ev.Case("progress", fmt.Sprintf("%s len=%d", kind, len(text)), true, kind)
	})
}
