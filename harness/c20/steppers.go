package c20

import (
	"fmt"

	"github.com/tdewolff/parse/v2"
	"github.com/tdewolff/parse/v2/buffer"
	"github.com/tdewolff/parse/v2/css"
	"github.com/tdewolff/parse/v2/html"
	"github.com/tdewolff/parse/v2/js"
	"github.com/tdewolff/parse/v2/json"
	"github.com/tdewolff/parse/v2/strconv"
	"github.com/tdewolff/parse/v2/xml"
)

// A stepper is one live instance (lexer, parser, AST, helper result) that is driven one step at a time; every step
// reports what the instance hands back at that moment. Several live instances in one goroutine must not influence each
// other: driven interleaved, each reports exactly what it reports when driven alone.
type stepper func() (out string, done bool)

type maker struct {
	name string
	pkg  string
	lang string
	mk   func(in, prog []byte) stepper
}

// twoPhase: the first step calls the library and keeps what it returned, the second step reads it (a result that lives in
// storage shared with another instance has changed by then)
func twoPhase(call func() func() string) stepper {
	var read func() string
	return func() (string, bool) {
		if read == nil {
			read = call()
			return "called", false
		}
		return read(), true
	}
}

var makers = []maker{
	{"css.Lexer", "css", "css", func(in, prog []byte) stepper {
		l := css.NewLexer(parse.NewInputBytes(cp(in)))
		var prev []byte
		return func() (string, bool) {
			tt, data := l.Next()
			s := fmt.Sprintf("%v %q prev=%q %s", tt, data, prev, errText(l.Err()))
			prev = data
			return s, tt == css.ErrorToken
		}
	}},
	{"css.Parser", "css", "css", func(in, prog []byte) stepper {
		p := css.NewParser(parse.NewInputBytes(cp(in)), len(prog) > 0 && prog[0]%4 == 0)
		var prev []css.Token
		return func() (string, bool) {
			// the values of the previous grammar unit are only valid until the next call of Next of the SAME parser:
			// they are read before this parser steps, after other parsers have stepped
			s := ""
			for _, v := range prev {
				s += fmt.Sprintf("%v %q,", v.TokenType, v.Data)
			}
			gt, tt, data := p.Next()
			prev = p.Values()
			return fmt.Sprintf("prev[%s] %v %v %q %d %s", s, gt, tt, data, p.Offset(), errText(p.Err())), gt == css.ErrorGrammar
		}
	}},
	{"html.Lexer", "html", "html", func(in, prog []byte) stepper {
		l := html.NewLexer(parse.NewInputBytes(cp(in)))
		if len(prog) > 0 && prog[0]%3 == 0 {
			l = html.NewTemplateLexer(parse.NewInputBytes(cp(in)), html.EJSTemplate)
		}
		var prev, prevVal []byte
		return func() (string, bool) {
			tt, data := l.Next()
			s := fmt.Sprintf("%v %q %q %q %q prev=%q,%q", tt, data, l.Text(), l.AttrKey(), l.AttrVal(), prev, prevVal)
			prev, prevVal = data, l.AttrVal()
			return s, tt == html.ErrorToken
		}
	}},
	{"xml.Lexer", "xml", "xml", func(in, prog []byte) stepper {
		l := xml.NewLexer(parse.NewInputBytes(cp(in)))
		var prev []byte
		return func() (string, bool) {
			tt, data := l.Next()
			s := fmt.Sprintf("%v %q %q %q prev=%q", tt, data, l.Text(), l.AttrVal(), prev)
			prev = data
			return s, tt == xml.ErrorToken
		}
	}},
	{"json.Parser", "json", "json", func(in, prog []byte) stepper {
		p := json.NewParser(parse.NewInputBytes(cp(in)))
		var prev []byte
		return func() (string, bool) {
			gt, data := p.Next()
			s := fmt.Sprintf("%v %q %v prev=%q", gt, data, p.State(), prev)
			prev = data
			return s, gt == json.ErrorGrammar
		}
	}},
	{"js.Lexer", "js", "js", func(in, prog []byte) stepper {
		l := js.NewLexer(parse.NewInputBytes(cp(in)))
		var prev []byte
		return func() (string, bool) {
			tt, data := l.Next()
			s := fmt.Sprintf("%v %q prev=%q", tt, data, prev)
			prev = data
			return s, tt == js.ErrorToken
		}
	}},
	{"js.Parse then print", "js", "js", func(in, prog []byte) stepper {
		o := js.Options{}
		if len(prog) > 0 {
			o.WhileToFor, o.Inline = prog[0]&1 != 0, prog[0]&2 != 0
		}
		return twoPhase(func() func() string {
			ast, err := js.Parse(parse.NewInputBytes(cp(in)), o)
			return func() string {
				if err != nil {
					return err.Error()
				}
				return ast.String() + "\n" + ast.JSString() + "\n" + ast.BlockStmt.Scope.String()
			}
		})
	}},
	{"parse.Input", "parse", "any", func(in, prog []byte) stepper {
		z := parse.NewInputBytes(cp(in))
		i := 0
		return func() (string, bool) {
			if i >= len(prog) {
				z.Restore()
				return fmt.Sprintf("end %d", z.Offset()), true
			}
			d := &digest{}
			inputOps(z, prog[i:i+1], d)
			i++
			return d.String(), false
		}
	}},
	{"buffer.StreamLexer", "buffer", "any", func(in, prog []byte) stepper {
		size := 8
		if len(prog) > 0 {
			size = int(prog[0])%64 + 1
		}
		z := buffer.NewStreamLexerSize(&chunkReader{b: cp(in), prog: prog}, size)
		steps := 0
		return func() (string, bool) {
			for ; steps < 3*len(in)+10; steps++ {
				c := z.Peek(0)
				if c == 0 && z.Err() != nil {
					break
				}
				z.Move(1)
				if c == ' ' || c == '\n' || steps%7 == 6 {
					n := z.ShiftLen()
					s := fmt.Sprintf("%q", z.Shift())
					z.Free(n)
					steps++
					return s, false
				}
			}
			return fmt.Sprintf("%q %s", z.Shift(), errText(z.Err())), true
		}
	}},
	{"buffer.StreamLexer(default size)", "buffer", "any", func(in, prog []byte) stepper {
		z := buffer.NewStreamLexer(&chunkReader{b: cp(in), prog: append([]byte{255, 254}, prog...), big: true})
		var pending []int
		var held [][]byte
		var heldCopy []string
		steps := 0
		return func() (string, bool) {
			for ; steps < 3*len(in)+10; steps++ {
				c := z.Peek(0)
				if c == 0 && z.Err() != nil {
					break
				}
				z.Move(1)
				if c == ' ' || c == '\n' || c == ';' || c == ',' || c == '>' || steps%61 == 60 {
					n := z.ShiftLen()
					tok := z.Shift()
					out := fmt.Sprintf("%q", tok)
					held, heldCopy = append(held, tok), append(heldCopy, string(tok))
					pending = append(pending, n)
					if len(pending) > 2 {
						z.Free(pending[0])
						pending, held, heldCopy = pending[1:], held[1:], heldCopy[1:]
					}
					for i := range held {
						if string(held[i]) != heldCopy[i] {
							out += fmt.Sprintf(" HELD TOKEN CHANGED %q -> %q", heldCopy[i], held[i])
						}
					}
					steps++
					return out, false
				}
			}
			return fmt.Sprintf("%q %s", z.Shift(), errText(z.Err())), true
		}
	}},
	{"html.EscapeAttrVal", "html", "html", func(in, prog []byte) stepper {
		return twoPhase(func() func() string {
			var buf []byte
			q := []byte{0, '"', '\''}[len(in)%3]
			res := html.EscapeAttrVal(&buf, cp(in), q, true)
			return func() string { return fmt.Sprintf("%q", res) }
		})
	}},
	{"xml.EscapeAttrVal/EscapeCDATAVal", "xml", "xml", func(in, prog []byte) stepper {
		return twoPhase(func() func() string {
			var buf, buf2 []byte
			a := xml.EscapeAttrVal(&buf, cp(in))
			b, ok := xml.EscapeCDATAVal(&buf2, append([]byte("<![CDATA["), append(cp(in), "]]>"...)...))
			return func() string { return fmt.Sprintf("%q %q %v", a, b, ok) }
		})
	}},
	{"parse.Replace*/EncodeURL/DecodeURL", "parse", "html", func(in, prog []byte) stepper {
		return twoPhase(func() func() string {
			em, rm := entities()
			a := parse.ReplaceMultipleWhitespaceAndEntities(cp(in), em, rm)
			b := parse.EncodeURL(cp(in), parse.URLEncodingTable)
			c := parse.DecodeURL(cp(in))
			d := parse.ToLower(cp(in))
			e := parse.AppendEscape(nil, cp(in), []byte("\"'"), '\\')
			mt, _ := parse.Mediatype(cp(in))
			return func() string { return fmt.Sprintf("%q %q %q %q %q %q", a, b, c, d, e, mt) }
		})
	}},
	{"strconv.Append*", "strconv", "num", func(in, prog []byte) stepper {
		return twoPhase(func() func() string {
			f, _ := strconv.ParseFloat(cp(in))
			i64, _ := strconv.ParseInt(cp(in))
			a := strconv.AppendFloat(nil, f, 6)
			b := strconv.AppendDecimal(nil, f, 3)
			c := strconv.AppendInt(nil, i64)
			d := strconv.AppendNumber(nil, i64, 2, 3, ',', '.')
			return func() string { return fmt.Sprintf("%q %q %q %q", a, b, c, d) }
		})
	}},
	{"parse.NewError", "parse", "any", func(in, prog []byte) stepper {
		return twoPhase(func() func() string {
			z := parse.NewInputBytes(cp(in))
			z.Move(len(in) / 2)
			err := parse.NewErrorLexer(z, "at %d", z.Pos())
			return func() string { return err.Error() }
		})
	}},
}
