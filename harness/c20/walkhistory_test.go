package c20

import (
	"fmt"
	"testing"

	"github.com/tdewolff/parse/v2"
	"github.com/tdewolff/parse/v2/js"
	"pgregory.net/rapid"

	"verif/internal/ev"
	"verif/internal/gen"
)

// pruner returns nil for every node whose pre-order index is a multiple of every (and for every leaf when leaves is set)
type pruner struct {
	n, nils *int
	every   int
}

func (v pruner) Enter(n js.INode) js.IVisitor {
	*v.n++
	if *v.n%v.every == 0 {
		*v.nils++
		return nil
	}
	return v
}

func (v pruner) Exit(n js.INode) {}

func walkDigest(ast *js.AST) string {
	d := &digest{}
	v := &nodeCounter{d: d}
	js.Walk(v, ast)
	d.add("%d/%d", v.n, v.depth)
	return d.String()
}

// TestProp_WalkHistory: a long history of walks that stop early (Enter returns nil) must not change what a later walk of any tree visits
func TestProp_WalkHistory(t *testing.T) {
	ev.Describe("walkhistory", "case = a probe tree and 1-4 history trees (js.Parse of mutated repository literals and big generated programs) x a history of 10 - 300000 Enter calls that return nil (walks with a visitor that returns nil at every k-th node, k in 1..7, repeated over the history trees); the full walk of the probe tree (node types, depths, count) must be the same before and after the history, from the same goroutine and from a new one; non-trivial = >= 1000 nil returns in the history")
	ev.Check(t, 60, func(t *rapid.T) {
		parseOne := func(label string) *js.AST {
			for try := 0; try < 20; try++ {
				in := genInput(t, "js")
				if ast, err := js.Parse(parse.NewInputBytes(cp(in)), js.Options{}); err == nil {
					return ast
				}
			}
			ast, _ := js.Parse(parse.NewInputString("a=function(b){return b+1}(c,[d,{e:f}])"), js.Options{})
			return ast
		}
		probe := parseOne("probe")
		want := walkDigest(probe)
		var trees []*js.AST
		for n := rapid.IntRange(1, 4).Draw(t, "ntrees"); n > 0; n-- {
			trees = append(trees, parseOne("history"))
		}
		target := rapid.SampledFrom([]int{10, 1000, 70000, 140000, 300000}).Draw(t, "nils")
		every := rapid.IntRange(1, 7).Draw(t, "every")
		nils, walks := 0, 0
		for nils < target && walks < 400000 {
			n := 0
			js.Walk(pruner{&n, &nils, every}, trees[walks%len(trees)])
			walks++
		}
		if got := walkDigest(probe); got != want {
			t.Fatalf("walk of %q\nbefore: %s\nafter %d walks with %d nil returns (every %d): %s", short([]byte(probe.JSString())), want, walks, nils, every, got)
		}
		ch := make(chan string)
		go func() { ch <- walkDigest(probe) }()
		if got := <-ch; got != want {
			t.Fatalf("walk of %q from another goroutine\nbefore: %s\nafter: %s", short([]byte(probe.JSString())), want, got)
		}
		ev.Case("walkhistory", fmt.Sprintf("%d walks, %d nils, every %d; probe %s", walks, nils, every, short([]byte(probe.JSString()))), nils >= 1000, fmt.Sprintf("nils>=%d", target))
	})
}

var _ = gen.Corpus
