// deepchild runs one deep-nesting case in its own process with a reduced maximum stack: a stack overflow is a fatal
// error that recover() cannot catch, so the parent (harness/c01) decides by the exit status and the stderr marker.
//
// The case is read from stdin as JSON: input = head + prefix*depth + mid + suffix*depth + tail, where mid may itself be
// another nested construct (inner*).
package main

import (
	"bytes"
	stdjson "encoding/json"
	"fmt"
	"os"
	"runtime/debug"
	"strings"

	"github.com/tdewolff/parse/v2"
	"github.com/tdewolff/parse/v2/css"
	"github.com/tdewolff/parse/v2/html"
	"github.com/tdewolff/parse/v2/js"
	"github.com/tdewolff/parse/v2/json"
	"github.com/tdewolff/parse/v2/xml"
)

type nopVisitor struct{ n int }

func (v *nopVisitor) Enter(n js.INode) js.IVisitor { v.n++; return v }
func (v *nopVisitor) Exit(n js.INode)              {}

type spec struct {
	Entry, Head, Prefix, Mid, Suffix, Tail, Opts string
	Depth                                        int
	InnerPrefix, InnerMid, InnerSuffix           string
	InnerDepth                                   int
	HasInner                                     bool
	Flat                                         string
	FlatN                                        int
}

func main() {
	debug.SetMaxStack(16 << 20)
	var c spec
	if err := stdjson.NewDecoder(os.Stdin).Decode(&c); err != nil {
		fmt.Println("RESULT bad-spec", err)
		os.Exit(3)
	}
	entry, opts := c.Entry, c.Opts
	mid := c.Mid
	if c.HasInner {
		mid = strings.Repeat(c.InnerPrefix, c.InnerDepth) + c.InnerMid + strings.Repeat(c.InnerSuffix, c.InnerDepth)
	}
	src := strings.Repeat(c.Flat, c.FlatN) + c.Head + strings.Repeat(c.Prefix, c.Depth) + mid + strings.Repeat(c.Suffix, c.Depth) + c.Tail
	budget := 4*len(src) + 16
	calls := 0
	switch entry {
	case "jsparse":
		o := js.Options{WhileToFor: strings.Contains(opts, "w"), Inline: strings.Contains(opts, "i")}
		ast, err := js.Parse(parse.NewInputString(src), o)
		if err != nil {
			fmt.Println("RESULT err", strings.SplitN(err.Error(), "\n", 2)[0])
			return
		}
		s := ast.String()
		j := ast.JSString()
		v := &nopVisitor{}
		js.Walk(v, ast)
		var buf bytes.Buffer
		jerr := ast.JSON(&buf)
		fmt.Println("RESULT ok", len(s), len(j), v.n, jerr != nil)
		return
	case "jslex":
		l := js.NewLexer(parse.NewInputString(src))
		for ; calls < budget; calls++ {
			if tt, data := l.Next(); tt == js.ErrorToken && data == nil {
				break
			}
		}
	case "csslex":
		l := css.NewLexer(parse.NewInputString(src))
		for ; calls < budget; calls++ {
			if tt, _ := l.Next(); tt == css.ErrorToken {
				break
			}
		}
	case "cssparse":
		p := css.NewParser(parse.NewInputString(src), strings.Contains(opts, "i"))
		for ; calls < budget; calls++ {
			if gt, _, _ := p.Next(); gt == css.ErrorGrammar && !p.HasParseError() {
				break
			}
			_ = p.Values()
		}
	case "json":
		p := json.NewParser(parse.NewInputString(src))
		for ; calls < budget; calls++ {
			if gt, _ := p.Next(); gt == json.ErrorGrammar {
				break
			}
		}
	case "html":
		l := html.NewLexer(parse.NewInputString(src))
		for ; calls < budget; calls++ {
			if tt, _ := l.Next(); tt == html.ErrorToken {
				break
			}
		}
	case "xml":
		l := xml.NewLexer(parse.NewInputString(src))
		for ; calls < budget; calls++ {
			if tt, _ := l.Next(); tt == xml.ErrorToken {
				break
			}
		}
	default:
		fmt.Println("RESULT bad-entry")
		os.Exit(3)
	}
	if calls >= budget {
		fmt.Println("RESULT nonterminating", calls)
		os.Exit(4)
	}
	fmt.Println("RESULT ok", calls)
}
