// evmerge merges the shard files written by internal/ev into one evidence file.
package main

import (
	"encoding/binary"
	"encoding/json"
	"flag"
	"fmt"
	"os"
	"sort"
	"strings"
)

type Sub struct {
	Evaluations int64            `json:"evaluations"`
	NonTrivial  int64            `json:"nontrivial"`
	Classes     map[string]int64 `json:"classes,omitempty"`
	Excluded    map[string]int64 `json:"excluded_known,omitempty"`
	Rule        string           `json:"rule,omitempty"`
	Samples     []string         `json:"samples,omitempty"`
}

type Shard struct {
	Property    string          `json:"property"`
	Subs        map[string]*Sub `json:"subs"`
	Assumptions []string        `json:"assumptions,omitempty"`
	Known       []string        `json:"known_findings,omitempty"`
	HashCapHit  bool            `json:"hash_cap_hit"`
}

func main() {
	property := flag.String("property", "", "")
	tier := flag.String("tier", "quick", "")
	seed := flag.Int64("seed", 1, "")
	wall := flag.Float64("wall", 0, "")
	violations := flag.Int("violations", 0, "")
	out := flag.String("out", "", "")
	extra := flag.String("extra", "", "JSON object merged into coverage")
	flag.Parse()

	subs := map[string]*Sub{}
	assume := []string{}
	known := []string{}
	seenA := map[string]bool{}
	seenK := map[string]bool{}
	hashes := map[uint64]struct{}{}
	capHit := false
	nshards := 0
	for _, f := range flag.Args() {
		b, err := os.ReadFile(f)
		if err != nil {
			continue // a shard that died wrote nothing; the driver already accounts for that
		}
		var s Shard
		if err := json.Unmarshal(b, &s); err != nil {
			fmt.Fprintln(os.Stderr, "evmerge:", f, err)
			continue
		}
		nshards++
		capHit = capHit || s.HashCapHit
		for name, x := range s.Subs {
			d := subs[name]
			if d == nil {
				d = &Sub{Classes: map[string]int64{}, Excluded: map[string]int64{}}
				subs[name] = d
			}
			d.Evaluations += x.Evaluations
			d.NonTrivial += x.NonTrivial
			for k, v := range x.Classes {
				d.Classes[k] += v
			}
			for k, v := range x.Excluded {
				d.Excluded[k] += v
			}
			if d.Rule == "" {
				d.Rule = x.Rule
			}
			if len(d.Samples) < 8 {
				for _, smp := range x.Samples {
					if len(d.Samples) < 8 {
						d.Samples = append(d.Samples, smp)
					}
				}
			}
		}
		for _, a := range s.Assumptions {
			if !seenA[a] {
				seenA[a] = true
				assume = append(assume, a)
			}
		}
		for _, k := range s.Known {
			if !seenK[k] {
				seenK[k] = true
				known = append(known, k)
			}
		}
		if hb, err := os.ReadFile(f + ".hashes"); err == nil {
			for i := 0; i+8 <= len(hb); i += 8 {
				hashes[binary.LittleEndian.Uint64(hb[i:])] = struct{}{}
			}
		}
	}

	names := make([]string, 0, len(subs))
	for n := range subs {
		names = append(names, n)
	}
	sort.Strings(names)
	var evals, nontriv int64
	rules := []string{}
	samples := []any{}
	excluded := map[string]int64{}
	for _, n := range names {
		s := subs[n]
		evals += s.Evaluations
		nontriv += s.NonTrivial
		if s.Rule != "" {
			rules = append(rules, n+": "+s.Rule)
		}
		for i, smp := range s.Samples {
			if i < 3 {
				samples = append(samples, map[string]string{"subcheck": n, "case": smp})
			}
		}
		for k, v := range s.Excluded {
			excluded[k] += v
		}
	}
	rule := "distinct_nontrivial = number of distinct FNV-64a hashes of (sub-check, generated case) among cases that are non-trivial by the sub-check's rule"
	if capHit {
		rule += " (a per-process cap of 2^21 hashes was reached: later cases are not counted, so the number is a lower bound)"
	}
	rule += ". Per sub-check: " + strings.Join(rules, " || ")

	coverage := map[string]any{
		"evaluations":         evals,
		"nontrivial":          nontriv,
		"distinct_nontrivial": len(hashes),
		"rule":                rule,
		"samples":             samples,
		"subchecks":           subs,
		"shards":              nshards,
		"excluded_known":      excluded,
		"known_findings":      known,
	}
	if *extra != "" {
		var ex map[string]any
		if err := json.Unmarshal([]byte(*extra), &ex); err == nil {
			for k, v := range ex {
				if k == "evaluations_add" {
					if f, ok := v.(float64); ok {
						coverage["evaluations"] = evals + int64(f)
					}
					continue
				}
				coverage[k] = v
			}
		}
	}
	ev := map[string]any{
		"property_id": *property,
		"tier":        *tier,
		"seed":        *seed,
		"level":       "exploration",
		"coverage":    coverage,
		"assumptions": assume,
		"wall_s":      *wall,
		"violations":  *violations,
	}
	b, _ := json.MarshalIndent(ev, "", " ")
	if err := os.WriteFile(*out, append(b, '\n'), 0o644); err != nil {
		fmt.Fprintln(os.Stderr, "evmerge:", err)
		os.Exit(2)
	}
}
