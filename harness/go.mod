module verif

go 1.23

require (
	github.com/tdewolff/parse/v2 v2.0.0-00010101000000-000000000000
	pgregory.net/rapid v1.3.0
)

replace github.com/tdewolff/parse/v2 => /repo
