// Package ev records what a check run actually explored: how many cases were evaluated per
// sub-check, how many of them were non-trivial by the sub-check's stated rule, the set of
// distinct non-trivial case hashes (a real set, capped and then counted conservatively), the
// class distribution of the generator and a few sample cases. Every test binary writes one
// shard file (VERIF_EV_OUT) that cmd/evmerge turns into /verif/evidence/<id>.json.
package ev

import (
	"encoding/binary"
	"encoding/json"
	"flag"
	"fmt"
	"hash/fnv"
	"os"
	"sort"
	"strconv"
	"strings"
	"sync"
	"testing"

	"pgregory.net/rapid"
)

const hashCap = 1 << 21 // per process; beyond it distinct cases are no longer counted (conservative)
const sampleLen = 400

type Sub struct {
	Evaluations int64            `json:"evaluations"`
	NonTrivial  int64            `json:"nontrivial"`
	Classes     map[string]int64 `json:"classes,omitempty"`
	Excluded    map[string]int64 `json:"excluded_known,omitempty"`
	Rule        string           `json:"rule,omitempty"`
	Samples     []string         `json:"samples,omitempty"`
	nextSample  int64
}

type Shard struct {
	Property    string          `json:"property"`
	Subs        map[string]*Sub `json:"subs"`
	Assumptions []string        `json:"assumptions,omitempty"`
	Known       []string        `json:"known_findings,omitempty"`
	HashCapHit  bool            `json:"hash_cap_hit"`
}

var (
	mu     sync.Mutex
	shard  = Shard{Subs: map[string]*Sub{}}
	hashes = map[uint64]struct{}{}
)

func sub(name string) *Sub {
	s := shard.Subs[name]
	if s == nil {
		s = &Sub{Classes: map[string]int64{}, Excluded: map[string]int64{}, nextSample: 1}
		shard.Subs[name] = s
	}
	return s
}

// Describe states how the cases of a sub-check are generated and what makes one non-trivial.
func Describe(name, rule string) {
	mu.Lock()
	defer mu.Unlock()
	sub(name).Rule = rule
}

// Assume records something the whole check trusts.
func Assume(a string) {
	mu.Lock()
	defer mu.Unlock()
	for _, x := range shard.Assumptions {
		if x == a {
			return
		}
	}
	shard.Assumptions = append(shard.Assumptions, a)
}

// Known records that a listed known finding was replayed and still fails.
func Known(line string) {
	mu.Lock()
	defer mu.Unlock()
	shard.Known = append(shard.Known, line)
}

// Case records one evaluated case. key identifies the case (generated input/history) for the
// distinct count; sample is what is shown in the evidence (may equal key).
func Case(name string, key string, nontrivial bool, classes ...string) {
	mu.Lock()
	defer mu.Unlock()
	s := sub(name)
	s.Evaluations++
	for _, c := range classes {
		if c != "" {
			s.Classes[c]++
		}
	}
	if !nontrivial {
		return
	}
	s.NonTrivial++
	if len(hashes) < hashCap {
		h := fnv.New64a()
		h.Write([]byte(name))
		h.Write([]byte{0})
		h.Write([]byte(key))
		hashes[h.Sum64()] = struct{}{}
	} else {
		shard.HashCapHit = true
	}
	// samples: cases number 1, 2, 4, 8, ... of the non-trivial ones, at most 10 kept (latest win)
	if s.NonTrivial == s.nextSample {
		s.nextSample *= 2
		k := key
		if len(k) > sampleLen {
			k = k[:sampleLen] + "…"
		}
		k = strconv.QuoteToASCII(k)
		if len(s.Samples) < 10 {
			s.Samples = append(s.Samples, k)
		} else {
			copy(s.Samples[5:], s.Samples[6:])
			s.Samples[9] = k
		}
	}
}

// Count adds to a class counter without recording a case.
func Count(name, class string, n int64) {
	mu.Lock()
	defer mu.Unlock()
	sub(name).Classes[class] += n
}

// Excluded counts a generated case (or part of one) that was steered away from / skipped because it
// falls in the class of a listed known finding.
func Excluded(name, key string) {
	mu.Lock()
	defer mu.Unlock()
	sub(name).Excluded[key]++
}

// Scale is the case-count multiplier of the tier (VERIF_SCALE, default 1).
func Scale() float64 {
	if v := os.Getenv("VERIF_SCALE"); v != "" {
		if f, err := strconv.ParseFloat(v, 64); err == nil && f > 0 {
			return f
		}
	}
	return 1
}

// Thorough reports whether the thorough tier is running.
func Thorough() bool { return os.Getenv("VERIF_TIER") == "thorough" }

// N scales a base case count by the tier multiplier.
func N(base int) int {
	n := int(float64(base) * Scale())
	if n < 1 {
		n = 1
	}
	return n
}

// Check runs a rapid property with base*scale cases.
func Check(t *testing.T, base int, prop func(*rapid.T)) {
	t.Helper()
	if capturing {
		if captured == nil {
			captured = prop
		}
		return
	}
	if err := flag.Set("rapid.checks", strconv.Itoa(N(base))); err != nil {
		t.Fatal(err)
	}
	rapid.Check(t, prop)
}

// Main is the TestMain body of every property package.
func Main(m *testing.M, property string) {
	shard.Property = property
	code := m.Run()
	if out := os.Getenv("VERIF_EV_OUT"); out != "" {
		if err := write(out); err != nil {
			fmt.Fprintln(os.Stderr, "ev: cannot write shard:", err)
			if code == 0 {
				code = 3
			}
		}
	}
	os.Exit(code)
}

func write(out string) error {
	mu.Lock()
	defer mu.Unlock()
	b, err := json.Marshal(&shard)
	if err != nil {
		return err
	}
	if err := os.WriteFile(out, b, 0o644); err != nil {
		return err
	}
	hs := make([]uint64, 0, len(hashes))
	for h := range hashes {
		hs = append(hs, h)
	}
	sort.Slice(hs, func(i, j int) bool { return hs[i] < hs[j] })
	buf := make([]byte, 8*len(hs))
	for i, h := range hs {
		binary.LittleEndian.PutUint64(buf[8*i:], h)
	}
	return os.WriteFile(out+".hashes", buf, 0o644)
}

// KnownFindings returns the "known:" lines of KNOWN_FINDINGS.txt that belong to the property, as
// key → full line. The file is only ever read.
func KnownFindings(property string) map[string]string {
	path := os.Getenv("VERIF_KNOWN")
	if path == "" {
		path = "../../KNOWN_FINDINGS.txt"
	}
	b, err := os.ReadFile(path)
	if err != nil {
		return nil
	}
	res := map[string]string{}
	for _, line := range strings.Split(string(b), "\n") {
		line = strings.TrimSpace(line)
		if !strings.HasPrefix(line, "known:") || !strings.Contains(line, "property="+property+" ") {
			continue
		}
		for _, f := range strings.Fields(line) {
			if strings.HasPrefix(f, "key=") {
				res[strings.TrimPrefix(f, "key=")] = line
			}
		}
	}
	return res
}

// ReportKnown prints the KNOWN-FINDING line the driver passes on to stdout.
func ReportKnown(property, key, what string) {
	line := fmt.Sprintf("KNOWN-FINDING: property=%s key=%s %s", property, key, what)
	fmt.Println(line)
	Known(line)
}

// ---- coverage-guided structured fuzzing of the rapid properties (thorough tier) ----
//
// Every TestProp_* function hands exactly one property to Check. FuzzProp re-uses that very property (generator and
// oracle unchanged) as a native fuzz target through rapid.MakeFuzz: the fuzzer's byte string becomes the generator's
// random bit stream, so coverage feedback steers the *structured* generator. The property to fuzz is named by
// VERIF_FUZZ_PROP (set by the driver); without it the target is skipped.

var (
	capturing bool
	captured  func(*rapid.T)
)

func seedStream(i int) []byte {
	// fixed pseudo-random seed corpus (xorshift), sizes 64..8192 bytes: random bit streams give the generators random cases
	n := 64 << (uint(i) % 8)
	b := make([]byte, n)
	x := uint64(0x9E3779B97F4A7C15) * uint64(i+1)
	for j := range b {
		x ^= x << 13
		x ^= x >> 7
		x ^= x << 17
		b[j] = byte(x >> 32)
	}
	return b
}

func FuzzProp(f *testing.F, props map[string]func(*testing.T)) {
	name := os.Getenv("VERIF_FUZZ_PROP")
	tp := props[name]
	if tp == nil {
		f.Skip("VERIF_FUZZ_PROP names no property of this package")
	}
	for i := 0; i < 32; i++ {
		f.Add(seedStream(i))
	}
	var once sync.Once
	var fn func(*testing.T, []byte)
	f.Fuzz(func(t *testing.T, data []byte) {
		once.Do(func() {
			capturing = true
			tp(t)
			capturing = false
			if captured == nil {
				panic("ev.FuzzProp: " + name + " did not call ev.Check")
			}
			fn = rapid.MakeFuzz(captured)
		})
		fn(t, data)
	})
}
