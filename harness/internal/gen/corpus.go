package gen

import (
	"os"
	"path/filepath"
	"regexp"
	"strconv"
	"sync"

	"pgregory.net/rapid"
)

var (
	corpusOnce sync.Once
	corpus     map[string][]string
)

func repoDir() string {
	if d := os.Getenv("VERIF_REPO"); d != "" {
		return d
	}
	return "/repo"
}

var strLit = regexp.MustCompile("\"(?:[^\"\\\\\n]|\\\\.)*\"|`[^`]*`")

// Corpus returns the string literals of the repository's own test files of a package directory ("css", "html", "js",
// "json", "xml", "." for the root), read from /repo at run time (never copied). Only the inputs are used, not the
// expected values next to them (both are literals; the harness treats all of them as inputs).
func Corpus(dir string) []string {
	corpusOnce.Do(func() {
		corpus = map[string][]string{}
		for _, d := range []string{"css", "html", "js", "json", "xml", "."} {
			files, _ := filepath.Glob(filepath.Join(repoDir(), d, "*_test.go"))
			seen := map[string]bool{}
			for _, f := range files {
				b, err := os.ReadFile(f)
				if err != nil {
					continue
				}
				for _, m := range strLit.FindAllString(string(b), -1) {
					s := m[1 : len(m)-1]
					if m[0] == '"' {
						u, err := strconv.Unquote(m)
						if err != nil {
							continue
						}
						s = u
					}
					if len(s) >= 2 && len(s) <= 2000 && !seen[s] {
						seen[s] = true
						corpus[d] = append(corpus[d], s)
					}
				}
			}
		}
	})
	return corpus[dir]
}

// Mutate applies 0-3 random edits (truncate, splice with another corpus entry, duplicate a span, delete a span,
// insert a fragment, flip a byte) to s.
func Mutate(t *rapid.T, s string, others []string, frags []string) string {
	b := []byte(s)
	for n := rapid.IntRange(0, 3).Draw(t, "nmut"); n > 0; n-- {
		switch rapid.IntRange(0, 5).Draw(t, "mut") {
		case 0:
			b = b[:rapid.IntRange(0, len(b)).Draw(t, "cut")]
		case 1:
			if len(others) > 0 {
				o := rapid.SampledFrom(others).Draw(t, "other")
				i := rapid.IntRange(0, len(b)).Draw(t, "at")
				j := rapid.IntRange(0, len(o)).Draw(t, "from")
				b = append(b[:i:i], o[j:]...)
			}
		case 2:
			if len(b) > 0 {
				i := rapid.IntRange(0, len(b)-1).Draw(t, "i")
				j := rapid.IntRange(i, len(b)).Draw(t, "j")
				b = append(b[:j:j], append(append([]byte(nil), b[i:j]...), b[j:]...)...)
			}
		case 3:
			if len(b) > 0 {
				i := rapid.IntRange(0, len(b)-1).Draw(t, "i")
				j := rapid.IntRange(i, len(b)).Draw(t, "j")
				b = append(b[:i:i], b[j:]...)
			}
		case 4:
			if len(frags) > 0 {
				i := rapid.IntRange(0, len(b)).Draw(t, "at")
				f := rapid.SampledFrom(frags).Draw(t, "frag")
				b = append(b[:i:i], append([]byte(f), b[i:]...)...)
			}
		case 5:
			if len(b) > 0 {
				i := rapid.IntRange(0, len(b)-1).Draw(t, "i")
				b[i] ^= byte(1 << uint(rapid.IntRange(0, 7).Draw(t, "bit")))
			}
		}
		if len(b) > 4000 {
			b = b[:4000]
		}
	}
	return string(b)
}

// Hostile fragment alphabets per language.
var Frags = map[string][]string{
	"css": {"a", "b", "-", "--", "--x", "{", "}", "(", ")", "[", "]", ":", ";", ",", "@media", "@import", "@x", "@", "#", "#a", ".", "1", "1.", "1e", "1e+", "+", "%", "px", "u+", "U+1-", "u+??", "url(", "URL(", "url( ", ")", "\"", "'", "\\", "\\41 ", "\\\n", "\n", "\r\n", "\f", " ", "\t", "/*", "*/", "/", "<!--", "-->", "~=", "|=", "||", "|", "*", "*color", "!important", "!", ">", "+", "~", "=", "é", "\xc3", "\xf0\x9f", "\x00", "\x00\x00", "\x7f", "\x1f", "a:b", "a{b:c}", "@media x{", "a{*", "\\0", "$=",
		"\xef\xbb\xbf", "\\6c\r", "ur\\6c\r(", "\\75\r(", "\\55\\52\\4c\r(x)", "\\26\r\n", "-\\\n", "-\\", "U+4??-1", "u+1?-a", "U+1-", "--f(", "(((((((("},
	"html": {"<% a -%>\n", "-%>", "-%>\r\n", "<%", "%>", "<%= x %>", "<a", "<A", "<b c=d", "<script", "<SCRIPT>", "<style>", "<svg", "<math>", "<title>", "<textarea>", "<plaintext>", "<xmp>", "<iframe>", "<xml>", ">", "/>", "/", "</a>", "</script>", "</SCRIPT", "</svg>", "</math >", "</", "</ ", "</>", " b=c", " d='e'", " f=\"g\"", " h", "=", "'", "\"", "<!--", "-->", "--!>", "--", "<!DOCTYPE", "<!doctype html>", "<![CDATA[", "]]>", "<?", "?>", "<!", "<%", "%>", "{{", "}}", "text", " ", "\n", "\t", "\f", "\r", "\x00", "é", "\xc3", "<", "&amp;", "<script><!--", "<script>", "\\",
		// regions with upper-case content glued to names, end tags whose name goes on, abrupt comments, nested and self-closing foreign elements
		"</A{{", "{{ X }}", "</DIV{{.Foo}}>", "<%= Y %>", "<? Z ?>", "</B<%", "</svg:g>", "<svg/>", "<!-->", "<!--->", "<svg><svg>", "</textarea0>", "</script-x>", "<svg a='", "<math b=c/>", "<svg><!--", "<svg><![CDATA[", "--!>"},
	"xml": {"<a", "<b:c", ">", "/>", "?>", "</a>", "</a", "</", " x='1'", " y=\"2\"", " z", "=", "'", "\"", "<!--", "-->", "--", "<![CDATA[", "]]>", "]]", "<?xml", "<?pi", "<?", "<!DOCTYPE", "<!DOCTYPE a [", "[", "]", "]>", "<!ENTITY", "<!", "text", " ", "\n", "\t", "\r", "\x00", "é", "\xc3", "<", "&amp;", "/", "?",
		"<?p x='", "<?p >", "<?p a/>", "<!DOCTYPE a [<?p", "<?p don't?>", " x=\"?>", "]]]>", "<!DOCTYPE a [<!--"},
	"json": {"{", "}", "[", "]", ",", ":", `"a"`, `"`, `\`, `\"`, `"\\"`, `"\u00`, "1", "-", "0", "1.5", "1e5", "1e", ".", "true", "false", "null", "nul", "t", " ", "\n", "\r", "\t", "\x00", "é", "\xc3", `"k":`, `{"a":`, "[1,", "]]", "}}", "tru", "-0", "01", "//", "/*"},
	"js": {"가", "π", "変数", "ǅ", "x가", // identifier characters outside Latin-1
		"total", "counter", " value", "result", "total=", "counter*", "(value)", "{result}", "index", // names of several bytes that recur from one input to the next
		"a", "b", "$", "_", "in", "of", "let", "var", "function", "class", "async", "await", "yield", "return", "if", "else", "for", "while", "new", "this", "super", "import", "export", "from", "static", "get", "=>", "...", "..", ".", "?.", "?.5", "??", "??=", ">>>=", ">>>", "**", "**=", "&&=", "||", "!==", "===", "<<=", "++", "--", "-->", "<!--", "~", "~=", "?=", "?", ":", "#", "#a", "#!", "@", "=", "+", "-", "*", "/", "/=", "%", "<", ">", "!", "&", "|", "^", ",", ";",
		"(", ")", "[", "]", "{", "}", "${", "`", "`a${", "}`", "'", "\"", "'a'", "\"b\"", "'\\", "\\", "\\u0061", "\\u{61}", "\\u{", "\\u00", "1", "1.", ".5", "1e", "1e5", "0x", "0xg", "0x1F", "1n", "1a", "0b2", "00", "08", "1_", "1__0", "1_000", "/*", "*/", "//", "/re/g", "/[/]/", "\n", "\r\n", " ", "\t", "é", "中", "\x00", "\x01", "§", "\xc3", "\xe2\x80", "\xf0\x9f\x98", "\xef\xbb\xbf", "\xe2\x80\xa8", "\xe2\x80\xa9", "\xc2\xa0", "\xe2\x80\x8c",
		// characters that may continue an identifier but not start one (combining marks, non-ASCII digits), alone and inside names
		"\u0e31", "\u0e15\u0e31\u0e27", "\u0e34", "\u0e15\u0e34", "\u0300", "a\u0300", "\u0663", "x\u0663", "a\u200c", "\u00b7", "a\u00b7"},
}
