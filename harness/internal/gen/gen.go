// Package gen holds generators shared by several property packages.
package gen

import (
	"pgregory.net/rapid"
)

// Fragments draws 0..maxN pieces from an alphabet of meaningful fragments, mixed with raw bytes with probability 1/10.
func Fragments(t *rapid.T, label string, alphabet []string, maxN int) []byte {
	n := rapid.IntRange(0, maxN).Draw(t, label+"#")
	var b []byte
	for i := 0; i < n; i++ {
		if rapid.IntRange(0, 9).Draw(t, label+"?") == 0 {
			b = append(b, rapid.Byte().Draw(t, label+"b"))
		} else {
			b = append(b, rapid.SampledFrom(alphabet).Draw(t, label)...)
		}
	}
	return b
}

// WithSpare returns a copy of b with random spare capacity filled with 0xAA guard bytes, and the full backing array.
func WithSpare(t *rapid.T, b []byte) (slice []byte, backing []byte) {
	spare := rapid.IntRange(0, 8).Draw(t, "spare")
	backing = make([]byte, len(b)+spare)
	copy(backing, b)
	for i := len(b); i < len(backing); i++ {
		backing[i] = 0xAA
	}
	return backing[:len(b):len(backing)], backing
}
