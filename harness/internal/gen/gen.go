// Package gen holds generators shared by several property packages.
package gen

import (
	"os"

	"pgregory.net/rapid"
)

// RunLengths are the repetition counts of the "run" production: around the sizes of fixed scratch arrays and block sizes.
var RunLengths = []int{7, 8, 9, 15, 16, 17, 31, 32, 33, 34, 63, 64, 65, 127, 128, 129, 255, 256, 257, 1023, 1024, 1025}

var runUnits = []string{"a", "x", "A", "Z", "0", "9", "f", "-", "_", " ", "é"}

// BigRunLengths join RunLengths in the thorough tier: around the default block size of the stream lexer and of typical
// read buffers. (Counts around 65536 are covered by dedicated cases, not by fragment strings.)
var BigRunLengths = []int{4094, 4095, 4096, 4097, 4098, 8191, 8192, 8193}

var thorough = os.Getenv("VERIF_TIER") == "thorough"

// Fragments draws 0..maxN pieces from an alphabet of meaningful fragments, mixed with raw bytes with probability 1/10 and,
// with probability 1/25, a run: one short unit (a letter, digit, dash, space or a fragment of at most two bytes) repeated
// 7..1025 times (in the thorough tier occasionally 4094..8193 times; lengths around powers of two: just below, at and above the size of a
// fixed scratch buffer). The result stays below 6 KiB.
func Fragments(t *rapid.T, label string, alphabet []string, maxN int) []byte {
	n := rapid.IntRange(0, maxN).Draw(t, label+"#")
	var b []byte
	if rapid.IntRange(0, 15).Draw(t, label+"bom") == 0 {
		b = append(b, "\xef\xbb\xbf"...) // a byte order mark at the very start: data like any other
	}
	for i := 0; i < n; i++ {
		switch k := rapid.IntRange(0, 49).Draw(t, label+"?"); {
		case k < 5:
			b = append(b, rapid.Byte().Draw(t, label+"b"))
		case k < 7 && len(b) < 4096:
			unit := rapid.SampledFrom(runUnits).Draw(t, label+"unit")
			if f := rapid.SampledFrom(alphabet).Draw(t, label+"unitfrag"); len(f) > 0 && len(f) <= 2 && rapid.Bool().Draw(t, label+"fragunit") {
				unit = f
			}
			r := rapid.SampledFrom(RunLengths).Draw(t, label+"run")
			limit := 6000
			if thorough && rapid.IntRange(0, 39).Draw(t, label+"bigrun") == 0 {
				r = rapid.SampledFrom(BigRunLengths).Draw(t, label+"bigrunlen")
				limit = 20000
			}
			for ; r > 0 && len(b) < limit; r-- {
				b = append(b, unit...)
			}
		default:
			b = append(b, rapid.SampledFrom(alphabet).Draw(t, label)...)
		}
	}
	return b
}

// WithSpare returns a copy of b with random spare capacity filled with 0xAA guard bytes, and the full backing array.
func WithSpare(t *rapid.T, b []byte) (slice []byte, backing []byte) {
	spare := rapid.IntRange(0, 8).Draw(t, "spare")
	backing = make([]byte, len(b)+spare)
	copy(backing, b)
	for i := len(b); i < len(backing); i++ {
		backing[i] = 0xAA
	}
	return backing[:len(b):len(backing)], backing
}
