package gen

import (
	"strings"

	"pgregory.net/rapid"
)

// ---------- generator of valid documents as token lists

type Tok struct {
	Text string
	Kind byte // 'v' scalar value, 'k' key, '[' ']' '{' '}' ',' ':' 'w' whitespace
}

type JSONDoc struct {
	t        *rapid.T
	Toks     []Tok
	Escapes  int
	Exps     int
	Contain  int
	maxDepth int
}

func (g *JSONDoc) ws() {
	if rapid.IntRange(0, 3).Draw(g.t, "ws") == 0 {
		g.Toks = append(g.Toks, Tok{rapid.SampledFrom([]string{" ", "\t", "\n", "\r", "  ", " \n\t", "\r\n"}).Draw(g.t, "wstext"), 'w'})
	}
}

var strFrags = []string{"a", "key", "x y", "é", "中", "😀", `\"`, `\\`, `\/`, `\b`, `\f`, `\n`, `\r`, `\t`, `A`, `é`, `😀`, `\u0000`, `\\\"`, `\\\\`, "'", "{", "}", "[", "]", ",", ":", " ", "0", "true", "//", "/*",
	// raw bytes that need no escape in a JSON string: DEL, C1 controls, line separators, NBSP, BOM, U+FFFD, a 4-byte rune
	"\x7f", "\u0080", "\u009f", "\u2028", "\u2029", "\u00a0", "\ufeff", "\ufffd", "\U0010ffff", `\u007f`, `\u001f`, `\ud83d\ude00`}

func (g *JSONDoc) str() string {
	n := rapid.IntRange(0, 5).Draw(g.t, "strn")
	var sb strings.Builder
	sb.WriteByte('"')
	for i := 0; i < n; i++ {
		f := rapid.SampledFrom(strFrags).Draw(g.t, "strfrag")
		if f[0] == '\\' {
			g.Escapes++
		}
		sb.WriteString(f)
	}
	sb.WriteByte('"')
	return sb.String()
}

func (g *JSONDoc) number() string {
	var sb strings.Builder
	if rapid.Bool().Draw(g.t, "neg") {
		sb.WriteByte('-')
	}
	if rapid.IntRange(0, 3).Draw(g.t, "zero") == 0 {
		sb.WriteByte('0')
	} else {
		sb.WriteString(rapid.StringMatching(`[1-9][0-9]{0,18}`).Draw(g.t, "int"))
	}
	if rapid.Bool().Draw(g.t, "frac") {
		sb.WriteString("." + rapid.StringMatching(`[0-9]{1,8}`).Draw(g.t, "fracd"))
	}
	if rapid.IntRange(0, 2).Draw(g.t, "exp") == 0 {
		g.Exps++
		sb.WriteString(rapid.SampledFrom([]string{"e", "E"}).Draw(g.t, "e") + rapid.SampledFrom([]string{"", "+", "-"}).Draw(g.t, "esign") + rapid.StringMatching(`[0-9]{1,3}`).Draw(g.t, "expd"))
	}
	return sb.String()
}

func (g *JSONDoc) value(depth int) {
	kind := rapid.IntRange(0, 9).Draw(g.t, "kind")
	if depth >= g.maxDepth && kind >= 6 {
		kind = kind % 6
	}
	switch {
	case kind <= 1:
		g.Toks = append(g.Toks, Tok{g.str(), 'v'})
	case kind <= 3:
		g.Toks = append(g.Toks, Tok{g.number(), 'v'})
	case kind <= 5:
		g.Toks = append(g.Toks, Tok{rapid.SampledFrom([]string{"true", "false", "null"}).Draw(g.t, "lit"), 'v'})
	case kind <= 7:
		g.Contain++
		g.Toks = append(g.Toks, Tok{"[", '['})
		n := rapid.IntRange(0, 4).Draw(g.t, "alen")
		for i := 0; i < n; i++ {
			if i > 0 {
				g.ws()
				g.Toks = append(g.Toks, Tok{",", ','})
			}
			g.ws()
			g.value(depth + 1)
		}
		g.ws()
		g.Toks = append(g.Toks, Tok{"]", ']'})
	default:
		g.Contain++
		g.Toks = append(g.Toks, Tok{"{", '{'})
		n := rapid.IntRange(0, 4).Draw(g.t, "olen")
		for i := 0; i < n; i++ {
			if i > 0 {
				g.ws()
				g.Toks = append(g.Toks, Tok{",", ','})
			}
			g.ws()
			g.Toks = append(g.Toks, Tok{g.str(), 'k'})
			g.ws()
			g.Toks = append(g.Toks, Tok{":", ':'})
			g.ws()
			g.value(depth + 1)
		}
		g.ws()
		g.Toks = append(g.Toks, Tok{"}", '}'})
	}
}

func GenJSON(t *rapid.T) *JSONDoc {
	g := &JSONDoc{t: t, maxDepth: rapid.IntRange(0, 6).Draw(t, "maxDepth")}
	g.ws()
	g.value(0)
	g.ws()
	return g
}

func JoinJSON(toks []Tok) string {
	var sb strings.Builder
	for _, k := range toks {
		sb.WriteString(k.Text)
	}
	return sb.String()
}
