package gen

import (
	"bytes"
	"fmt"
	"hash/fnv"
	"strings"
	"sync"
	"testing/iotest"

	"github.com/tdewolff/parse/v2"
)

// Twin is a second, independent instance of a lexer or parser that a check advances by one call between every call on
// the instance under test and the moment the check reads that call's results (token bytes, Text, AttrVal, Values):
// results that live in storage shared between instances (a package-level scratch buffer, a pooled object handed back too
// early, a slice with spare capacity shared by two instances) are then overwritten before they are compared. It is a
// pure function of the call count, so cases stay reproducible.
type Twin struct {
	New  func() (step func() bool) // creates a fresh instance; step returns false once its input is exhausted
	step func() bool
	N    int
}

func (w *Twin) Step() {
	if w.step == nil {
		w.step = w.New()
	}
	w.N++
	if !w.step() {
		w.step = nil
	}
}

// Embedded returns a copy of src that is a sub-slice of a larger buffer: the bytes behind it are not zero and continue the
// text in a meaningful way (tail), the way a caller lexes a fragment of a document in place. Half of the inputs (chosen by
// a hash of src, so reproducibly) are returned with cap == len instead. whole is the complete buffer.
func Embedded(src []byte, tail string) (in []byte, whole []byte) {
	h := fnv.New32a()
	h.Write(src)
	if h.Sum32()&1 == 0 {
		b := append(make([]byte, 0, len(src)), src...)
		return b[:len(src):len(src)], b
	}
	whole = make([]byte, 0, len(src)+len(tail))
	whole = append(whole, src...)
	whole = append(whole, tail...)
	return whole[:len(src)], whole
}

// CheckEmbedded verifies that the bytes behind an embedded input are untouched apart from the one byte borrowed for the
// terminator (restored reports whether Restore has been called).
func CheckEmbedded(in, whole []byte, tail string, restored bool) (ok bool, what string) {
	if len(whole) == len(in) {
		return true, ""
	}
	rest := whole[len(in):]
	for i := range rest {
		if rest[i] != tail[i] && !(i == 0 && !restored && rest[i] == 0) {
			return false, string(rest)
		}
	}
	return true, ""
}

var extendSink []byte

// Extend does what a caller may do with any slice it is handed: append to it (never writing inside it). A slice that
// was handed out with spare capacity reaching into the library's own data (the rest of the input, a shared buffer) makes
// that data change; the results that follow are then no longer those of the source.
func Extend(b []byte) {
	if b != nil {
		extendSink = append(b, 0xAA, ';', '\n', '<', '"')
	}
}

// Supply hands src to the library in one of the ways a caller can (chosen by a hash of src, so reproducibly): bytes lexed
// in place with and without spare capacity (Embedded), a string, a reader that returns its last bytes together with io.EOF,
// a reader that returns one byte per call, a bytes.Buffer (which offers its bytes through Bytes()). check reports, after
// the run, whether the caller's bytes are what they were (restored: Restore has been called).
func Supply(src []byte, tail string) (input *parse.Input, how string, check func(restored bool) (bool, string)) {
	h := fnv.New32a()
	h.Write(src)
	h.Write([]byte{1})
	cp := append([]byte(nil), src...)
	none := func(bool) (bool, string) { return true, "" }
	switch h.Sum32() % 10 {
	case 8:
		// a reader the caller has read a header from (a byte order mark, a first line): the input is what is left
		r := bytes.NewReader(append([]byte("\xef\xbb\xbf#!header\n"), cp...))
		r.Seek(12, 0)
		return parse.NewInput(r), "bytes.Reader behind a header", none
	case 9:
		r := strings.NewReader("HEADER" + string(cp))
		r.Read(make([]byte, 6))
		return parse.NewInput(r), "strings.Reader behind a header", none
	case 0:
		return parse.NewInputString(string(src)), "string", none
	case 1:
		return parse.NewInput(iotest.DataErrReader(bytes.NewReader(cp))), "reader(data+EOF)", none
	case 2:
		return parse.NewInput(iotest.OneByteReader(bytes.NewReader(cp))), "reader(one byte)", none
	case 3:
		return parse.NewInput(bytes.NewBuffer(cp)), "bytes.Buffer", none
	}
	in, whole := Embedded(src, tail)
	return parse.NewInputBytes(in), "bytes", func(restored bool) (bool, string) {
		ok, rest := CheckEmbedded(in, whole, tail, restored)
		if !bytes.Equal(in, src) {
			return false, string(in) + "|" + rest
		}
		return ok, rest
	}
}

// Concurrently evaluates f(0..n-1) one after the other and then all at once, each in a goroutine of its own behind a
// barrier, rounds times over: a function of its argument alone gives the same answers both ways. It returns the index of
// the first call whose concurrent answer differs (-1 if none) with both answers. Shared scratch storage in the library
// (a package-level buffer, a cached lexer, a memo that is not synchronised) shows as a difference; so it does under
// GOMAXPROCS=1, where goroutines are still preempted.
func Concurrently(n, rounds int, f func(i int) string) (bad int, alone, together string) {
	want := make([]string, n)
	for i := range want {
		want[i] = f(i)
	}
	got := make([]string, n)
	for r := 0; r < rounds; r++ {
		var wg sync.WaitGroup
		start := make(chan struct{})
		for i := 0; i < n; i++ {
			wg.Add(1)
			go func(i int) {
				defer wg.Done()
				defer func() {
					if p := recover(); p != nil {
						got[i] = fmt.Sprintf("panic: %v", p)
					}
				}()
				<-start
				got[i] = f(i)
			}(i)
		}
		close(start)
		wg.Wait()
		for i := range want {
			if got[i] != want[i] {
				return i, want[i], got[i]
			}
		}
	}
	return -1, "", ""
}
