// Package jsgen generates ECMAScript programs from the grammar of ECMA-262 together with the fully parenthesised
// String() form that the grammar's precedence, associativity, cover-grammar and ASI rules dictate. The expectation is
// computed from the generator's own tree (bottom-up, while generating), in the format of the AST's String() methods; it
// never looks at the parser.
package jsgen

import (
	"fmt"
	"strings"

	"pgregory.net/rapid"
)

// Tok is one source token of a generated program.
type Tok struct {
	S    string
	NoLT bool // a line terminator in front of this token would change the program (restricted production)
	Semi bool // a statement-terminating semicolon that automatic semicolon insertion may supply
	// the expression that ends with this token cannot be called, indexed or tagged (a postfix update, an arrow function
	// with a block body): a ( [ or template on the next line starts a new statement
	EndsUncallable bool
	AfterDoWhile   bool // the terminator of a do-while statement: may be left out anywhere
	NeedLT         bool // a line terminator must stand in front of this token
	EndsClosed     bool // ends an expression that no binary operator can continue (an arrow function with a block body, a bare yield): + - and a regular expression on the next line start a new statement
}

// Out is a generated fragment: its tokens and the expected String() of the node.
type Out struct {
	Toks []Tok
	Str  string
}

func tk(s ...string) []Tok {
	out := make([]Tok, len(s))
	for i, x := range s {
		out[i] = Tok{S: x}
	}
	return out
}

func cat(parts ...[]Tok) []Tok {
	var out []Tok
	for _, p := range parts {
		out = append(out, p...)
	}
	return out
}

// grammar levels (ECMA-262 13.x), from loosest to tightest
const (
	LComma = iota
	LAssign
	LCond // only used as operand requirement: ConditionalExpression without assignment/arrow/yield
	LCoalesce
	LOr
	LAnd
	LBitOr
	LBitXor
	LBitAnd
	LEquality
	LRelational
	LShift
	LAdditive
	LMultiplicative
	LExponent
	LUnary
	LUpdate
	LLHS    // NewExpression without arguments / CallExpression / OptionalExpression
	LMember // MemberExpression: may be the operand of new
	LPrimary
)

// G is the generator state.
type G struct {
	T *rapid.T

	depth       int
	MaxDepth    int
	inFunc      int
	inGen       bool
	inAsync     bool
	inLoop      int
	inSwitch    int
	noIn        bool
	labels      []string
	forcePlain  bool       // the next function is neither async nor a generator
	afterStatic bool       // a class with a static block has just been generated
	wantLex     bool       // the next statement is the first of a loop or conditional body block
	fnScopes    []*fnScope // the function-level scopes that are open (bodies of functions, methods, static blocks; the top level of a script)
	lastFunc    string     // the name the last function declaration or expression got
	forceGen    bool       // the next method is a plain generator method (no static, async, get, set)
	nameSeq     int
	Declared    []string // names declared so far (unique, so that no redeclaration error can arise)
	Module      bool     // import/export declarations allowed at top level
	TopReturn   bool     // return allowed at top level (Options.Inline)
	WhileToFor  bool     // Options.WhileToFor: while loops are reported as the equivalent for loops

	// coverage counters
	Ops           map[string]int
	Kinds         map[string]int
	ASI           int
	Redundant     int
	Literals      []string       // multi-line literals generated (C05)
	Excluded      map[string]int // cases steered away from a listed known finding
	inArrowParams int
	noReturn      bool // inside a class static block or field initializer

	// re-use of lexical names in disjoint scopes: let/const names declared at the statement level of a block or function
	// body are retired when that scope is closed and may then be declared again with let/const in any scope that is open
	// (a sibling block, an enclosing block after the inner one, another function): legal, and it exercises scope entry/exit
	lexScopes [][]string
	retired   []string
	forceName string // the next Binding is this identifier
	Reused    int
}

func New(t *rapid.T) *G {
	return &G{T: t, MaxDepth: 4, Ops: map[string]int{}, Kinds: map[string]int{}, Excluded: map[string]int{}}
}

func (g *G) intn(label string, n int) int { return rapid.IntRange(0, n-1).Draw(g.T, label) }
func (g *G) chance(label string, oneIn int) bool {
	return rapid.IntRange(0, oneIn-1).Draw(g.T, label) == 0
}
func (g *G) pick(label string, xs []string) string { return rapid.SampledFrom(xs).Draw(g.T, label) }

// ("from" is left out: behind "export {a}" on the previous line it continues the export declaration)
var freeNames = []string{"a", "b", "c", "x", "y", "foo", "$", "_", "of", "get", "set", "as", "é", "a1"}

func (g *G) newName() string {
	g.nameSeq++
	n := fmt.Sprintf("v%d", g.nameSeq)
	g.Declared = append(g.Declared, n)
	return n
}

// ref: a reference to a declared or free name
func (g *G) ref() string {
	if len(g.Declared) > 0 && g.chance("declref", 2) {
		return rapid.SampledFrom(g.Declared).Draw(g.T, "declared")
	}
	return g.pick("free", freeNames)
}

func group(o Out) Out {
	return Out{cat(tk("("), o.Toks, tk(")")), "(" + o.Str + ")"}
}

// Expr generates an expression that may stand where the grammar requires the given level: if the drawn node binds
// looser it is parenthesised (necessary parentheses); with a small probability it is parenthesised anyway (redundant).
func (g *G) Expr(level int) Out {
	o, l := g.node(level)
	if l < level {
		return group(o)
	}
	if g.chance("redundant", 12) {
		g.Redundant++
		return group(o)
	}
	return o
}

var binOps = []struct {
	level int
	ops   []string
}{
	{LOr, []string{"||"}}, {LAnd, []string{"&&"}}, {LBitOr, []string{"|"}}, {LBitXor, []string{"^"}}, {LBitAnd, []string{"&"}},
	{LEquality, []string{"==", "!=", "===", "!=="}}, {LRelational, []string{"<", ">", "<=", ">=", "instanceof", "in"}},
	{LShift, []string{"<<", ">>", ">>>"}}, {LAdditive, []string{"+", "-"}}, {LMultiplicative, []string{"*", "/", "%"}},
}

var assignOps = []string{"=", "+=", "-=", "*=", "/=", "%=", "**=", "<<=", ">>=", ">>>=", "&=", "|=", "^=", "&&=", "||=", "??="}

func isWordOp(op string) bool { return op == "in" || op == "instanceof" }

func binStr(x Out, op string, y Out) string {
	if isWordOp(op) {
		return "(" + x.Str + " " + op + " " + y.Str + ")"
	}
	return "(" + x.Str + op + y.Str + ")"
}

// node draws one expression node and returns it with the grammar level at which it stands
func (g *G) node(level int) (Out, int) {
	g.depth++
	defer func() { g.depth-- }()
	if g.depth > g.MaxDepth {
		return g.primary(true), LPrimary
	}
	// weights: make tight levels as likely as loose ones whatever the request
	switch k := g.intn("nodekind", 20); {
	case k == 0:
		g.Kinds["comma"]++
		n := 2 + g.intn("ncomma", 2)
		var toks []Tok
		strs := []string{}
		for i := 0; i < n; i++ {
			e := g.Expr(LAssign)
			if i > 0 {
				toks = append(toks, Tok{S: ","})
			}
			toks = append(toks, e.Toks...)
			strs = append(strs, e.Str)
		}
		return Out{toks, "(" + strings.Join(strs, ",") + ")"}, LComma
	case k == 1:
		g.Kinds["assign"]++
		op := g.pick("assignop", assignOps)
		g.Ops[op]++
		target := g.simpleTarget()
		if op == "=" && g.chance("pattern", 4) {
			target = g.assignPattern()
		}
		v := g.Expr(LAssign)
		return Out{cat(target.Toks, tk(op), v.Toks), "(" + target.Str + op + v.Str + ")"}, LAssign
	case k == 2:
		g.Kinds["cond"]++
		c := g.Expr(LCoalesce)
		saved := g.noIn
		g.noIn = false // the middle operand is +In
		x := g.Expr(LAssign)
		g.noIn = saved
		y := g.Expr(LAssign)
		return Out{cat(c.Toks, tk("?"), x.Toks, tk(":"), y.Toks), "(" + c.Str + " ? " + x.Str + " : " + y.Str + ")"}, LAssign
	case k == 3:
		g.Kinds["arrow"]++
		return g.arrow(), LAssign
	case k == 4 && g.inGen:
		g.Kinds["yield"]++
		switch g.intn("yieldform", 3) {
		case 0:
			return Out{[]Tok{{S: "yield", EndsClosed: true}}, "(yield)"}, LAssign
		case 1:
			e := g.Expr(LAssign)
			return Out{cat(tk("yield"), noLT(e.Toks)), "(yield " + e.Str + ")"}, LAssign
		}
		e := g.Expr(LAssign)
		return Out{cat(tk("yield"), []Tok{{S: "*", NoLT: true}}, e.Toks), "(yield* " + e.Str + ")"}, LAssign
	case k == 5:
		g.Kinds["coalesce"]++
		g.Ops["??"]++
		// CoalesceExpression: CoalesceExpressionHead ?? BitwiseORExpression, head = coalesce or BitwiseOR
		x := g.Expr(LBitOr)
		n := 1 + g.intn("ncoalesce", 2)
		for i := 0; i < n; i++ {
			y := g.Expr(LBitOr)
			x = Out{cat(x.Toks, tk("??"), y.Toks), "(" + x.Str + "??" + y.Str + ")"}
		}
		return x, LCoalesce
	case k <= 10:
		g.Kinds["binary"]++
		b := binOps[g.intn("binlevel", len(binOps))]
		op := g.pick("binop", b.ops)
		if op == "in" && g.noIn {
			op = "instanceof"
		}
		g.Ops[op]++
		x := g.Expr(b.level) // left-associative: the left operand stands at the same level
		y := g.Expr(b.level + 1)
		return Out{cat(x.Toks, tk(op), y.Toks), binStr(x, op, y)}, b.level
	case k == 11:
		g.Kinds["exponent"]++
		g.Ops["**"]++
		x := g.Expr(LUpdate) // the base may not be a unary expression
		y := g.Expr(LExponent)
		return Out{cat(x.Toks, tk("**"), y.Toks), "(" + x.Str + "**" + y.Str + ")"}, LExponent
	case k == 12:
		g.Kinds["unary"]++
		ops := []string{"!", "~", "+", "-", "typeof", "void", "delete"}
		if g.inAsync {
			ops = append(ops, "await", "await")
		}
		op := g.pick("unop", ops)
		g.Ops["u"+op]++
		var x Out
		if op == "delete" {
			x = g.memberTarget()
		} else {
			x = g.Expr(LUnary)
		}
		if len(op) > 1 {
			return Out{cat(tk(op), x.Toks), "(" + op + " " + x.Str + ")"}, LUnary
		}
		return Out{cat(tk(op), x.Toks), "(" + op + x.Str + ")"}, LUnary
	case k == 13:
		g.Kinds["update"]++
		op := g.pick("updop", []string{"++", "--"})
		g.Ops[op]++
		x := g.simpleTarget()
		if g.chance("prefix", 2) {
			// UpdateExpression: ++ UnaryExpression (it may be the base of **)
			return Out{cat(tk(op), x.Toks), "(" + op + x.Str + ")"}, LUpdate
		}
		return Out{cat(x.Toks, []Tok{{S: op, NoLT: true, EndsUncallable: true}}), "(" + x.Str + op + ")"}, LUpdate
	case k <= 16:
		return g.chain()
	}
	return g.primary(false), LPrimary
}

func noLT(toks []Tok) []Tok {
	out := append([]Tok(nil), toks...)
	if len(out) > 0 {
		out[0].NoLT = true
	}
	return out
}

// simpleTarget: a simple assignment target: identifier, member or index expression (optionally parenthesised identifier)
func (g *G) simpleTarget() Out {
	switch g.intn("target", 4) {
	case 0:
		return g.memberTarget()
	case 1:
		n := g.ref()
		if g.chance("parenid", 4) {
			return Out{tk("(", n, ")"), "(" + n + ")"}
		}
		return Out{tk(n), n}
	}
	n := g.ref()
	return Out{tk(n), n}
}

func (g *G) memberTarget() Out {
	o := g.ref()
	if g.chance("index", 2) {
		saved := g.noIn
		g.noIn = false
		e := g.Expr(LComma)
		g.noIn = saved
		return Out{cat(tk(o, "["), e.Toks, tk("]")), "(" + o + "[" + e.Str + "])"}
	}
	p := g.pick("prop", []string{"p", "q", "if", "class", "in", "$1"})
	return Out{tk(o, ".", p), "(" + o + "." + p + ")"}
}

// assignPattern: an array or object literal used as destructuring assignment target (cover grammar)
func (g *G) assignPattern() Out {
	ref := g.ref
	if g.chance("objpattern", 2) {
		a, b := ref(), ref()
		// ({a, p: b} = v) must be parenthesised at statement start; the expression statement generator takes care of "{"
		return Out{tk("{", a, ",", "p", ":", b, "}"), "{" + a + ", p: " + b + "}"}
	}
	a, b := ref(), ref()
	if g.chance("rest", 3) {
		return Out{tk("[", a, ",", "...", b, "]"), "[" + a + ", ..." + b + "]"}
	}
	return Out{tk("[", a, ",", b, "]"), "[" + a + ", " + b + "]"}
}

func (g *G) args() Out {
	n := g.intn("nargs", 4)
	toks := tk("(")
	strs := []string{}
	saved := g.noIn
	g.noIn = false
	for i := 0; i < n; i++ {
		if i > 0 {
			toks = append(toks, Tok{S: ","})
		}
		e := g.Expr(LAssign)
		if g.chance("spread", 6) {
			toks = append(toks, Tok{S: "..."})
			e.Str = "..." + e.Str
		}
		toks = append(toks, e.Toks...)
		strs = append(strs, e.Str)
	}
	g.noIn = saved
	if n > 0 && g.chance("trailingcomma", 8) {
		toks = append(toks, Tok{S: ","})
	}
	return Out{append(toks, Tok{S: ")"}), "(" + strings.Join(strs, ", ") + ")"}
}

// chain: a left-hand-side expression: a head followed by member/call/template/optional suffixes, or a new expression
func (g *G) chain() (Out, int) {
	g.Kinds["chain"]++
	var cur Out
	level := LMember
	switch g.intn("chainhead", 9) {
	case 8:
		// a call of a function that is named async (an identifier here: neither => nor function follows)
		a := g.args()
		cur = Out{cat(tk("async"), a.Toks), "(async" + a.Str + ")"}
		level = LLHS
		g.Kinds["async-call"]++
	case 0:
		// new MemberExpression Arguments
		callee := g.newCallee()
		a := g.args()
		cur = Out{cat(tk("new"), callee.Toks, a.Toks), "(new " + callee.Str + a.Str + ")"}
		if a.Str == "()" {
			cur.Str = "(new " + callee.Str + ")" // new X() and new X are the same node
		}
		g.Kinds["new-args"]++
	case 1:
		// new NewExpression (no arguments): cannot take suffixes
		callee := g.newCallee()
		g.Kinds["new-noargs"]++
		return Out{cat(tk("new"), callee.Toks), "(new " + callee.Str + ")"}, LLHS
	case 2:
		if g.inFunc > 0 && g.chance("newtarget", 2) {
			cur = Out{tk("new", ".", "target"), "(new.target)"}
		} else if g.Module {
			cur = Out{tk("import", ".", "meta"), "(import.meta)"}
		} else {
			cur = Out{tk("this"), "this"}
		}
	case 3:
		e := g.Expr(LAssign)
		cur = Out{cat(tk("import", "("), e.Toks, tk(")")), "(import(" + e.Str + "))"}
		level = LLHS
		g.Kinds["import-call"]++
	default:
		cur = g.Expr(LPrimary)
	}
	optional := false
	for n := g.intn("nsuffix", 4); n > 0; n-- {
		switch g.intn("suffix", 8) {
		case 0, 1:
			p := g.pick("prop", []string{"p", "q", "if", "class", "then", "#priv"})
			if p == "#priv" {
				p = "q"
			}
			cur = Out{cat(cur.Toks, tk(".", p)), "(" + cur.Str + "." + p + ")"}
		case 2:
			saved := g.noIn
			g.noIn = false
			e := g.Expr(LComma)
			g.noIn = saved
			cur = Out{cat(cur.Toks, tk("["), e.Toks, tk("]")), "(" + cur.Str + "[" + e.Str + "])"}
		case 3, 4:
			a := g.args()
			cur = Out{cat(cur.Toks, a.Toks), "(" + cur.Str + a.Str + ")"}
			level = LLHS
			g.Kinds["call"]++
		case 5:
			if optional {
				continue // a template in an optional chain is a syntax error
			}
			tpl := g.template()
			cur = Out{cat(cur.Toks, tpl.Toks), cur.Str + tpl.Str}
			g.Kinds["tagged"]++
		case 6:
			optional = true
			level = LLHS
			g.Kinds["optional"]++
			switch g.intn("optkind", 3) {
			case 0:
				p := g.pick("prop", []string{"p", "q", "class"})
				cur = Out{cat(cur.Toks, tk("?.", p)), "(" + cur.Str + "?." + p + ")"}
			case 1:
				e := g.Expr(LComma)
				cur = Out{cat(cur.Toks, tk("?.", "["), e.Toks, tk("]")), "(" + cur.Str + "?.[" + e.Str + "])"}
			case 2:
				a := g.args()
				cur = Out{cat(cur.Toks, tk("?."), a.Toks), "(" + cur.Str + "?." + a.Str + ")"}
			}
		}
	}
	return cur, level
}

// newCallee: the operand of new: a MemberExpression without call (calls must be parenthesised)
func (g *G) newCallee() Out {
	cur := g.Expr(LPrimary)
	for n := g.intn("ncalleesuffix", 3); n > 0; n-- {
		if g.chance("idx", 3) {
			e := g.Expr(LComma)
			cur = Out{cat(cur.Toks, tk("["), e.Toks, tk("]")), "(" + cur.Str + "[" + e.Str + "])"}
		} else {
			p := g.pick("prop", []string{"p", "q", "new"})
			cur = Out{cat(cur.Toks, tk(".", p)), "(" + cur.Str + "." + p + ")"}
		}
	}
	return cur
}

var numbers = []string{"0", "1", "42", "1.5", ".5", "5.", "1e3", "0x1F", "0b101", "0o17", "10n", "1_000"}
var strings_ = []string{`"s"`, `'t'`, `"a\"b"`, `'it\'s'`, `"\n"`, `""`, `"use strict"`, `"é"`}

func (g *G) template() Out {
	n := g.intn("ntpl", 3)
	if n == 0 {
		s := g.pick("tplraw", []string{"``", "`t`", "`a b`", "`\\``", "`$`", "`{}`", "`line1\nline2`"})
		if strings.Contains(s, "\n") {
			g.Literals = append(g.Literals, s)
		}
		return Out{tk(s), s}
	}
	var toks []Tok
	var sb strings.Builder
	saved := g.noIn
	g.noIn = false
	for i := 0; i < n; i++ {
		raw := g.pick("tplpart", []string{"", "a", " b ", "$", "\\n"})
		head := "}" + raw + "${"
		if i == 0 {
			head = "`" + raw + "${"
		}
		e := g.Expr(LComma)
		toks = append(toks, Tok{S: head})
		toks = append(toks, e.Toks...)
		sb.WriteString(head + e.Str)
	}
	g.noIn = saved
	tail := "}" + g.pick("tpltail", []string{"", "z", " "}) + "`"
	toks = append(toks, Tok{S: tail})
	return Out{toks, sb.String() + tail}
}

func (g *G) primary(leaf bool) Out {
	k := g.intn("primary", 14)
	if leaf && k >= 7 {
		k = k % 7
	}
	switch k {
	case 0, 1, 2:
		n := g.ref()
		return Out{tk(n), n}
	case 3:
		n := g.pick("number", numbers)
		return Out{tk(n), n}
	case 4:
		s := g.pick("string", strings_)
		return Out{tk(s), s}
	case 5:
		w := g.pick("keywordlit", []string{"this", "null", "true", "false"})
		return Out{tk(w), w}
	case 6:
		r := g.pick("regexp", []string{"/re/", "/a+b/gi", "/[/]/", "/\\//u", "/=x/"})
		return Out{tk(r), r}
	case 7:
		return g.template()
	case 8:
		return g.array()
	case 9:
		return g.object()
	case 10:
		return g.function(true)
	case 11:
		return g.class(true)
	case 12:
		saved := g.noIn
		g.noIn = false
		e := g.Expr(LComma)
		g.noIn = saved
		return group(e)
	}
	n := g.ref()
	return Out{tk(n), n}
}

func (g *G) array() Out {
	g.Kinds["array"]++
	n := g.intn("nelem", 4)
	toks := tk("[")
	var parts []string
	saved := g.noIn
	g.noIn = false
	for i := 0; i < n; i++ {
		if i > 0 {
			toks = append(toks, Tok{S: ","})
		}
		if g.chance("hole", 8) && i < n-1 {
			parts = append(parts, "")
			continue
		}
		e := g.Expr(LAssign)
		if g.chance("spread", 6) {
			toks = append(toks, Tok{S: "..."})
			e.Str = "..." + e.Str
		}
		toks = append(toks, e.Toks...)
		parts = append(parts, e.Str)
	}
	g.noIn = saved
	if n > 0 && g.chance("trailingcomma", 8) {
		toks = append(toks, Tok{S: ","})
	}
	return Out{append(toks, Tok{S: "]"}), "[" + strings.Join(parts, ", ") + "]"}
}

func (g *G) propName() (toks []Tok, str string, ident string) {
	switch g.intn("propname", 6) {
	case 0:
		// a string key that is an identifier name or a canonical number is reported without its quotes
		s := g.pick("strkey", []string{`"k"`, `'a-b'`, `"1x"`, `"12"`, `"if"`})
		str := s
		switch s {
		case `"k"`, `"12"`, `"if"`:
			str = s[1 : len(s)-1]
		}
		return tk(s), str, ""
	case 1:
		n := g.pick("numkey", []string{"0", "12"})
		return tk(n), n, ""
	case 2:
		saved := g.noIn
		g.noIn = false
		e := g.Expr(LAssign)
		g.noIn = saved
		s := e.Str
		if s[0] == '(' {
			s = s[1 : len(s)-1]
		}
		return cat(tk("["), e.Toks, tk("]")), "[" + s + "]", ""
	}
	n := g.pick("identkey", []string{"k", "m", "if", "get", "set", "static", "async", "class", "x1"})
	return tk(n), n, n
}

func (g *G) object() Out {
	g.Kinds["object"]++
	n := g.intn("nprop", 4)
	toks := tk("{")
	var parts []string
	saved := g.noIn
	g.noIn = false
	for i := 0; i < n; i++ {
		if i > 0 {
			toks = append(toks, Tok{S: ","})
		}
		switch g.intn("propkind", 6) {
		case 0:
			r := g.ref()
			toks = append(toks, Tok{S: r})
			parts = append(parts, r)
		case 1:
			e := g.Expr(LAssign)
			toks = append(toks, Tok{S: "..."})
			toks = append(toks, e.Toks...)
			parts = append(parts, "..."+e.Str)
		case 2:
			m := g.method(false)
			toks = append(toks, m.Toks...)
			parts = append(parts, m.Str)
		default:
			kt, ks, ident := g.propName()
			e := g.Expr(LAssign)
			toks = append(toks, cat(kt, tk(":"), e.Toks)...)
			if ident != "" && e.Str == ident {
				parts = append(parts, e.Str) // String() writes {k: k} like the shorthand {k}
			} else {
				parts = append(parts, ks+": "+e.Str)
			}
		}
	}
	g.noIn = saved
	if n > 0 && g.chance("trailingcomma", 8) {
		toks = append(toks, Tok{S: ","})
	}
	return Out{append(toks, Tok{S: "}"}), "{" + strings.Join(parts, ", ") + "}"}
}

// ---------- bindings and patterns

// Binding generates a binding identifier or pattern; every bound name is fresh
func (g *G) Binding(allowPattern bool) Out {
	if g.forceName != "" {
		n := g.forceName
		g.forceName = ""
		return Out{tk(n), n}
	}
	if !allowPattern || g.depth > g.MaxDepth || !g.chance("pattern", 4) {
		n := g.newName()
		return Out{tk(n), n}
	}
	g.depth++
	defer func() { g.depth-- }()
	g.Kinds["pattern"]++
	if g.chance("objpat", 2) {
		n := g.intn("nobjpat", 3)
		toks := tk("{")
		var parts []string
		for i := 0; i < n; i++ {
			if i > 0 {
				toks = append(toks, Tok{S: ","})
			}
			if g.chance("shorthand", 2) {
				nm := g.newName()
				toks = append(toks, Tok{S: nm})
				s := " Binding(" + nm
				if g.chance("default", 3) {
					d := g.Expr(LAssign)
					toks = append(toks, cat(tk("="), d.Toks)...)
					s += " = " + d.Str
				}
				parts = append(parts, s+")")
			} else {
				kt, ks, _ := g.propName()
				el := g.BindingElement()
				toks = append(toks, cat(kt, tk(":"), el.Toks)...)
				parts = append(parts, " "+ks+": "+el.Str)
			}
		}
		if g.chance("rest", 4) {
			if n > 0 {
				toks = append(toks, Tok{S: ","})
			}
			nm := g.newName()
			toks = append(toks, tk("...", nm)...)
			parts = append(parts, " ...Binding("+nm+")")
		}
		return Out{append(toks, Tok{S: "}"}), "{" + strings.Join(parts, ",") + " }"}
	}
	n := g.intn("narrpat", 3)
	toks := tk("[")
	var parts []string
	for i := 0; i < n; i++ {
		if i > 0 {
			toks = append(toks, Tok{S: ","})
		}
		if g.chance("elision", 6) && i < n-1 {
			parts = append(parts, " Binding()")
			continue
		}
		el := g.BindingElement()
		toks = append(toks, el.Toks...)
		parts = append(parts, " "+el.Str)
	}
	if g.chance("rest", 4) {
		if n > 0 {
			toks = append(toks, Tok{S: ","})
		}
		r := g.Binding(true)
		toks = append(toks, cat(tk("..."), r.Toks)...)
		parts = append(parts, " ...Binding("+r.Str+")")
	}
	return Out{append(toks, Tok{S: "]"}), "[" + strings.Join(parts, ",") + " ]"}
}

// BindingElement: binding with optional initializer, printed as Binding(x = init)
func (g *G) BindingElement() Out {
	b := g.Binding(true)
	if g.chance("default", 4) {
		saved := g.noIn
		g.noIn = false
		d := g.Expr(LAssign)
		g.noIn = saved
		return Out{cat(b.Toks, tk("="), d.Toks), "Binding(" + b.Str + " = " + d.Str + ")"}
	}
	return Out{b.Toks, "Binding(" + b.Str + ")"}
}

func (g *G) params() Out {
	n := g.intn("nparams", 4)
	toks := tk("(")
	var parts []string
	for i := 0; i < n; i++ {
		if i > 0 {
			toks = append(toks, Tok{S: ","})
		}
		el := g.BindingElement()
		toks = append(toks, el.Toks...)
		parts = append(parts, el.Str)
	}
	if g.chance("restparam", 5) {
		if n > 0 {
			toks = append(toks, Tok{S: ","})
		}
		r := g.Binding(true)
		toks = append(toks, cat(tk("..."), r.Toks)...)
		parts = append(parts, "...Binding("+r.Str+")")
	}
	return Out{append(toks, Tok{S: ")"}), "Params(" + strings.Join(parts, ", ") + ")"}
}

type fnCtx struct {
	inFunc, inLoop, inSwitch       int
	inGen, inAsync, noIn, noReturn bool
	labels                         []string
}

// fnScope: a function-level scope: var and function declarations of one name may stand side by side in it
type fnScope struct {
	lexDepth int      // len(lexScopes) of its statement list
	funcs    []string // names of the function declarations directly in that list
}

func (g *G) enterFunc(gen, async bool) fnCtx {
	// (inArrowParams deliberately stays set inside nested functions of a parameter default: the parser's speculative
	// arrow-head parse covers the whole parenthesised text)
	c := fnCtx{g.inFunc, g.inLoop, g.inSwitch, g.inGen, g.inAsync, g.noIn, g.noReturn, g.labels}
	g.inFunc++
	g.inLoop, g.inSwitch, g.inGen, g.inAsync, g.noIn, g.noReturn, g.labels = 0, 0, gen, async, false, false, nil
	return c
}

func (g *G) leaveFunc(c fnCtx) {
	g.inFunc, g.inLoop, g.inSwitch, g.inGen, g.inAsync, g.noIn, g.noReturn, g.labels = c.inFunc, c.inLoop, c.inSwitch, c.inGen, c.inAsync, c.noIn, c.noReturn, c.labels
}

// body: { statements } of a function, printed as Stmt({ ... })
func (g *G) body() Out {
	toks := tk("{")
	var sb strings.Builder
	sb.WriteString("Stmt({")
	n := g.intn("nbody", 3)
	if g.depth > g.MaxDepth {
		n = 0
	}
	g.lexScopes = append(g.lexScopes, nil)
	g.fnScopes = append(g.fnScopes, &fnScope{lexDepth: len(g.lexScopes)})
	for i := 0; i < n; i++ {
		s := g.Stmt()
		toks = append(toks, s.Toks...)
		sb.WriteString(" " + s.Str)
	}
	g.fnScopes = g.fnScopes[:len(g.fnScopes)-1]
	g.retired = append(g.retired, g.lexScopes[len(g.lexScopes)-1]...)
	g.lexScopes = g.lexScopes[:len(g.lexScopes)-1]
	return Out{append(toks, Tok{S: "}"}), sb.String() + " })"}
}

func (g *G) function(expr bool) Out {
	g.Kinds["function"]++
	g.depth++
	defer func() { g.depth-- }()
	async, gen := g.chance("async", 3), g.chance("generator", 3)
	if g.forcePlain {
		async, gen, g.forcePlain = false, false, false
	}
	var toks []Tok
	s := "Decl("
	if async {
		toks = append(toks, Tok{S: "async"})
		s += "async "
	}
	toks = append(toks, Tok{S: "function", NoLT: async})
	s += "function"
	if gen {
		toks = append(toks, Tok{S: "*"})
		s += "*"
	}
	g.lastFunc = ""
	if !expr || g.chance("named", 2) {
		n := g.newName()
		g.lastFunc = n
		toks = append(toks, Tok{S: n})
		s += " " + n
	}
	c := g.enterFunc(gen, async)
	// parameters belong to the function: yield/await expressions are not generated inside them
	g.inGen, g.inAsync = false, false
	p := g.params()
	g.inGen, g.inAsync = gen, async
	b := g.body()
	g.leaveFunc(c)
	return Out{cat(toks, p.Toks, b.Toks), s + " " + p.Str + " " + b.Str + ")"}
}

func (g *G) arrow() Out {
	g.depth++
	defer func() { g.depth-- }()
	async := g.chance("async", 4)
	var toks []Tok
	s := "("
	if async {
		toks = append(toks, Tok{S: "async"})
		s += "async "
	}
	c := g.enterFunc(false, async)
	// (new.target is inherited from the surrounding function: the chain generator only emits it when inFunc > 1 or so;
	// keeping inFunc incremented makes return legal in the arrow body, which it is)
	g.inAsync = false
	var p Out
	if g.chance("bareparam", 3) {
		n := g.newName()
		p = Out{[]Tok{{S: n, NoLT: async}}, "Params(Binding(" + n + "))"}
	} else {
		g.inArrowParams++
		p = g.params()
		g.inArrowParams--
		if async {
			p.Toks = noLT(p.Toks)
		}
	}
	g.inAsync = async
	toks = append(toks, p.Toks...)
	toks = append(toks, Tok{S: "=>", NoLT: true})
	var bodyStr string
	if g.chance("blockbody", 2) {
		b := g.body()
		b.Toks[len(b.Toks)-1].EndsUncallable = true
		b.Toks[len(b.Toks)-1].EndsClosed = true
		toks = append(toks, b.Toks...)
		bodyStr = b.Str
	} else {
		g.noIn = c.noIn
		e := g.Expr(LAssign)
		if e.Toks[0].S == "{" {
			e = group(e)
		}
		toks = append(toks, e.Toks...)
		bodyStr = "Stmt({ Stmt(return " + e.Str + ") })"
	}
	g.leaveFunc(c)
	return Out{toks, s + p.Str + " => " + bodyStr + ")"}
}

// method: a method definition of an object literal or class
func (g *G) method(class bool) Out {
	g.Kinds["method"]++
	g.depth++
	defer func() { g.depth-- }()
	var toks []Tok
	var mods []string
	forced := g.forceGen
	g.forceGen = false
	if !forced && class && g.chance("static", 4) {
		toks = append(toks, Tok{S: "static"})
		mods = append(mods, "static")
	}
	async, gen := false, false
	kind := g.intn("methodkind", 6)
	if forced {
		kind = 1
	}
	switch kind {
	case 0:
		async = true
		toks = append(toks, Tok{S: "async"})
		mods = append(mods, "async")
		if g.chance("asyncgen", 3) {
			gen = true
			toks = append(toks, Tok{S: "*", NoLT: true})
			mods = append(mods, "*")
		}
	case 1:
		gen = true
		toks = append(toks, Tok{S: "*"})
		mods = append(mods, "*")
	case 2:
		toks = append(toks, Tok{S: "get"})
		mods = append(mods, "get")
	case 3:
		toks = append(toks, Tok{S: "set"})
		mods = append(mods, "set")
	}
	var kt []Tok
	var ks string
	if class && g.chance("private", 5) {
		ks = "#" + g.pick("privname", []string{"p", "q", "secret"})
		kt = tk(ks)
	} else {
		kt, ks, _ = g.propName()
		if class && (ks == "constructor" || ks == "prototype") {
			ks, kt = "m", tk("m")
		}
	}
	if async && len(kt) > 0 {
		kt = noLT(kt)
	}
	toks = append(toks, kt...)
	c := g.enterFunc(gen, async)
	g.inGen, g.inAsync = false, false
	var p Out
	switch kind {
	case 2:
		p = Out{tk("(", ")"), "Params()"}
	case 3:
		el := g.BindingElement()
		p = Out{cat(tk("("), el.Toks, tk(")")), "Params(" + el.Str + ")"}
	default:
		p = g.params()
	}
	g.inGen, g.inAsync = gen, async
	b := g.body()
	g.leaveFunc(c)
	mods = append(mods, ks, p.Str, b.Str)
	return Out{cat(toks, p.Toks, b.Toks), "Method(" + strings.Join(mods, " ") + ")"}
}

func (g *G) class(expr bool) Out {
	g.Kinds["class"]++
	g.depth++
	defer func() { g.depth-- }()
	toks := tk("class")
	s := "Decl(class"
	if !expr || g.chance("named", 2) {
		n := g.newName()
		toks = append(toks, Tok{S: n})
		s += " " + n
	}
	if g.chance("extends", 3) {
		h, _ := g.chainNoTemplateStart()
		toks = append(toks, cat(tk("extends"), h.Toks)...)
		s += " extends " + h.Str
	}
	toks = append(toks, Tok{S: "{"})
	n := g.intn("nmember", 4)
	if g.depth > g.MaxDepth {
		n = 0
	}
	for i := 0; i < n; i++ {
		switch g.intn("member", 7) {
		case 6:
			// a field named get, set or async, ended by a line terminator in front of a generator method
			g.Kinds["field-before-generator"]++
			f := ""
			if g.chance("static", 3) {
				toks = append(toks, Tok{S: "static"})
				f = "static "
			}
			kw := g.pick("fieldkw", []string{"get", "set", "async"})
			g.forceGen = true
			m := g.method(true)
			m.Toks[0].NeedLT = true
			toks = append(toks, cat(tk(kw), m.Toks)...)
			s += " Field(" + f + kw + ") " + m.Str
		case 0, 1, 2:
			m := g.method(true)
			toks = append(toks, m.Toks...)
			s += " " + m.Str
		case 3:
			c := g.enterFunc(false, false)
			g.inFunc, g.noReturn = 0, true // no return statement (nor new.target) in a static initialization block
			b := g.body()
			g.leaveFunc(c)
			toks = append(toks, cat(tk("static"), b.Toks)...)
			s += " Static(" + b.Str + ")"
			g.Kinds["static-block"]++
			g.afterStatic = true
		default:
			g.Kinds["field"]++
			f := "Field("
			if g.chance("static", 3) {
				toks = append(toks, Tok{S: "static"})
				f += "static "
			}
			var kt []Tok
			var ks string
			if g.chance("private", 3) {
				ks = "#" + g.pick("privname", []string{"f", "g"})
				kt = tk(ks)
			} else {
				kt, ks, _ = g.propName()
				if ks == "constructor" || ks == "prototype" {
					ks, kt = "fld", tk("fld")
				}
				if ks == "static" || ks == "get" || ks == "set" || ks == "async" {
					// a field named like a modifier: what follows is = or ; (the field's explicit terminator)
					g.Kinds["field-named-like-modifier"]++
				}
			}
			toks = append(toks, kt...)
			f += ks
			if g.chance("init", 2) {
				c := g.enterFunc(false, false)
				g.inFunc, g.noReturn = 0, true
				e := g.Expr(LAssign)
				g.leaveFunc(c)
				toks = append(toks, cat(tk("="), e.Toks)...)
				f += " = " + e.Str
			}
			toks = append(toks, Tok{S: ";"})
			s += " " + f + ")"
		}
		if g.chance("emptymember", 8) {
			toks = append(toks, Tok{S: ";"})
		}
	}
	return Out{append(toks, Tok{S: "}"}), s + ")"}
}

// chainNoTemplateStart: a left-hand-side expression for the extends clause
func (g *G) chainNoTemplateStart() (Out, int) {
	n := g.ref()
	if g.chance("member", 3) {
		return Out{tk(n, ".", "Base"), "(" + n + ".Base)"}, LMember
	}
	if g.chance("call", 4) {
		return Out{tk(n, "(", ")"), "(" + n + "())"}, LLHS
	}
	return Out{tk(n), n}, LPrimary
}

// ---------- statements

func semi() []Tok { return []Tok{{S: ";", Semi: true}} }

func exprStmtStr(val string) string {
	if val[0] == '(' && val[len(val)-1] == ')' {
		return "Stmt" + val
	}
	return "Stmt(" + val + ")"
}

func (g *G) exprStmt() Out {
	e := g.Expr(LComma)
	switch e.Toks[0].S {
	case "{", "function", "class", "let", "async":
		// an expression statement may not start with these tokens
		e = group(e)
	}
	return Out{cat(e.Toks, semi()), exprStmtStr(e.Str)}
}

func (g *G) varDecl(kind string, needInit, allowIn bool) Out {
	n := 1 + g.intn("ndeclarators", 2)
	toks := tk(kind)
	s := "Decl(" + kind
	saved := g.noIn
	g.noIn = !allowIn
	for i := 0; i < n; i++ {
		if i > 0 {
			toks = append(toks, Tok{S: ","})
		}
		b := g.Binding(true)
		pattern := b.Toks[0].S == "[" || b.Toks[0].S == "{"
		if needInit || pattern || kind == "const" || g.chance("init", 2) {
			e := g.Expr(LAssign)
			toks = append(toks, cat(b.Toks, tk("="), e.Toks)...)
			s += " Binding(" + b.Str + " = " + e.Str + ")"
		} else {
			toks = append(toks, b.Toks...)
			s += " Binding(" + b.Str + ")"
		}
	}
	g.noIn = saved
	return Out{toks, s + ")"}
}

func (g *G) block() Out {
	toks := tk("{")
	var sb strings.Builder
	sb.WriteString("Stmt({")
	n := g.intn("nblock", 3)
	if g.depth > g.MaxDepth {
		n = 0
	}
	g.lexScopes = append(g.lexScopes, nil)
	for i := 0; i < n; i++ {
		s := g.Stmt()
		toks = append(toks, s.Toks...)
		sb.WriteString(" " + s.Str)
	}
	g.retired = append(g.retired, g.lexScopes[len(g.lexScopes)-1]...)
	g.lexScopes = g.lexScopes[:len(g.lexScopes)-1]
	return Out{append(toks, Tok{S: "}"}), sb.String() + " })"}
}

func asBlock(o Out) string {
	if strings.HasPrefix(o.Str, "Stmt({ ") { // a block (an object literal statement prints as "Stmt({a: 1})", without the space)
		return o.Str
	}
	return "Stmt({ " + o.Str + " })"
}

// forBody: the body of a for statement is reported as a block; an empty statement as the empty block
func forBody(o Out) string {
	if o.Str == "Stmt()" {
		return "Stmt({ })"
	}
	return asBlock(o)
}

// Stmt: any statement or declaration
func (g *G) Stmt() Out {
	g.depth++
	defer func() { g.depth-- }()
	if g.afterStatic {
		// behind a class with a static block (which has an await and yield context of its own) the context of the
		// function goes on: an await or yield expression statement half of the time
		g.afterStatic = false
		if (g.inAsync || g.inGen) && g.chance("afterstatic", 2) {
			op := "yield"
			if g.inAsync && (!g.inGen || g.chance("awaitnotyield", 2)) {
				op = "await"
			}
			g.Kinds["await-or-yield-behind-static-block"]++
			r := g.ref()
			return Out{cat(tk(op), []Tok{{S: r, NoLT: op == "yield"}}, semi()), "Stmt(" + op + " " + r + ")"}
		}
	}
	if g.depth <= g.MaxDepth {
		kind := g.intn("declkind", 12)
		if g.wantLex {
			// the first statement of a block that is the body of a loop or conditional: a lexical declaration half of the time
			g.wantLex = false
			if g.chance("bodylex", 2) {
				kind = 0
			}
		}
		switch kind {
		case 0:
			g.Kinds["let"]++
			if k := len(g.lexScopes); k > 0 {
				// the first declarator is a plain identifier that belongs to this scope: either a name that was declared
				// with let/const in a scope that is closed by now, or a fresh one
				var n string
				if len(g.retired) > 0 && g.chance("reuse", 2) {
					i := len(g.retired) - 1 // the name retired last: the scope next door, or the one just closed inside this one
					if g.chance("anyretired", 2) {
						i = g.intn("retired", len(g.retired))
					}
					n = g.retired[i]
					g.retired = append(g.retired[:i:i], g.retired[i+1:]...)
					for _, y := range g.lexScopes[k-1] {
						if y == n {
							n = "" // this scope declares the name itself (the retired one had shadowed it)
						}
					}
					if n != "" {
						g.Reused++
						g.Kinds["let-reused-name"]++
					} else if g.chance("plainlet", 2) {
						n = g.newName()
					}
				} else if k >= 2 && g.chance("shadow", 3) {
					// a name that a let/const of an enclosing, still open scope declares: the inner declaration shadows it
					var outer []string
					for _, sc := range g.lexScopes[:k-1] {
						for _, x := range sc {
							free := true
							for _, y := range g.lexScopes[k-1] {
								free = free && x != y
							}
							if free {
								outer = append(outer, x)
							}
						}
					}
					if len(outer) > 0 {
						n = outer[g.intn("shadowed", len(outer))]
						g.Kinds["let-shadows-outer"]++
					}
				} else if g.chance("plainlet", 2) {
					n = g.newName()
				}
				if n != "" {
					g.lexScopes[k-1] = append(g.lexScopes[k-1], n)
					g.forceName = n
				}
			}
			d := g.varDecl(g.pick("lexkind", []string{"let", "const"}), false, true)
			return Out{cat(d.Toks, semi()), d.Str}
		case 1:
			g.Kinds["funcdecl"]++
			if len(g.lexScopes) > 0 {
				// K-C03-1: a function declaration in a block gets a fresh name, never the name of a let/const/class of an
				// enclosing scope (valid, but rejected) nor of the same block (invalid, but accepted)
				g.Excluded["K-C03-1"]++
			}
			f := g.function(false)
			if k := len(g.fnScopes); k > 0 && g.fnScopes[k-1].lexDepth == len(g.lexScopes) && g.lastFunc != "" {
				g.fnScopes[k-1].funcs = append(g.fnScopes[k-1].funcs, g.lastFunc)
			}
			return f
		case 2:
			g.Kinds["classdecl"]++
			return g.class(false)
		}
	}
	return g.subStmtL(true)
}

// SubStmt: a statement that may be the body of if/while/for/label (no lexical or function/class declaration)
func (g *G) SubStmt() Out {
	g.depth++
	defer func() { g.depth-- }()
	if g.depth <= g.MaxDepth && g.chance("blockbody", 3) {
		// the usual body of a loop or conditional: a block (a scope of its own)
		g.Kinds["block-body"]++
		g.wantLex = true
		b := g.block()
		g.wantLex = false
		return b
	}
	return g.subStmt()
}

func (g *G) parenExpr() Out {
	saved := g.noIn
	g.noIn = false
	e := g.Expr(LComma)
	g.noIn = saved
	return Out{cat(tk("("), e.Toks, tk(")")), e.Str}
}

func (g *G) subStmt() Out { return g.subStmtL(false) }

func (g *G) subStmtL(inList bool) Out {
	if g.depth > g.MaxDepth+1 {
		return g.exprStmt()
	}
	k := g.intn("stmtkind", 22)
	if k == 2 && inList {
		// statement lists hold no empty statement: the parser absorbs a semicolon that directly follows a statement
		// without terminator (block, if, loops, declarations) by design, so its presence in the tree depends on layout
		k = 21
	}
	switch k {
	case 0:
		g.Kinds["var"]++
		if k := len(g.fnScopes); k > 0 && len(g.fnScopes[k-1].funcs) > 0 && g.chance("varfunc", 3) {
			// a var of the name of a function declaration of the same function-level scope (legal there, in either order)
			g.forceName = g.fnScopes[k-1].funcs[g.intn("varfuncname", len(g.fnScopes[k-1].funcs))]
			g.Kinds["var-named-like-function"]++
		}
		d := g.varDecl("var", false, true)
		return Out{cat(d.Toks, semi()), d.Str}
	case 1:
		g.Kinds["block"]++
		return g.block()
	case 2:
		g.Kinds["empty"]++
		return Out{tk(";"), "Stmt()"}
	case 3:
		g.Kinds["if"]++
		c := g.parenExpr()
		b := g.SubStmt()
		toks := cat(tk("if"), c.Toks, b.Toks)
		s := "Stmt(if " + c.Str + " " + b.Str
		if g.chance("else", 2) {
			// the dangling else binds to the nearest if: keep the then-branch from ending in an else-less if
			if strings.HasPrefix(b.Str, "Stmt(if ") || endsWithOpenIf(b.Str) {
				b2 := Out{cat(tk("{"), b.Toks, tk("}")), "Stmt({ " + b.Str + " })"}
				toks = cat(tk("if"), c.Toks, b2.Toks)
				s = "Stmt(if " + c.Str + " " + b2.Str
			}
			e := g.SubStmt()
			toks = cat(toks, tk("else"), e.Toks)
			s += " else " + e.Str
		}
		return Out{toks, s + ")"}
	case 4:
		g.Kinds["while"]++
		c := g.parenExpr()
		g.inLoop++
		b := g.SubStmt()
		g.inLoop--
		if g.WhileToFor {
			return Out{cat(tk("while"), c.Toks, b.Toks), "Stmt(for ; " + c.Str + " ; " + asBlock(b) + ")"}
		}
		return Out{cat(tk("while"), c.Toks, b.Toks), "Stmt(while " + c.Str + " " + b.Str + ")"}
	case 5:
		g.Kinds["dowhile"]++
		g.inLoop++
		b := g.SubStmt()
		g.inLoop--
		c := g.parenExpr()
		// the semicolon behind the ) of do-while is always inserted, on the same line too, whatever follows
		return Out{cat(tk("do"), b.Toks, tk("while"), c.Toks, []Tok{{S: ";", Semi: true, AfterDoWhile: true}}), "Stmt(do " + b.Str + " while " + c.Str + ")"}
	case 6:
		g.Kinds["for"]++
		toks := tk("for", "(")
		s := "Stmt(for"
		switch g.intn("forinit", 4) {
		case 0:
			d := g.varDecl(g.pick("forkind", []string{"var", "let", "const"}), false, false)
			toks = append(toks, d.Toks...)
			s += " " + d.Str
		case 1:
			saved := g.noIn
			g.noIn = true
			e := g.Expr(LComma)
			g.noIn = saved
			if e.Toks[0].S == "let" {
				e = group(e)
			}
			toks = append(toks, e.Toks...)
			s += " " + e.Str
		}
		toks = append(toks, Tok{S: ";"})
		s += " ;"
		if g.chance("cond", 2) {
			e := g.Expr(LComma)
			toks = append(toks, e.Toks...)
			s += " " + e.Str
		}
		toks = append(toks, Tok{S: ";"})
		s += " ;"
		if g.chance("post", 2) {
			e := g.Expr(LComma)
			toks = append(toks, e.Toks...)
			s += " " + e.Str
		}
		toks = append(toks, Tok{S: ")"})
		g.inLoop++
		b := g.SubStmt()
		g.inLoop--
		return Out{cat(toks, b.Toks), s + " " + forBody(b) + ")"}
	case 7, 8:
		of := k == 8
		g.Kinds[map[bool]string{true: "forof", false: "forin"}[of]]++
		toks := tk("for")
		s := "Stmt(for"
		if of && g.inAsync && g.chance("forawait", 3) {
			toks = append(toks, Tok{S: "await"})
			s += " await"
		}
		toks = append(toks, Tok{S: "("})
		switch g.intn("forlhs", 3) {
		case 0:
			kind := g.pick("forkind", []string{"var", "let", "const"})
			b := g.Binding(true)
			toks = append(toks, cat(tk(kind), b.Toks)...)
			s += " Decl(" + kind + " Binding(" + b.Str + "))"
		default:
			t := g.simpleTarget()
			if !of && g.chance("asynclhs", 6) {
				// the identifier async as the left-hand side (in a for-of head the grammar forbids it without parentheses)
				t = Out{tk("async"), "async"}
				if g.chance("asyncmember", 3) {
					t = Out{tk("async", ".", "x"), "(async.x)"}
				}
				g.Kinds["forin-async"]++
			}
			if t.Toks[0].S == "let" || (of && t.Toks[0].S == "async") {
				t = group(t)
			}
			toks = append(toks, t.Toks...)
			s += " " + t.Str
		}
		var e Out
		if of {
			toks = append(toks, Tok{S: "of"})
			e = g.Expr(LAssign)
			s += " of " + e.Str
		} else {
			toks = append(toks, Tok{S: "in"})
			e = g.Expr(LComma)
			s += " in " + e.Str
		}
		toks = append(toks, e.Toks...)
		toks = append(toks, Tok{S: ")"})
		g.inLoop++
		b := g.SubStmt()
		g.inLoop--
		return Out{cat(toks, b.Toks), s + " " + forBody(b) + ")"}
	case 9:
		g.Kinds["switch"]++
		c := g.parenExpr()
		toks := cat(tk("switch"), c.Toks, tk("{"))
		s := "Stmt(switch " + c.Str
		g.inSwitch++
		n := g.intn("nclauses", 3)
		hasDefault := false
		for i := 0; i < n; i++ {
			if !hasDefault && g.chance("default", 3) {
				hasDefault = true
				toks = append(toks, tk("default", ":")...)
				s += " Clause(default"
			} else {
				e := g.Expr(LComma)
				toks = append(toks, cat(tk("case"), e.Toks, tk(":"))...)
				s += " Clause(case " + e.Str
			}
			for m := g.intn("nclausestmts", 3); m > 0; m-- {
				st := g.Stmt()
				toks = append(toks, st.Toks...)
				s += " " + st.Str
			}
			s += ")"
		}
		g.inSwitch--
		return Out{append(toks, Tok{S: "}"}), s + ")"}
	case 10:
		if g.inLoop > 0 || g.inSwitch > 0 {
			g.Kinds["break"]++
			if len(g.labels) > 0 && g.chance("label", 2) {
				l := g.labels[len(g.labels)-1]
				return Out{cat(tk("break"), []Tok{{S: l, NoLT: true}}, semi()), "Stmt(break " + l + ")"}
			}
			return Out{cat(tk("break"), semi()), "Stmt(break)"}
		}
	case 11:
		if g.inLoop > 0 {
			g.Kinds["continue"]++
			return Out{cat(tk("continue"), semi()), "Stmt(continue)"}
		}
	case 12:
		if (g.inFunc > 0 || g.TopReturn) && !g.noReturn {
			g.Kinds["return"]++
			if g.chance("value", 2) {
				saved := g.noIn
				g.noIn = false
				e := g.Expr(LComma)
				g.noIn = saved
				return Out{cat(tk("return"), noLT(e.Toks), semi()), "Stmt(return " + e.Str + ")"}
			}
			return Out{cat(tk("return"), semi()), "Stmt(return)"}
		}
	case 13:
		g.Kinds["throw"]++
		e := g.Expr(LComma)
		return Out{cat(tk("throw"), noLT(e.Toks), semi()), "Stmt(throw " + e.Str + ")"}
	case 14:
		g.Kinds["try"]++
		b := g.block()
		toks := cat(tk("try"), b.Toks)
		s := "Stmt(try " + b.Str
		mode := g.intn("trymode", 3)
		if mode != 2 {
			toks = append(toks, Tok{S: "catch"})
			s += " catch"
			if g.chance("catchparam", 2) {
				p := g.Binding(true)
				toks = append(toks, cat(tk("("), p.Toks, tk(")"))...)
				s += " Binding(" + p.Str + ")"
			}
			c := g.block()
			toks = append(toks, c.Toks...)
			s += " " + c.Str
		}
		if mode != 0 {
			f := g.block()
			toks = append(toks, cat(tk("finally"), f.Toks)...)
			s += " finally " + f.Str
		}
		return Out{toks, s + ")"}
	case 15:
		g.Kinds["label"]++
		g.nameSeq++
		l := fmt.Sprintf("L%d", g.nameSeq)
		if g.chance("kwlabel", 4) {
			// contextual keywords are identifiers: legal labels (one of each at a time: labels may not be nested twice)
			kw := g.pick("kwlabelname", []string{"async", "let", "of", "get", "set", "static", "as", "target"})
			free := true
			for _, x := range g.labels {
				free = free && x != kw
			}
			if free {
				l = kw
			}
		}
		g.labels = append(g.labels, l)
		g.inLoop++
		var b Out
		nbody := 5
		if inList && !g.Module {
			nbody = 6 // in a statement list of a script also: a labelled function declaration (Annex B.3.2)
		}
		switch g.intn("labelbody", nbody) {
		case 5:
			g.Kinds["label-function"]++
			g.forcePlain = true
			b = g.function(false)
		case 3:
			// a labelled variable statement (its terminator is the label statement's)
			d := g.varDecl("var", false, true)
			b = Out{cat(d.Toks, semi()), d.Str}
		case 4:
			b = g.exprStmt()
		case 0:
			c := g.parenExpr()
			body := g.SubStmt()
			b = Out{cat(tk("while"), c.Toks, body.Toks), "Stmt(while " + c.Str + " " + body.Str + ")"}
			if g.WhileToFor {
				b.Str = "Stmt(for ; " + c.Str + " ; " + asBlock(body) + ")"
			}
		case 1:
			body := g.SubStmt()
			b = Out{cat(tk("for", "(", ";", ";", ")"), body.Toks), "Stmt(for ; ; " + forBody(body) + ")"}
		case 2:
			b = g.block()
		}
		g.inLoop--
		g.labels = g.labels[:len(g.labels)-1]
		return Out{cat(tk(l, ":"), b.Toks), "Stmt(" + l + " : " + b.Str + ")"}
	case 16:
		g.Kinds["debugger"]++
		return Out{cat(tk("debugger"), semi()), "Stmt(debugger)"}
	case 17:
		if !g.Module {
			g.Kinds["with"]++
			c := g.parenExpr()
			b := g.SubStmt()
			return Out{cat(tk("with"), c.Toks, b.Toks), "Stmt(with " + c.Str + " " + b.Str + ")"}
		}
	}
	g.Kinds["exprstmt"]++
	return g.exprStmt()
}

// endsWithOpenIf: would an else written behind this statement attach to an if inside it?
func endsWithOpenIf(s string) bool {
	// conservative: any nested if without braces around it inside a while/for/label/with body
	return strings.Contains(s, "Stmt(if ") && !strings.HasPrefix(s, "Stmt({ ")
}

func (g *G) moduleItem() Out {
	switch g.intn("moduleitem", 8) {
	case 0:
		g.Kinds["import"]++
		// K-C03-2: imported names are fresh, never re-declared lexically (that would have to be rejected, but is accepted)
		g.Excluded["K-C03-2"]++
		mod := g.pick("module", []string{`"m"`, `'./x.js'`})
		switch g.intn("importform", 5) {
		case 0:
			return Out{cat(tk("import", mod), semi()), "Stmt(import " + mod + ")"}
		case 1:
			n := g.newName()
			return Out{cat(tk("import", n, "from", mod), semi()), "Stmt(import " + n + " from " + mod + ")"}
		case 2:
			n := g.newName()
			return Out{cat(tk("import", "*", "as", n, "from", mod), semi()), "Stmt(import * as " + n + " from " + mod + ")"}
		case 3:
			a, b := g.newName(), g.newName()
			return Out{cat(tk("import", "{", a, ",", "x", "as", b, "}", "from", mod), semi()), "Stmt(import { " + a + " , x as " + b + " } from " + mod + ")"}
		}
		d, a := g.newName(), g.newName()
		return Out{cat(tk("import", d, ",", "{", a, "}", "from", mod), semi()), "Stmt(import " + d + " , { " + a + " } from " + mod + ")"}
	case 1:
		g.Kinds["export"]++
		switch g.intn("exportform", 6) {
		case 0:
			d := g.varDecl(g.pick("exportkind", []string{"var", "let", "const"}), false, true)
			return Out{cat(tk("export"), d.Toks, semi()), "Stmt(export " + d.Str + ")"}
		case 1:
			f := g.function(false)
			return Out{cat(tk("export"), f.Toks), "Stmt(export " + f.Str + ")"}
		case 2:
			c := g.class(false)
			return Out{cat(tk("export"), c.Toks), "Stmt(export " + c.Str + ")"}
		case 3:
			e := g.Expr(LAssign)
			switch e.Toks[0].S {
			case "function", "class", "async":
				e = group(e)
			}
			return Out{cat(tk("export", "default"), e.Toks, semi()), "Stmt(export default " + e.Str + ")"}
		case 4:
			mod := g.pick("module", []string{`"m"`, `'./x.js'`})
			return Out{cat(tk("export", "*", "from", mod), semi()), "Stmt(export * from " + mod + ")"}
		}
		if len(g.Declared) > 0 {
			n := rapid.SampledFrom(g.Declared).Draw(g.T, "exported")
			return Out{cat(tk("export", "{", n, "as", "y", "}"), semi()), "Stmt(export { " + n + " as y })"}
		}
	}
	return g.Stmt()
}

// Program generates a whole program (module goal when g.Module).
func (g *G) Program() Out {
	n := 1 + g.intn("nstmts", 4)
	var toks []Tok
	var strs []string
	// the top level is a scope like any other: its let/const names can be shadowed further in and re-use retired names
	g.lexScopes = append(g.lexScopes, nil)
	defer func() { g.lexScopes = g.lexScopes[:len(g.lexScopes)-1] }()
	if !g.Module {
		// the top level of a script (or of an inline handler, which is a function body) is a function-level scope
		g.fnScopes = append(g.fnScopes, &fnScope{lexDepth: len(g.lexScopes)})
		defer func() { g.fnScopes = g.fnScopes[:len(g.fnScopes)-1] }()
	}
	for i := 0; i < n; i++ {
		var s Out
		if g.Module {
			s = g.moduleItem()
		} else {
			s = g.Stmt()
		}
		toks = append(toks, s.Toks...)
		strs = append(strs, s.Str)
	}
	return Out{toks, strings.Join(strs, " ")}
}
