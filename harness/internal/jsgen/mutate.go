package jsgen

import (
	"strings"

	"pgregory.net/rapid"
)

// tokens that turn a valid program into a nearly valid one when inserted somewhere
var mutTokens = []string{"=", "1", "a", "...", "=>", ",", ";", "(", ")", "{", "}", "[", "]", "?.", "**", "??", "in", "of", "yield", "await", "async", "static", "get", "set", "new", "#a", ":", "?", "=1", "...a", "= 1", "...a = 1", "`", "${", "/", "*", "let", "class", "function", "import", "export", "default", "super", "this", "!", "++", "\n"}

// NearValid renders a generated program and applies 1-3 token-level edits (delete, duplicate, swap neighbours, replace or
// insert one of the program's own tokens or a token from a list of grammar-relevant ones, splice a token range to another
// place): programs that are one slip away from a valid one, which is where a parser's cover-grammar and error paths live.
func NearValid(t *rapid.T, toks []Tok) string {
	words := make([]string, 0, len(toks)+4)
	for _, k := range toks {
		if k.S != "" {
			words = append(words, k.S)
		}
	}
	pick := func() string {
		if len(words) > 0 && rapid.Bool().Draw(t, "own") {
			return words[rapid.IntRange(0, len(words)-1).Draw(t, "owntok")]
		}
		return rapid.SampledFrom(mutTokens).Draw(t, "muttok")
	}
	for n := rapid.IntRange(1, 3).Draw(t, "nedits"); n > 0; n-- {
		if len(words) == 0 {
			words = append(words, pick())
			continue
		}
		i := rapid.IntRange(0, len(words)-1).Draw(t, "at")
		switch rapid.IntRange(0, 6).Draw(t, "edit") {
		case 0:
			words = append(words[:i:i], words[i+1:]...)
		case 1:
			words = append(words[:i+1:i+1], words[i:]...)
		case 2:
			if i+1 < len(words) {
				words[i], words[i+1] = words[i+1], words[i]
			}
		case 3:
			words[i] = pick()
		case 4, 5:
			words = append(words[:i:i], append([]string{pick()}, words[i:]...)...)
		case 6:
			j := rapid.IntRange(i, min(len(words), i+6)).Draw(t, "to")
			k := rapid.IntRange(0, len(words)).Draw(t, "dest")
			seg := append([]string(nil), words[i:j]...)
			words = append(words[:k:k], append(seg, words[k:]...)...)
		}
	}
	sep := " "
	if rapid.IntRange(0, 5).Draw(t, "nl") == 0 {
		sep = "\n"
	}
	return strings.Join(words, sep)
}
