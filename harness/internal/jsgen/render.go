package jsgen

import (
	"strings"
	"unicode/utf8"

	"pgregory.net/rapid"
)

// punctuators of ECMAScript for the maximal-munch check of unseparated punctuator runs
var puncts = []string{"{", "}", "(", ")", "[", "]", ".", ";", ",", "?", ":", "=>", "...", "=", "==", "===", "!", "!=", "!==", "<", "<=", "<<", "<<=", ">", ">=", ">>", ">>=", ">>>", ">>>=",
	"+", "+=", "++", "-", "-=", "--", "*", "*=", "**", "**=", "/", "/=", "%", "%=", "&", "|", "^", "~", "&=", "|=", "^=", "&&", "||", "??", "&&=", "||=", "??=", "?."}

var punctSet = func() map[string]bool {
	m := map[string]bool{}
	for _, p := range puncts {
		m[p] = true
	}
	return m
}()

func munch(s string) []string {
	var out []string
	for len(s) > 0 {
		best := ""
		for _, p := range puncts {
			if strings.HasPrefix(s, p) && len(p) > len(best) {
				if p == "?." && len(s) > 2 && s[2] >= '0' && s[2] <= '9' {
					continue
				}
				best = p
			}
		}
		if best == "" {
			return nil
		}
		out = append(out, best)
		s = s[len(best):]
	}
	return out
}

func isWordByte(c byte) bool {
	return c >= 'a' && c <= 'z' || c >= 'A' && c <= 'Z' || c >= '0' && c <= '9' || c == '_' || c == '$' || c == '\\' || c >= 0x80 || c == '#'
}

func isNumberTok(s string) bool {
	return s[0] >= '0' && s[0] <= '9' || (s[0] == '.' && len(s) > 1 && s[1] >= '0' && s[1] <= '9')
}

type renderer struct {
	run  string
	runN []string
}

// mustSeparate: conservative
func (r *renderer) mustSeparate(a, b string) bool {
	la, fb := a[len(a)-1], b[0]
	if isWordByte(la) && isWordByte(fb) {
		return true
	}
	if isNumberTok(a) && (fb == '.' || isWordByte(fb)) {
		return true
	}
	if punctSet[a] && isNumberTok(b) && (strings.HasSuffix(a, ".") || b[0] == '.' && strings.HasSuffix(a, "?") && false) {
		return true
	}
	if a[0] == '/' && len(a) > 1 && !punctSet[a] && isWordByte(fb) {
		return true // regular expression flags
	}
	if la == '/' && (fb == '/' || fb == '*') {
		return true
	}
	if punctSet[a] && punctSet[b] {
		run := r.run + b
		want := append(append([]string(nil), r.runN...), b)
		got := munch(run)
		if len(got) != len(want) {
			return true
		}
		for i := range got {
			if got[i] != want[i] {
				return true
			}
		}
		if strings.Contains(run, "//") || strings.Contains(run, "/*") || strings.Contains(run, "<!--") || strings.Contains(run, "-->") {
			return true
		}
	}
	if punctSet[a] && !punctSet[b] && (la == '<' && fb == '!' || la == '-' && fb == '-') {
		return true
	}
	return false
}

func (r *renderer) push(s string, separated bool) {
	if punctSet[s] && !separated && r.run != "" {
		r.run += s
		r.runN = append(r.runN, s)
	} else if punctSet[s] {
		r.run, r.runN = s, []string{s}
	} else {
		r.run, r.runN = "", nil
	}
}

func safeAfterASI(next string) bool {
	if next == ";" || next == "in" || next == "instanceof" {
		return false
	}
	c := next[0]
	if c >= 0x80 {
		r, _ := utf8.DecodeRuneInString(next)
		return r != utf8.RuneError
	}
	return c >= 'a' && c <= 'z' || c >= 'A' && c <= 'Z' || c >= '0' && c <= '9' || c == '_' || c == '$' || c == '"' || c == '\'' || c == '{'
}

// Render writes the tokens with drawn separators. dense: explicit semicolons, separators only where required.
// It returns the text and the number of semicolons left to automatic semicolon insertion.
func Render(t *rapid.T, toks []Tok, dense bool) (string, int) {
	return render(t, toks, dense, false)
}

// RenderBang is Render(t, toks, false) with every comment separator written as a /*! */ comment (which the parser keeps
// in the tree as a Comment statement in front of the statement list it occurs in; it separates tokens and carries line
// terminators like any other comment).
func RenderBang(t *rapid.T, toks []Tok) (string, int) {
	return render(t, toks, false, true)
}

func render(t *rapid.T, toks []Tok, dense, bang bool) (string, int) {
	var sb strings.Builder
	r := &renderer{}
	asi := 0
	prev := ""
	pendingLT := false // a line terminator must be the next separator (ASI by newline, or a // comment was written)
	for i, k := range toks {
		if k.Semi && !dense {
			last := i == len(toks)-1
			nextS := ""
			if !last {
				nextS = toks[i+1].S
			}
			switch mode := rapid.IntRange(0, 3).Draw(t, "asi"); {
			case mode == 2 && k.AfterDoWhile && !last && !toks[i+1].Semi:
				asi++
				continue // rule: the semicolon that ends a do-while statement, wherever the next token stands
			case mode == 0 && (last || nextS == "}"):
				asi++
				continue // rule: before } and at the end of input
			case mode == 1 && !last && !toks[i+1].NoLT && !toks[i+1].Semi &&
				(safeAfterASI(nextS) || i > 0 && toks[i-1].EndsUncallable && (nextS[0] == '(' || nextS[0] == '[' || nextS[0] == '`') ||
					i > 0 && toks[i-1].EndsClosed && (nextS == "+" || nextS == "-" || nextS == "++" || nextS == "--" || nextS[0] == '/')):
				asi++
				pendingLT = true
				continue // rule: offending token on a new line
			}
		}
		sep := ""
		if k.NeedLT {
			pendingLT = true
		}
		if prev != "" {
			need := r.mustSeparate(prev, k.S)
			choice := 0
			if !dense {
				choice = rapid.IntRange(0, 9).Draw(t, "sep")
			}
			switch {
			case pendingLT:
				sep = rapid.SampledFrom([]string{"\n", "\r\n", " \n ", "\n\n", "\xe2\x80\xa8", "/*\n*/", "//c\n"}).Draw(t, "lt")
			case choice <= 4 && !need:
				sep = ""
			case choice <= 6 || k.NoLT || dense:
				sep = rapid.SampledFrom([]string{" ", " ", "\t", "  ", "/**/", " /*c*/ "}).Draw(t, "space")
				if need && sep == "/**/" && strings.HasSuffix(prev, "/") {
					sep = " "
				}
			default:
				sep = rapid.SampledFrom([]string{"\n", "\r\n", "\n  ", "\xe2\x80\xa8", "/*\n*/", "//c\n", "\xe2\x80\xa9"}).Draw(t, "newline")
				if strings.HasSuffix(prev, "/") && sep[0] == '/' {
					sep = "\n"
				}
			}
			if strings.HasSuffix(prev, "/") && strings.HasPrefix(sep, "/") {
				sep = " " + sep
			}
		}
		pendingLT = false
		if bang {
			sep = strings.Replace(sep, "/*", "/*!", 1)
		}
		sb.WriteString(sep)
		sb.WriteString(k.S)
		r.push(k.S, sep != "")
		prev = k.S
	}
	return sb.String(), asi
}
