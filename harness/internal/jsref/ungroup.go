// Package jsref holds reflection helpers over the js AST shared by several property packages.
package jsref

import (
	"reflect"

	"github.com/tdewolff/parse/v2/js"
)

var (
	groupType = reflect.TypeOf(&js.GroupExpr{})
	scopeType = reflect.TypeOf(js.Scope{})
	varType   = reflect.TypeOf(&js.Var{})
)

// Ungroup removes every GroupExpr node from the tree in place (the parenthesised expression takes its place).
func Ungroup(ast *js.AST) {
	seen := map[uintptr]bool{}
	ungroup(reflect.ValueOf(ast), seen, 0)
}

func ungroup(v reflect.Value, seen map[uintptr]bool, depth int) {
	if depth > 100000 {
		return
	}
	switch v.Kind() {
	case reflect.Ptr:
		if v.IsNil() || v.Type() == varType {
			return
		}
		if seen[v.Pointer()] {
			return
		}
		seen[v.Pointer()] = true
		ungroup(v.Elem(), seen, depth+1)
	case reflect.Interface:
		if v.IsNil() {
			return
		}
		for v.Elem().Type() == groupType && v.CanSet() {
			g := v.Elem().Interface().(*js.GroupExpr)
			v.Set(reflect.ValueOf(g.X))
			if v.IsNil() {
				return
			}
		}
		ungroup(v.Elem(), seen, depth+1)
	case reflect.Struct:
		if v.Type() == scopeType {
			return
		}
		for i := 0; i < v.NumField(); i++ {
			f := v.Field(i)
			if !v.Type().Field(i).IsExported() {
				continue
			}
			ungroup(f, seen, depth+1)
		}
	case reflect.Slice:
		if v.Type().Elem().Kind() == reflect.Uint8 {
			return
		}
		for i := 0; i < v.Len(); i++ {
			ungroup(v.Index(i), seen, depth+1)
		}
	}
}
