#!/bin/bash
# Sensitivity against the real defects of the pinned tree: every "fixed:" entry of KNOWN_FINDINGS.txt is reverted in a
# scratch copy of /repo (selftest/reverts/<commit>.diff = reverse patch of that fix) and the quick check of its property
# must raise the alarm. The repository suite is known to pass without the fix (it passed on the pinned tree).
#   selftest/reverts.sh [property]
cd "$(dirname "$0")/.."
grep '^fixed:' KNOWN_FINDINGS.txt | while read -r _ prop commit rest; do
  p=${prop#property=}
  [ -n "${1:-}" ] && [ "$1" != "$p" ] && continue
  f=selftest/reverts/$commit.diff
  if grep -q "^$commit " selftest/reverts/NEUTRAL.txt 2>/dev/null; then echo "$p $commit: neutral ($(grep "^$commit " selftest/reverts/NEUTRAL.txt | cut -d' ' -f2-))"; continue; fi
  [ -f "$f" ] || { echo "no revert patch for $commit"; continue; }
  out=$(selftest/run.sh "$f" "$p" quick --skip-suite </dev/null 2>&1 | grep SELFTEST | tail -1)
  echo "$p $commit: $out"
done
