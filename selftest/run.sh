#!/bin/bash
# Sensitivity self-test: apply a patch (a seeded defect) to a scratch copy of /repo, confirm that it compiles and that
# the repository's own test suite still passes, then run the quick (or thorough) check of a property against the
# scratch copy and report whether it raises the alarm. Nothing in /repo or /verif is modified.
#   selftest/run.sh <patch.diff> <Cxx> [quick|thorough] [--skip-suite]
set -u
PATCH=$(readlink -f "$1"); PROP=$2; TIER=${3:-quick}; SKIP=${4:-}
VERIF=$(cd "$(dirname "$0")/.." && pwd)
S=$(mktemp -d /tmp/vmut.XXXXXX)
trap 'rm -rf "$S"' EXIT
export GOFLAGS=-mod=mod GOPROXY=off GOSUMDB=off GOTOOLCHAIN=local
mkdir -p "$S/repo" "$S/out"
rsync -a --exclude .git /repo/ "$S/repo/"
if ! (cd "$S/repo" && patch -p1 -s < "$PATCH"); then echo "SELFTEST patch does not apply: $PATCH"; exit 3; fi
if ! (cd "$S/repo" && go build ./... ) >"$S/build.log" 2>&1; then echo "SELFTEST mutant does not compile"; cat "$S/build.log" | head; exit 3; fi
if [ "$SKIP" != "--skip-suite" ]; then
  if ! (cd "$S/repo" && go test -count=1 ./... ) >"$S/suite.log" 2>&1; then echo "SELFTEST suite FAILS on the mutant (not a valid seeded defect)"; grep -E "^(---|FAIL|ok)" "$S/suite.log" | head -20; exit 4; fi
fi
rsync -a --exclude testdata/rapid "$VERIF/harness/" "$S/harness/"
sed -i "s#=> /repo#=> $S/repo#" "$S/harness/go.mod"
VERIF_HARNESS="$S/harness" VERIF_OUT="$S/out" VERIF_REPO="$S/repo" "$VERIF/check" "$PROP" "$TIER" > "$S/check.log" 2>&1
rc=$?
grep -E "^(VIOLATION|OK|INCONCLUSIVE|KNOWN)" "$S/check.log" | head -5
if [ $rc -eq 1 ]; then
  f=$(ls "$S"/out/replays/"$PROP"/*.log 2>/dev/null | head -1)
  [ -n "$f" ] && grep -m1 -A2 "rapid\] failed\|--- FAIL" "$f" | cut -c1-400
  echo "SELFTEST caught property=$PROP patch=$(basename "$PATCH")"
else
  echo "SELFTEST MISSED property=$PROP patch=$(basename "$PATCH") (exit $rc)"
fi
exit $rc
