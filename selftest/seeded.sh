#!/bin/bash
# Evaluate the changes seeded by the sub-agents (seeded/<id>/<n>/): for each one confirm in a scratch copy of /repo that
# (1) the demonstration passes on the unchanged tree, (2) with the patch the tree builds and the repository suite passes,
# (3) the demonstration fails with the patch; then run the property's check (quick, and thorough if quick misses) against
# the patched scratch copy. Nothing in /repo or /verif is modified.
#   selftest/seeded.sh [<id> [<n>]]          results: one line per change, "SEEDED <id>/<n> demo=<ok|BAD…> quick=<caught|MISSED> [thorough=…]"
set -u
VERIF=$(cd "$(dirname "$0")/.." && pwd)
export GOFLAGS=-mod=mod GOPROXY=off GOSUMDB=off GOTOOLCHAIN=local
for d in "$VERIF"/seeded/${1:-C*}/${2:-*}/; do
  [ -f "$d/patch.diff" ] || continue
  id=$(basename "$(dirname "$d")"); n=$(basename "$d")
  S=$(mktemp -d /tmp/vseed.XXXXXX)
  rsync -a --exclude .git /repo/ "$S/repo/"
  demo=ok
  if [ -f "$d/demo_test.go" ]; then
    mkdir -p "$S/repo/seededdemo"; cp "$d/demo_test.go" "$S/repo/seededdemo/demo_test.go"
    (cd "$S/repo" && go test -count=1 ./seededdemo/ >"$S/demo0.log" 2>&1) || demo="BAD(demo-fails-on-unchanged-tree)"
  else
    demo="none"
  fi
  if ! (cd "$S/repo" && patch -p1 -s < "$d/patch.diff"); then echo "SEEDED $id/$n patch does not apply"; rm -rf "$S"; continue; fi
  rm -rf "$S/repo/seededdemo.keep"; mv "$S/repo/seededdemo" "$S/seededdemo" 2>/dev/null
  if ! (cd "$S/repo" && go build ./... && go test -count=1 ./... ) >"$S/suite.log" 2>&1; then echo "SEEDED $id/$n INVALID: build or suite fails with the patch"; rm -rf "$S"; continue; fi
  if [ -d "$S/seededdemo" ]; then
    mv "$S/seededdemo" "$S/repo/seededdemo"
    if (cd "$S/repo" && go test -count=1 ./seededdemo/ >"$S/demo1.log" 2>&1); then demo="BAD(demo-passes-with-patch)"; fi
  fi
  rm -rf "$S"
  q=$("$VERIF"/selftest/run.sh "$d/patch.diff" "$id" quick --skip-suite 2>&1 </dev/null | grep SELFTEST | tail -1)
  case "$q" in
    *caught*) echo "SEEDED $id/$n demo=$demo quick=caught";;
    *) if [ -n "${SEEDED_QUICK_ONLY:-}" ]; then echo "SEEDED $id/$n demo=$demo quick=MISSED"; continue; fi
       t=$("$VERIF"/selftest/run.sh "$d/patch.diff" "$id" thorough --skip-suite 2>&1 </dev/null | grep SELFTEST | tail -1)
       case "$t" in *caught*) echo "SEEDED $id/$n demo=$demo quick=MISSED thorough=caught";; *) echo "SEEDED $id/$n demo=$demo quick=MISSED thorough=MISSED ($t)";; esac;;
  esac
done
