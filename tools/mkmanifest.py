#!/usr/bin/env python3
"""Generates MANIFEST.json from checks.json (one table, so the manifest always matches what the driver runs)."""
import json, os
V = os.path.dirname(os.path.dirname(os.path.abspath(__file__)))
conf = json.load(open(os.path.join(V, "checks.json")))
props = [json.loads(l) for l in open(os.path.join(V, "properties.jsonl")) if l.strip()]
checks, na = [], []
for p in props:
    pid = p["id"]
    c = conf.get(pid)
    if c is None or c.get("disabled"):
        na.append({"property_id": pid, "reason": (c or {}).get("disabled", "check not built yet in this round; see DESIGN.md section 2 for the planned generated-input check")})
        continue
    checks.append({
        "property_id": pid,
        "quick_cmd": "./check %s quick" % pid,
        "thorough_cmd": "./check %s thorough" % pid,
        "evidence_file": "evidence/%s.json" % pid,
        "replay_cmd_template": "./check %s --replay {path}" % pid,
        "engine": "rapid+gofuzz",
        "level_claimed": {"category": "exploration", "text": c["level_text"], "design_ref": "DESIGN.md 2, " + pid},
        "level_note": c["level_note"],
        "technique": c["technique"],
    })
m = {
    "version": 1,
    "setup_cmd": "./check setup",
    "hooks": {"guard": "verif", "enable": "no hooks are needed: every observation point is public API (go test builds /repo through a replace directive)",
              "baseline_off_cmd": "cd /repo && go test -mod=mod -json -vet=off -count=1 -timeout 25m ./...",
              "source_commits": [], "add_only": True},
    "engines": [{"name": "rapid+gofuzz", "path": "harness", "serves_properties": [c["property_id"] for c in checks],
                 "kind_free_text": "property-based testing (pgregory.net/rapid v1.3.0: generators, stateful t.Repeat, shrinking, fail files) and Go native coverage-guided fuzzing (thorough tier), oracles inside the test packages harness/cNN; driver ./check"}],
    "checks": checks,
    "notes": "Every check is generated-input search against an explicit oracle; see DESIGN.md. KNOWN_FINDINGS.txt lists repaired (fixed:) and recorded (known:) defects.",
    "not_applicable": na,
}
json.dump(m, open(os.path.join(V, "MANIFEST.json"), "w"), indent=1)
print("claimed", len(checks), "not claimed", len(na))
